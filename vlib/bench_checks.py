"""Shared stages of the benchmark checks C10 / C18: per-instance theorem batches, formula-vs-Calculate tie, numeric search."""
import math
import random

from . import bench, core, harness as H

PT = bench.PT


def problem(family, k=None, dim=None):
    import importlib
    mod = {'Hill': ('iOpt.problems.hill', 'Hill'), 'Shekel': ('iOpt.problems.shekel', 'Shekel'), 'Shekel4': ('iOpt.problems.shekel4', 'Shekel4'),
           'Rastrigin': ('iOpt.problems.rastrigin', 'Rastrigin'), 'XSquared': ('iOpt.problems.xsquared', 'XSquared'),
           'StronginC3': ('iOpt.problems.stronginC3', 'StronginC3'), 'Grishagin': ('iOpt.problems.grishagin', 'Grishagin'), 'GKLS': ('iOpt.problems.GKLS', 'GKLS')}[family]
    cls = getattr(importlib.import_module(mod[0]), mod[1])
    if family in ('Rastrigin', 'XSquared'):
        return cls(dim)
    if family == 'StronginC3':
        return cls()
    if family == 'GKLS':
        return cls(dim, k)
    return cls(k)


def calc(pb, y):
    import numpy as np
    from iOpt.trial import Point, FunctionValue
    fv = FunctionValue()
    return float(pb.Calculate(Point(np.array(y, dtype=np.double), []), fv).value)


def formula_tie(chk, rng, insts, npts=40):
    """the closed form obtained from the source text evaluates like the real Calculate (same operation order: 1e-12 relative)"""
    bad = []
    n = 0
    for fam, kw, tree, lo, hi in insts:
        pb = problem(fam, **kw)
        for _ in range(npts):
            y = [a + (b - a) * rng.random() for a, b in zip(lo, hi)]
            v1 = PT.evaluate(tree, y)
            v2 = calc(pb, y)
            n += 1
            if abs(v1 - v2) > 1e-12 * max(1.0, abs(v2)):
                bad.append((fam, kw, y, v1, v2)); break
    chk.evaluations += n
    chk.traces += n
    chk.obligation('correspondence: closed forms generated from the Calculate sources = real Calculate at random points', not bad, 'first: %r' % (bad[:2],))
    return bad


def minimise_1d(pb, lo, hi, n=4001):
    """dense scan + golden refinement of the real Calculate"""
    best, bx = float('inf'), lo
    xs = [lo + (hi - lo) * i / (n - 1) for i in range(n)]
    vals = [calc(pb, [x]) for x in xs]
    i = min(range(n), key=lambda j: vals[j])
    a, b = xs[max(i - 1, 0)], xs[min(i + 1, n - 1)]
    for _ in range(60):
        m1, m2 = a + (b - a) * 0.382, a + (b - a) * 0.618
        if calc(pb, [m1]) < calc(pb, [m2]):
            b = m2
        else:
            a = m1
    x = (a + b) / 2
    return x, calc(pb, [x]), xs, vals


def numeric_c10_1d(family, k):
    """direct oracle for one 1-D instance; returns list of (failure text, witness dict)"""
    pb = problem(family, k=k)
    lo, hi = float(pb.lowerBoundOfFloatVariables[0]), float(pb.upperBoundOfFloatVariables[0])
    ko = pb.knownOptimum[0]
    p = float(ko.point.floatVariables[0]); v = float(ko.functionValues[0].value)
    out = []
    fp = calc(pb, [p])
    if abs(fp - v) > 1e-4:
        out.append(('%s(%d): objective at the declared optimum point %r is %r, declared value %r' % (family, k, p, fp, v), {'point': [p]}))
    x, fx, xs, vals = minimise_1d(pb, lo, hi)
    if fx < v - 2e-3 * max(1.0, abs(v)):
        out.append(('%s(%d): f(%r) = %r is lower than the declared optimum %r by more than 2e-3*max(1,|f*|)' % (family, k, x, fx, v), {'point': [x]}))
    if abs(x - p) > 0.005 * (hi - lo) and fx < fp - 1e-9:
        out.append(('%s(%d): the global minimiser found at %r (value %r) is farther than 0.5%% of the box side from the declared point %r (value %r)' % (family, k, x, fx, p, fp), {'point': [x]}))
    return out


def scan_all_rows(family):
    """all 1000 rows of a 1-D family at once (numpy, coefficient tables re-read from the source): candidate global extremisers on a
    fine grid with a local refinement; a candidate that beats the published tables / declared optimum is CONFIRMED with the real
    Calculate before it is reported. Returns [(row, message, witness)]."""
    import numpy as np
    gen = PT.load_tables(core.REPO, PT.FAMILIES[family][2][list(PT.FAMILIES[family][2])[0]])
    mn, mx, lc = bench.tables_1d(core.REPO, family)
    if family == 'Hill':
        a = np.array(gen['aHill'], dtype=float); b = np.array(gen['bHill'], dtype=float); lo, hi = 0.0, 1.0
        i = np.arange(a.shape[1])[None, :, None]

        def f(rows, xs):      # rows: (R,), xs: (R, P)
            return (a[rows][:, :, None] * np.sin(2 * i * np.pi * xs[:, None, :]) + b[rows][:, :, None] * np.cos(2 * i * np.pi * xs[:, None, :])).sum(axis=1)
    else:
        kk = np.array(gen['kShekel'], dtype=float); aa = np.array(gen['aShekel'], dtype=float); cc = np.array(gen['cShekel'], dtype=float); lo, hi = 0.0, 10.0

        def f(rows, xs):
            return -(1.0 / (kk[rows][:, :, None] * (xs[:, None, :] - aa[rows][:, :, None]) ** 2 + cc[rows][:, :, None])).sum(axis=1)
    R = a.shape[0] if family == 'Hill' else kk.shape[0]
    rows = np.arange(R)
    grid = np.linspace(lo, hi, 4001)
    out = []
    locfind = []
    for sign, table, word in ((1.0, mn, 'minimum'), (-1.0, mx, 'maximum')):
        best_x = np.zeros(R); best_v = np.full(R, np.inf)
        for blk in range(0, R, 100):
            rr = rows[blk:blk + 100]
            vals = sign * f(rr, np.broadcast_to(grid, (len(rr), len(grid))))
            j = vals.argmin(axis=1)
            x0 = grid[j]; h = grid[1] - grid[0]
            for _ in range(3):      # zoom in around the best grid node
                loc = np.clip(x0[:, None] + np.linspace(-h, h, 41)[None, :], lo, hi)
                v = sign * f(rr, loc)
                jj = v.argmin(axis=1)
                x0 = loc[np.arange(len(rr)), jj]; h = h / 20
            best_x[blk:blk + 100] = x0; best_v[blk:blk + 100] = (sign * f(rr, x0[:, None]))[:, 0]
        for k in range(R):
            tv, tx = float(table[k][0]), float(table[k][1])
            v = sign * best_v[k]
            if (sign > 0 and v < tv - 1e-4) or (sign < 0 and v > tv + 1e-4):      # the function goes beyond the published extreme value
                out.append((k, word, float(best_x[k]), float(v), tv, tx))
            elif abs(best_x[k] - tx) > 2e-4 * (hi - lo):      # the published LOCATION: a strictly better extremum lies elsewhere
                vt = float((sign * f(np.array([k]), np.array([[tx]])))[0, 0])
                if best_v[k] < vt - 2e-5:
                    locfind.append((k, word, float(best_x[k]), float(v), sign * vt, tx))
    res = []
    for k, word, x, v, tv, tx in out[:6]:      # confirm on the implementation
        pb = problem(family, k=k)
        real = calc(pb, [x])
        if (word == 'minimum' and real < tv - 1e-4) or (word == 'maximum' and real > tv + 1e-4):
            res.append((k, '%s row %d: Calculate(%r) = %r, but the published %s is %r (at %r)' % (family, k, x, real, word, tv, tx), {'point': [x]}))
    for k, word, x, v, vt, tx in locfind[:6]:      # location findings, confirmed on the implementation
        pb = problem(family, k=k)
        rx, rt = calc(pb, [x]), calc(pb, [tx])
        if (word == 'minimum' and rx < rt - 2e-5) or (word == 'maximum' and rx > rt + 2e-5):
            res.append((k, '%s row %d: the published %s location %r has value %r, but Calculate(%r) = %r: the %s lies %.3g of the range away from the table entry'
                        % (family, k, word, tx, rt, x, rx, word, abs(x - tx) / (hi - lo)), {'point': [x]}))
    return res, R


def run_batches(chk, texts, label):
    """compile per-instance files; one obligation per instance; returns {id: (ok, lemma, msg)}"""
    res = bench.compile_instances(texts, 'bench', timeout=1500)
    ok = sum(1 for v in res.values() if v[0])
    nl = sum(len(t[2]) for t in texts)
    failed = [(k, v[1], v[2][-300:]) for k, v in res.items() if not v[0]]
    chk.obligation('%s: %d instance files (%d lemmas) closed by interval / auto_derive' % (label, len(texts), nl), not failed,
                   'failed: %r' % (failed[:3],))
    chk.cov.setdefault('instance_lemmas', 0)
    chk.cov['instance_lemmas'] += nl
    chk.cov.setdefault('instances_proved', []).extend(['%s' % (k,) for k, v in res.items() if v[0]][:60])
    chk.evaluations += len(texts)
    chk.nontrivial += ok
    return res
