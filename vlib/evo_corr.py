"""Correspondence between Evolvent (implementation), the clean Coq model and the generated Coq model."""
import math
from fractions import Fraction as Fr

from . import core
from . import harness as H  # noqa: F401  (sets the import path)

HEADER = """From Coq Require Import ZArith QArith List.
From IOptV Require Import Evolvent.Ev Evolvent.Curve Evolvent.Image Evolvent.Corr.
Import ListNotations.
Open Scope Q_scope.
"""


def ql(vals):
    return core.coq_list([core.qlit(v) for v in vals])


def tol_for(lo, hi):
    return Fr(max([1.0] + [abs(v) for v in lo] + [abs(v) for v in hi] + [b - a for a, b in zip(lo, hi)])) * Fr(1, 2 ** 48)


def edge_xs(rng, n, m):
    K = 2 ** (n * m)
    i = rng.randrange(K)
    out = [0.0, 1.0, 0.5, 1 - 2.0 ** -31, 1 - 2.0 ** -40, 1 - 2.0 ** -53, 2.0 ** -60,
           float(Fr(i, K)), float(Fr(i, K)) * (1 - 2.0 ** -53) if i else 0.25, math.nextafter(float(Fr(i + 1, K)), 0.0)]
    return [x for x in out if 0.0 <= x <= 1.0]


def gen_image_cases(rng, count, dims=(1, 2, 3, 4, 5)):
    """returns list of case dicts with the implementation's answers"""
    from iOpt.evolvent.evolvent import Evolvent
    cases = []
    while len(cases) < count:
        n = rng.choice(dims)
        m = 10 if n == 1 else rng.choice([1, 2, 3, 5, 8, 10, 12, 50 // n, rng.randint(1, 50 // n)])
        lo, hi = H.random_box(rng, n, nice=rng.random() < 0.3)
        ev = Evolvent(lo, hi, n, m)
        xs = edge_xs(rng, n, m) if rng.random() < 0.25 else [rng.random() for _ in range(4)]
        for x in xs:
            y = [float(v) for v in ev.GetImage(x)]
            cases.append({'n': n, 'm': m, 'lo': lo, 'hi': hi, 'x': x, 'y': y})
    return cases[:count]


def image_cases_v(cases):
    rows = []
    for c in cases:
        rows.append('(%d%%nat, %d%%nat, %s, %s, %s, %s, %s)' % (c['n'], c['m'], ql(c['lo']), ql(c['hi']), core.qlit(c['x']), ql(c['y']),
                                                             core.qlit(tol_for(c['lo'], c['hi']))))
    return HEADER + 'Definition cases := [\n' + ';\n'.join(rows) + '\n].\nEval vm_compute in (bad_indices chk_image cases 0).\n'


def gen_inverse_cases(rng, count, dims=(1, 2, 3, 4, 5)):
    """box points with exactly representable transforms (nice boxes, dyadic coordinates)"""
    from iOpt.evolvent.evolvent import Evolvent
    import numpy as np
    cases = []
    while len(cases) < count:
        n = rng.choice(dims)
        m = 10 if n == 1 else rng.choice([1, 2, 3, 5, 8, 50 // n, rng.randint(1, 50 // n)])
        lo, hi = H.random_box(rng, n, nice=True)
        ev = Evolvent(lo, hi, n, m)
        y = [a + (b - a) * rng.randrange(0, 2 ** 30 + 1) / 2.0 ** 30 for a, b in zip(lo, hi)]
        if rng.random() < 0.2:  # exact cell boundaries and faces
            y = [a + (b - a) * rng.randrange(0, 2 ** min(m, 20) + 1) / 2.0 ** min(m, 20) for a, b in zip(lo, hi)]
        xi = float(ev.GetInverseImage(np.array(y, dtype=np.double)))
        xp = float(ev.GetPreimages(np.array(y, dtype=np.double)))
        cases.append({'n': n, 'm': m, 'lo': lo, 'hi': hi, 'y': y, 'xi': xi, 'xp': xp})
    return cases


def inverse_cases_v(cases):
    rows = []
    for c in cases:
        tol = Fr(1, 2 ** 45) if c['n'] == 1 else Fr(0)
        rows.append('(%d%%nat, %d%%nat, %s, %s, %s, %s, %s)' % (c['n'], c['m'], ql(c['lo']), ql(c['hi']), ql(c['y']), core.qlit(c['xi']), core.qlit(tol)))
    return HEADER + 'Definition cases := [\n' + ';\n'.join(rows) + '\n].\nEval vm_compute in (bad_indices chk_inverse cases 0).\n'


def impl_cells(n, m, lo=None, hi=None):
    """integer cell coordinates of every subinterval according to the implementation (None when not a grid cell)"""
    from iOpt.evolvent.evolvent import Evolvent
    lo = lo or [0.0] * n; hi = hi or [1.0] * n
    ev = Evolvent(lo, hi, n, m)
    K = 2 ** (n * m)
    cells = []
    for i in range(K):
        y = ev.GetImage(float(Fr(2 * i + 1, 2 * K)))
        c = []
        for v, l, h in zip(y, lo, hi):
            t = (Fr(float(v)) - Fr(l)) / (Fr(h) - Fr(l)) * 2 ** m - Fr(1, 2)
            c.append(int(t) if t.denominator == 1 else -999)
        cells.append(c)
    return cells


def cells_v(n, m, cells):
    body = core.coq_list([core.coq_list(['(%d)%%Z' % v for v in c]) for c in cells])
    return HEADER + 'Definition cells : list (list Z) := %s.\nEval vm_compute in (chk_cells %d %d cells).\n' % (body, n, m)


def parse_bad(out):
    """parse `= [(k, code); ...]` or `= []` / `nil`"""
    import re
    vals = core.parse_eval_lines(out)
    if not vals:
        return None
    v = vals[-1]
    if v.strip() in ('[]', 'nil'):
        return []
    pairs = re.findall(r'\(\s*(\d+)(?:%nat)?,\s*(\d+)(?:%nat)?\s*\)', v)
    if pairs:
        return [(int(a), int(b)) for a, b in pairs]
    nums = re.findall(r'\d+', v.split(':')[0])
    return [(int(a), 3) for a in nums]


def run_image_corr(chk, rng, count, shard=400, dims=(1, 2, 3, 4, 5)):
    """returns list of disagreeing cases (dict with 'code')"""
    cases = gen_image_cases(rng, count, dims)
    shards = [cases[i:i + shard] for i in range(0, len(cases), shard)]
    res = core.coq_eval_many([image_cases_v(s) for s in shards], tag='img')
    bad = []
    ok = True
    for sh_cases, (rc, out, path) in zip(shards, res):
        b = parse_bad(out) if rc == 0 else None
        if b is None:
            ok = False
            chk.obligation('correspondence evolvent image (model evaluation)', False, out[-800:])
            continue
        for k, code in b:
            c = dict(sh_cases[k]); c['code'] = code
            bad.append(c)
    chk.evaluations += len(cases)
    chk.traces += len(cases)
    chk.nontrivial += len({(c['n'], c['m'], c['x']) for c in cases if c['n'] > 1})
    chk.cov.setdefault('distribution', {})['image_cases_by_dim'] = {str(d): sum(1 for c in cases if c['n'] == d) for d in dims}
    if cases:
        chk.sample({'image_case': {k: cases[0][k] for k in ('n', 'm', 'lo', 'hi', 'x', 'y')}})
    return ok, bad


def run_inverse_corr(chk, rng, count, shard=400, dims=(1, 2, 3, 4, 5)):
    cases = gen_inverse_cases(rng, count, dims)
    shards = [cases[i:i + shard] for i in range(0, len(cases), shard)]
    res = core.coq_eval_many([inverse_cases_v(s) for s in shards], tag='inv')
    bad = []
    ok = True
    for sh_cases, (rc, out, path) in zip(shards, res):
        b = parse_bad(out) if rc == 0 else None
        if b is None:
            ok = False
            chk.obligation('correspondence evolvent inverse (model evaluation)', False, out[-800:])
            continue
        for k, code in b:
            c = dict(sh_cases[k]); c['code'] = code
            bad.append(c)
    chk.evaluations += len(cases)
    chk.traces += len(cases)
    chk.nontrivial += len({(c['n'], c['m'], tuple(c['y'])) for c in cases if c['n'] > 1})
    chk.cov.setdefault('distribution', {})['inverse_cases_by_dim'] = {str(d): sum(1 for c in cases if c['n'] == d) for d in dims}
    if cases:
        chk.sample({'inverse_case': {k: cases[0][k] for k in ('n', 'm', 'lo', 'hi', 'y', 'xi')}})
    return ok, bad


def run_cells_corr(chk, grids):
    """exhaustive: implementation's cell of every subinterval = clean model's, for each (n, m)"""
    texts, metas = [], []
    allcells = {}
    for n, m in grids:
        cells = impl_cells(n, m)
        allcells[(n, m)] = cells
        texts.append(cells_v(n, m, cells)); metas.append((n, m))
    res = core.coq_eval_many(texts, tag='cells')
    bad = []
    ok = True
    for (n, m), (rc, out, path) in zip(metas, res):
        b = parse_bad(out) if rc == 0 else None
        if b is None:
            ok = False
            chk.obligation('correspondence evolvent cells N=%d m=%d (model evaluation)' % (n, m), False, out[-800:])
            continue
        for k, _ in b:
            bad.append({'n': n, 'm': m, 'subinterval': k, 'impl_cell': allcells[(n, m)][k]})
        chk.evaluations += 2 ** (n * m)
        chk.traces += 2 ** (n * m)
        chk.nontrivial += 2 ** (n * m)
    chk.cov.setdefault('distribution', {})['exhaustive_grids'] = ['N=%d,m=%d' % g for g in grids]
    return ok, bad, allcells
