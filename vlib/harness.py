"""Drivers for the real iOpt implementation: JSON-describable objectives, a logging Problem wrapper, solver scripts.
Imported only after core.setup_import_path()."""
import contextlib
import io
import math
import random

from . import core

core.setup_import_path()

import numpy as np  # noqa: E402


# ------------------------------------------------------------------------------------------------
# objectives (description dict -> python callable on a list of floats)
# ------------------------------------------------------------------------------------------------
def objective(desc):
    k = desc['kind']
    if k == 'sin':
        w, a, q, off = desc['w'], desc['a'], desc.get('q', 0), desc.get('offset', 0.0)

        def f(y):
            v = float(sum(math.sin(wi * yi) + ai * yi for wi, ai, yi in zip(w, a, y))) + off
            return float(round(v / q) * q) if q else v
        return f
    if k == 'multi':  # sum_i sin(w_i y_i) + cos(v_i y_i + ph_i)  + c * |y|^2  (several frequencies: M keeps growing late in a run)
        w, v, ph, c = desc['w'], desc['v'], desc['ph'], desc.get('c', 0.0)
        return lambda y: float(sum(math.sin(wi * yi) + math.cos(vi * yi + pi) for wi, vi, pi, yi in zip(w, v, ph, y)) + c * sum(yi * yi for yi in y))
    if k == 'prod':   # prod_i trig_i(w_i y_i) + c |y|^2
        w, c = desc['w'], desc.get('c', 0.0)
        def f(y):
            t = 1.0
            for i, (wi, yi) in enumerate(zip(w, y)):
                t *= math.sin(wi * yi) if i % 2 == 0 else math.cos(wi * yi)
            return float(t + c * sum(yi * yi for yi in y))
        return f
    if k == 'cones':  # min_i off_i + s_i * ||y - c_i||_2 ; Lipschitz max s_i ; minimum min off_i (centres inside box)
        cs, ss, offs = desc['centers'], desc['slopes'], desc['offsets']

        def f(y):
            return float(min(o + s * math.sqrt(sum((yi - ci) ** 2 for yi, ci in zip(y, c))) for c, s, o in zip(cs, ss, offs)))
        return f
    if k == 'linear':
        a = desc['a']
        return lambda y: float(sum(ai * yi for ai, yi in zip(a, y)))
    if k == 'const':
        c = desc.get('c', 0.0)
        return lambda y: float(c)
    if k == 'scaled':  # another objective multiplied by a huge (or tiny) finite factor
        g = objective(desc['of']); c = desc['factor']
        return lambda y: float(g(y)) * c
    if k == 'bigint':  # values are python ints beyond 2^53 (wider than a double): 10^18 + round(1000 * g(y))
        g = objective(desc['of']); base = int(desc.get('base', 10 ** 18)); mult = desc.get('mult', 1000)
        return lambda y: base + int(round(mult * float(g(y))))
    if k == 'gkls':  # a shipped GKLS function (many local minima, box [-1, 1]^dim)
        import numpy as np
        from iOpt.problems.GKLS import GKLS
        from iOpt.trial import Point, FunctionValue
        g = GKLS(desc['dim'], desc['k'])
        return lambda y: float(g.Calculate(Point(np.array(y, dtype=np.double), []), FunctionValue()).value)
    if k == 'noisy':  # a stochastic objective drawing from numpy's global generator, seeded when the problem is created
        import numpy as np
        np.random.seed(desc.get('seed', 7))
        c = desc['c']
        return lambda y: float(sum((yi - ci) ** 2 for yi, ci in zip(y, c)) + 0.05 * np.random.standard_normal())
    if k == 'rootabs':  # sum |y_i - c_i|^q, 0 < q < 1
        c, q = desc['c'], desc.get('q', 0.5)
        return lambda y: float(sum(abs(yi - ci) ** q for yi, ci in zip(y, c)))
    if k == 'expcap':  # capped exponential computed with numpy scalars: overflows (a numpy warning, normally) on part of the box
        import numpy as np
        w = desc.get('w', 900.0)
        return lambda y: float(min(np.exp(np.float64(w) * np.float64(y[0])), 1e3)) + float(sum((t - 0.3) ** 2 for t in y[1:]))
    if k == 'invcap':  # capped pole: 1/|y0| computed with numpy scalars (division by zero is a numpy warning, normally)
        import numpy as np
        return lambda y: float(min(np.float64(1.0) / np.float64(abs(y[0])), 100.0)) + float(sum((t - 0.3) ** 2 for t in y[1:]))
    if k == 'quad':  # sum (y_i - c_i)^2, unconstrained minimum possibly outside the box
        c = desc['c']
        return lambda y: float(sum((yi - ci) ** 2 for yi, ci in zip(y, c)))
    if k == 'pwl1d':  # piecewise linear 1-D through (x_i, v_i)
        xs, vs = desc['xs'], desc['vs']

        def f(y):
            t = y[0]
            if t <= xs[0]:
                return float(vs[0])
            for i in range(1, len(xs)):
                if t <= xs[i]:
                    return float(vs[i - 1] + (vs[i] - vs[i - 1]) * (t - xs[i - 1]) / (xs[i] - xs[i - 1]))
            return float(vs[-1])
        return f
    if k == 'lookup':  # answers by call index (oracle replay); falls back to last
        zs = desc['zs']
        state = {'i': 0}

        def f(y):
            z = zs[min(state['i'], len(zs) - 1)]
            state['i'] += 1
            return float(z)
        return f
    raise ValueError('unknown objective kind ' + k)


def random_objective(rng, n, kinds=('sin', 'sin', 'sinq', 'cones', 'linear', 'quad'), lo=None, hi=None):
    k = rng.choice(kinds)
    if k == 'cones':
        return cones_in_box(rng, n, lo or [0.0] * n, hi or [1.0] * n)
    if k == 'sin':
        return {'kind': 'sin', 'w': [round(rng.uniform(0.5, 12), 3) for _ in range(n)], 'a': [round(rng.uniform(-1, 1), 3) for _ in range(n)]}
    if k == 'sinq':
        return {'kind': 'sin', 'w': [round(rng.uniform(0.5, 12), 3) for _ in range(n)], 'a': [round(rng.uniform(-1, 1), 3) for _ in range(n)],
                'q': rng.choice([0.25, 0.5, 1.0])}
    if k == 'multi':
        return {'kind': 'multi', 'w': [round(rng.uniform(1, 8), 2) for _ in range(n)], 'v': [round(rng.uniform(3, 14), 2) for _ in range(n)],
                'ph': [round(rng.uniform(0, 3), 2) for _ in range(n)], 'c': rng.choice([0.0, 0.1, 0.3])}
    if k == 'prod':
        return {'kind': 'prod', 'w': [round(rng.uniform(2, 9), 2) for _ in range(n)], 'c': rng.choice([0.1, 0.2, 0.5])}
    if k == 'linear':
        return {'kind': 'linear', 'a': [round(rng.uniform(-2, 2), 3) for _ in range(n)]}
    if k == 'quad':
        return {'kind': 'quad', 'c': [round(rng.uniform(-6, 6), 3) for _ in range(n)]}
    if k == 'const':
        return {'kind': 'const', 'c': round(rng.uniform(-2, 2), 3)}
    raise ValueError(k)


def random_box(rng, n, nice=False):
    if nice:  # bounds for which the affine map is exact in binary64 for all cell centres
        lo = [float(rng.choice([-2, -1, 0, 1, 3])) for _ in range(n)]
        hi = [a + float(rng.choice([1, 2, 4])) for a in lo]
    else:
        lo = [round(rng.uniform(-3, 3), 3) for _ in range(n)]
        hi = [round(a + rng.uniform(0.5, 4), 3) for a in lo]
    return lo, hi


def cones_in_box(rng, n, lo, hi, k=3, smax=4.0):
    cs = [[a + (b - a) * rng.uniform(0.05, 0.95) for a, b in zip(lo, hi)] for _ in range(k)]
    ss = [round(rng.uniform(0.2, smax), 3) for _ in range(k)]
    offs = [round(rng.uniform(-1, 1), 3) for _ in range(k)]
    return {'kind': 'cones', 'centers': cs, 'slopes': ss, 'offsets': offs}


# ------------------------------------------------------------------------------------------------
# Problem wrapper
# ------------------------------------------------------------------------------------------------
def make_problem(n, lo, hi, desc, fail_at=None, exc='RuntimeError', answers=None, fail_region=None, returns_new_holder=False, discrete=0, inf_region=None):
    """A Problem whose Calculate logs (point, value) and can raise at call number fail_at (1-based)."""
    from iOpt.problem import Problem

    f = objective(desc)
    excs = {'RuntimeError': RuntimeError, 'KeyboardInterrupt': KeyboardInterrupt, 'SystemExit': SystemExit,
            'ValueError': ValueError, 'Exception': Exception, 'GeneratorExit': GeneratorExit, 'ZeroDivisionError': ZeroDivisionError,
            'StopIteration': StopIteration, 'StopAsyncIteration': StopAsyncIteration, 'MemoryError': MemoryError, 'AssertionError': AssertionError}
    fail_set = set(fail_at) if isinstance(fail_at, (list, tuple, set)) else ({fail_at} if fail_at is not None else set())

    class P(Problem):
        def __init__(self):
            super().__init__()
            self.numberOfFloatVariables = n
            if discrete:      # declared discrete parameters (this version of the library ignores them)
                self.numberOfDisreteVariables = discrete
                self.discreteVariableNames = np.array(['d%d' % i for i in range(discrete)], dtype=str)
                self.discreteVariableValues = [['A', 'B'] for _ in range(discrete)]
            self.numberOfObjectives = 1
            self.numberOfConstraints = 0
            self.dimension = n
            self.floatVariableNames = np.array([str(i) for i in range(n)], dtype=str)
            self.lowerBoundOfFloatVariables = np.array(lo, dtype=np.double)
            self.upperBoundOfFloatVariables = np.array(hi, dtype=np.double)
            self.log = []
            self.answers = []     # every call in order: ('v', value) or ('raise',)
            self.calls = 0
            self.desc = desc

        def Calculate(self, point, functionValue):
            self.calls += 1
            if self.calls in fail_set:
                self.answers.append(('raise',))
                raise excs[exc]('injected failure at call %d' % self.calls)
            y = [float(v) for v in point.floatVariables]
            if fail_region is not None and fail_region[1] <= y[fail_region[0]] <= fail_region[2]:      # undefined on a slab of the box
                self.answers.append(('raise',))
                raise excs[exc]('objective undefined at %r' % (y,))
            v = f(y)
            if inf_region is not None and inf_region[1] <= y[inf_region[0]] <= inf_region[2]:      # +inf marks an infeasible slab of the box
                self.answers.append(('inf',))      # not a trial: the library rejects non-finite values
                functionValue.value = float('inf')
                return functionValue
            self.log.append((y, v))
            self.answers.append(('v', v))
            if returns_new_holder:      # a functional-style problem: fills and returns a NEW FunctionValue (the signature allows it)
                from iOpt.trial import FunctionValue
                fv = FunctionValue(functionValue.type, functionValue.functionID)
                fv.value = v
                return fv
            functionValue.value = v
            return functionValue

    return P()


def make_solver(problem, r=2.0, eps=0.01, iters=1000, density=None, refine=False, start=None):
    from iOpt.solver import Solver
    from iOpt.solver_parametrs import SolverParameters
    kw = dict(eps=eps, r=r, itersLimit=iters, refineSolution=refine)
    if density is not None:
        kw['evolventDensity'] = density      # may be a python int or a numpy integer scalar (a value taken from an array of settings)
    assign_density = None
    if isinstance(density, tuple) and density[0] == 'assign':      # parameters built with the default density, the field assigned afterwards
        assign_density = density[1]; kw.pop('evolventDensity', None)
    if start is not None:      # the documented startPoint parameter (a user's guess of the solution)
        import numpy as np
        from iOpt.trial import Point
        kw['startPoint'] = Point(np.array(start, dtype=np.double), [])
    params = SolverParameters(**kw)
    if assign_density is not None:
        params.evolventDensity = assign_density
    return Solver(problem, parameters=params)


def random_start(rng, lo, hi):
    """a start point strictly inside the box, away from the centre and the faces"""
    return [a + (b - a) * rng.choice([rng.uniform(0.08, 0.42), rng.uniform(0.58, 0.92)]) for a, b in zip(lo, hi)]


@contextlib.contextmanager
def quiet():
    buf = io.StringIO()
    with contextlib.redirect_stdout(buf):
        yield buf


def run_script(solver, script):
    """script: list of ('iter', k) | ('solve',) | ('refine', k); returns (last Solve result or None, captured stdout)"""
    sol = None
    with quiet() as buf:
        for op in script:
            if op[0] == 'iter':
                solver.DoGlobalIteration(op[1])
            elif op[0] == 'solve':
                sol = solver.Solve()
            elif op[0] == 'refine':
                solver.DoLocalRefinement(op[1])
            else:
                raise ValueError(op)
    return sol, buf.getvalue()


def items(solver):
    """items of the search information left to right ([] before the first iteration: iterating an empty
    SearchData raises StopIteration out of __iter__, which is outside every property)"""
    try:
        return list(solver.searchData)
    except StopIteration:
        return []


def record(solver):
    """public dump of the search information, left to right"""
    out = []
    for it in items(solver):
        out.append({'x': it.GetX(), 'z': it.GetZ(), 'index': it.GetIndex(), 'delta': it.delta, 'R': it.globalR,
                    'y': [float(v) for v in it.GetY().floatVariables], 'obj': it})
    return out


def trial_xs(solver):
    """curve coordinates of the evaluated trials in the order they were inserted"""
    return [it.GetX() for it in solver.searchData._allTrials if it.GetIndex() == 0]


def rng_for(seed, prop):
    return random.Random('%s-%s' % (seed, prop))


def run_isolated(code, timeout=60):
    """run a python snippet against the working tree in a fresh process (hang/crash containment)"""
    return core.sh([core.PY, '-c', code], timeout=timeout)
