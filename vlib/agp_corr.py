"""Lock-step correspondence between the real solver (global phase) and the Coq model AGP/Impl.v over binary64."""
from . import core
from . import harness as H
from . import oracles as O

HEADER = """From Coq Require Import ZArith List Bool PrimFloat.
From IOptV Require Import AGP.Ops AGP.Impl AGP.FloatOps AGP.Replay.
Import ListNotations.
Open Scope float_scope.
"""

fh = core.fhex


def observe(case, script):
    """run `script` (list of ('iter', k) | ('solve',)) on a fresh solver; returns the replay record"""
    import iOpt.method.method as mm
    powlog = []

    def logging_pow(a, b):
        r = pow(a, b)
        powlog.append((float(a), b, float(r)))
        return r
    mm.pow = logging_pow
    try:
        p, s = O.build(case)
        obs = []
        for op in script:
            before = len(H.trial_xs(s))
            exc = False
            with H.quiet() as buf:
                try:
                    if op[0] == 'iter':
                        s.DoGlobalIteration(op[1])
                    else:
                        s.Solve()
                except BaseException as e:  # noqa
                    if isinstance(e, KeyboardInterrupt) and case.get('exc') != 'KeyboardInterrupt':
                        raise
                    exc = True
            if op[0] == 'solve':
                exc = 'Exception was thrown' in buf.getvalue()
            xs = H.trial_xs(s)[before:]
            m = s.method
            obs.append({'newx': xs, 'exc': exc, 'ntr': s.GetResults().numberOfGlobalTrials, 'iters': m.iterationsCount, 'mind': float(m.min_delta),
                        'M': float(m.M[0]), 'Z': float(m.Z[0]), 'bestz': None if m.best is None else float(m.best.GetZ()), 'recalc': bool(m.recalc),
                        'count': s.searchData.GetCount()})
        rec = [(it.GetX(), it.GetZ(), it.GetIndex(), it.delta, it.globalR) for it in H.items(s)]
    finally:
        del mm.pow
    n = case['n']
    root = {}; ipow = {}
    for a, b, r in powlog:
        if isinstance(b, int):
            ipow[a] = r
        else:
            root[a] = r
    return {'case': case, 'script': script, 'obs': obs, 'record': rec, 'answers': list(p.answers), 'root': root, 'pow': ipow,
            'trials': len(p.log)}


def pairs(d):
    return core.coq_list(['(%s, %s)' % (fh(a), fh(b)) for a, b in d.items()])


def case_v(r):
    c = r['case']
    ans = core.coq_list(['Value %s' % fh(a[1]) if a[0] == 'v' else 'Raised' for a in r['answers']])
    script = core.coq_list(['Iter %d%%nat' % op[1] if op[0] == 'iter' else 'SolveOp' for op in r['script']])
    obs = []
    for ob in r['obs']:
        obs.append('mkObs %s %s (%d)%%Z (%d)%%Z %s %s %s %s %s %d%%nat' % (
            core.coq_list([fh(x) for x in ob['newx']]), 'true' if ob['exc'] else 'false', ob['ntr'], ob['iters'], fh(ob['mind']), fh(ob['M']), fh(ob['Z']),
            'None' if ob['bestz'] is None else '(Some %s)' % fh(ob['bestz']), 'true' if ob['recalc'] else 'false', ob['count']))
    rec = core.coq_list(['(%s, %s, (%d)%%Z, %s, %s)' % (fh(x), fh(z), i, fh(d), fh(g)) for x, z, i, d, g in r['record']])
    return 'mkCase %s %s (%d)%%Z %s %s %s %s %s %s' % (fh(c['r']), fh(c['eps']), c['iters'], pairs(r['root']), pairs(r['pow']), ans, script,
                                                     core.coq_list(obs), rec)


def cases_v(records):
    return HEADER + 'Definition cases : list fcase := [\n' + ';\n'.join(case_v(r) for r in records) + '\n].\nEval vm_compute in (bad_cases cases 0).\n'


FIELDS = {1: 'new trial coordinates', 2: 'exception flag', 3: 'number of global trials', 4: 'iteration counter', 5: 'min_delta / accuracy',
          6: 'M', 7: 'z*', 8: 'best value', 9: 'recalc flag', 10: 'number of items'}


def explain(code):
    if code == 98:
        return 'final record (x, z, index, delta, R left to right) differs'
    if code == 99:
        return 'script longer than observations'
    return 'operation %d of the script: %s differs' % (code // 100, FIELDS.get(code % 100, '?'))


def random_case(rng, dims=(1, 1, 2, 3, 4, 5), max_iters=120):
    n = rng.choice(dims)
    lo, hi = H.random_box(rng, n, nice=rng.random() < 0.3)
    obj = H.random_objective(rng, n, lo=lo, hi=hi, kinds=('sin', 'sin', 'sinq', 'sinq', 'cones', 'linear', 'quad', 'const', 'multi', 'prod'))
    eps = rng.choice([0.5, 0.1, 0.02, 0.005, 1e-3, 1.5, 1e-9])
    iters = rng.choice([1, 2, 3, 7, 20, 50, max_iters])
    r = round(rng.uniform(1.1, 5.0), 3)
    return {'n': n, 'lo': lo, 'hi': hi, 'objective': obj, 'r': r, 'eps': eps, 'iters': iters,
            'density': rng.choice([None, None, 4, 6]) if n > 1 else None}


def random_script(rng, case):
    k = rng.random()
    if k < 0.4:
        return [('solve',)]
    parts = []
    budget = min(case['iters'] + 3, 40)
    while budget > 0 and rng.random() < 0.75:
        b = rng.randint(1, min(6, budget))
        parts.append(('iter', b)); budget -= b
    parts.append(('solve',))
    if rng.random() < 0.3:
        parts.append(('solve',))
    return parts


def run_corr(chk, records, tag='agp', shard=40):
    """evaluate the model on the recorded runs; returns (machinery_ok, [(record, code)])"""
    shards = [records[i:i + shard] for i in range(0, len(records), shard)]
    res = core.coq_eval_many([cases_v(s) for s in shards], tag=tag)
    from .evo_corr import parse_bad
    bad = []
    ok = True
    for recs, (rc, out, path) in zip(shards, res):
        b = parse_bad(out) if rc == 0 else None
        if b is None:
            ok = False
            chk.obligation('lock-step replay (model evaluation by coqc)', False, out[-800:])
            continue
        for k, code in b:
            bad.append((recs[k], code))
    chk.evaluations += len(records)
    chk.traces += len(records)
    steps = sum(r['trials'] for r in records)
    chk.cov['replayed_iterations'] = chk.cov.get('replayed_iterations', 0) + steps
    chk.nontrivial += sum(1 for r in records if r['trials'] >= 3)
    d = chk.cov.setdefault('distribution', {})
    for r in records:
        k = 'N=%d' % r['case']['n']
        d[k] = d.get(k, 0) + 1
    return ok, bad
