"""Per-instance theorem files for the benchmark families (C10 / C18): formulas and tables are re-read from the source
through tools/translate/problems_tr.py on every run; each instance gets a small Coq file of lemmas closed by the
`interval` tactic (kernel-checked interval arithmetic) and Coquelicot's auto_derive."""
import math
import os
import re
import sys

from . import core

sys.path.insert(0, os.path.join(core.ROOT, 'tools'))
from translate import problems_tr as PT  # noqa: E402

HEADER = """From Coq Require Import Reals List Lra.
From Coquelicot Require Import Coquelicot.
From Interval Require Import Tactic.
From IOptV Require Import Problems.Families Problems.Locate.
Import ListNotations.
Open Scope R_scope.
"""

OPT1 = 'i_bisect x0, i_autodiff x0, i_depth 40'


def r(v):
    return PT.num(float(v))


def tables_1d(repo, family):
    gen = PT.load_tables(repo, PT.FAMILIES[family][2][list(PT.FAMILIES[family][2])[0]])
    if family == 'Hill':
        return gen['minHill'], gen['maxHill'], gen['lConstantHill']
    return gen['minShekel'], gen['maxHill'], gen['lConstantHill']     # (sic) the Shekel module reuses the Hill names


def numeric_argmax_abs(tree, lo, hi, n=20001):
    best, bx = -1.0, lo
    for i in range(n):
        x = lo + (hi - lo) * i / (n - 1)
        v = abs(PT.evaluate(tree, [x]))
        if v > best:
            best, bx = v, x
    # local polish
    step = (hi - lo) / (n - 1)
    for _ in range(40):
        step /= 2
        for cand in (bx - step, bx + step):
            if lo <= cand <= hi:
                v = abs(PT.evaluate(tree, [cand]))
                if v > best:
                    best, bx = v, cand
    return bx, best


def instance_1d(repo, family, k):
    """returns (coq text, [lemma names], info dict)"""
    ins = PT.instance(repo, family, k=k)
    f = ins['expr']
    lo, hi = ins['lo'][0], ins['hi'][0]
    side = hi - lo
    p, v = ins['point'][0], ins['value']
    mn, mx, lc = tables_1d(repo, family)
    vmin, xmin = float(mn[k][0]), float(mn[k][1])
    vmax, xmax = float(mx[k][0]), float(mx[k][1])
    L = float(lc[k])
    nm = '%s_%d' % (family.lower(), k)
    gen = PT.load_tables(repo, PT.FAMILIES[family][2][list(PT.FAMILIES[family][2])[0]])
    if family == 'Hill':
        # table entries are printed exactly as the symbolic evaluation of Calculate prints them (an entry written as an integer stays one)
        rows = ['(%d%%Z, %s, %s)' % (2 * i, PT.num(gen['aHill'][k][i]), PT.num(gen['bHill'][k][i])) for i in range(gen['NUM_HILL_COEFF'])]
        ty, fam, dfam = 'list (Z * R * R)', 'hill', 'dhill'
        dtree = PT.deriv(f, 0)
    else:
        rows = ['(%s, %s, %s)' % (PT.num(gen['kShekel'][k][i]), PT.num(gen['aShekel'][k][i]), PT.num(gen['cShekel'][k][i])) for i in range(gen['NUM_SHEKEL_COEFF'])]
        ty, fam, dfam = 'list (R * R * R)', 'shekel', 'dshekel'
        dtree = PT.deriv(f, 0)
    scale = max(1.0, abs(v))
    out = ['Definition tbl_%s : %s := [%s].' % (nm, ty, '; '.join(rows)),
           'Definition f_%s (x0 : R) : R := %s.' % (nm, PT.to_coq(f)),
           'Definition df_%s (x0 : R) : R := %s tbl_%s x0.' % (nm, dfam, nm)]
    names = []

    def lemma(name, stmt, proof):
        names.append(name)
        out.append('Lemma %s_%s : %s.\nProof. %s Qed.' % (name, nm, stmt, proof))

    def forall(a, b, body):
        return 'forall x0, %s <= x0 <= %s -> %s' % (r(a), r(b), body)
    un = 'unfold f_%s.' % nm
    und = 'cbv [df_%s %s fold_left %s_step tbl_%s].' % (nm, dfam, dfam, nm)
    # ---- the expression obtained from the Calculate source is the generic family function on this table ----
    lemma('tie', 'forall x0, f_%s x0 = %s tbl_%s x0' % (nm, fam, nm), 'intros x0. reflexivity.')
    if family == 'Shekel':
        lemma('table_positive', 'pos_table tbl_%s' % nm, 'unfold pos_table, tbl_%s. repeat (constructor; [split; lra|]). constructor.' % nm)
        lemma('c18_derivative', 'forall x0, is_derive f_%s x0 (df_%s x0)' % (nm, nm),
              'intros x0. apply (is_derive_ext (%s tbl_%s)); [intros t; symmetry; apply tie_%s | apply shekel_derive; apply table_positive_%s].' % (fam, nm, nm, nm))
    else:
        lemma('c18_derivative', 'forall x0, is_derive f_%s x0 (df_%s x0)' % (nm, nm),
              'intros x0. apply (is_derive_ext (%s tbl_%s)); [intros t; symmetry; apply tie_%s | apply hill_derive].' % (fam, nm, nm))
    # ---- C10 ----
    lemma('c10_value', 'Rabs (f_%s %s - %s) <= 0.0001' % (nm, r(p), r(v)), '%s interval.' % un)
    lemma('c10_lower', forall(lo, hi, 'f_%s x0 >= %s - 0.002 * %s' % (nm, r(v), r(scale))), 'intros x0 H. %s interval with (%s).' % (un, OPT1))
    if p - 0.005 * side > lo:
        lemma('c10_sep_left', forall(lo, p - 0.005 * side, 'f_%s x0 - f_%s %s > 0' % (nm, nm, r(p))), 'intros x0 H. %s interval with (%s).' % (un, OPT1))
    if p + 0.005 * side < hi:
        lemma('c10_sep_right', forall(p + 0.005 * side, hi, 'f_%s x0 - f_%s %s > 0' % (nm, nm, r(p))), 'intros x0 H. %s interval with (%s).' % (un, OPT1))
    # ---- C18: values ----
    lemma('c18_min_value', 'Rabs (f_%s %s - %s) <= 0.0001' % (nm, r(xmin), r(vmin)), '%s interval.' % un)
    lemma('c18_min_bound', forall(lo, hi, 'f_%s x0 >= %s - 0.0001' % (nm, r(vmin))), 'intros x0 H. %s interval with (%s).' % (un, OPT1))
    lemma('c18_max_value', 'Rabs (f_%s %s - %s) <= 0.0001' % (nm, r(xmax), r(vmax)), '%s interval.' % un)
    lemma('c18_max_bound', forall(lo, hi, 'f_%s x0 <= %s + 0.0001' % (nm, r(vmax))), 'intros x0 H. %s interval with (%s).' % (un, OPT1))
    # ---- C18: Lipschitz constant ----
    lemma('c18_lipschitz_upper', forall(lo, hi, 'Rabs (df_%s x0) <= %s * 1.001' % (nm, r(L))), 'intros x0 H. %s interval with (%s).' % (und, OPT1))
    xw, dw = numeric_argmax_abs(dtree, lo, hi)
    lemma('c18_lipschitz_attained', 'Rabs (df_%s %s) >= %s * 0.999' % (nm, r(xw), r(L)), '%s interval.' % und)
    # ---- C18: locations (sign of the derivative around the tabulated extremisers, 1e-4 of the range) ----
    t = 1e-4 * side
    w = 0.005 * side
    for tag, x0, sgn_left, sgn_right in (('min', xmin, '<', '>'), ('max', xmax, '>', '<')):
        a1, b1 = max(lo, x0 - w), x0 - t
        if b1 > a1 and b1 > lo:
            lemma('c18_%s_loc_left' % tag, forall(a1, b1, 'df_%s x0 %s 0' % (nm, sgn_left)), 'intros x0 H. %s interval with (%s).' % (und, OPT1))
        a2, b2 = x0 + t, min(hi, x0 + w)
        if b2 > a2 and a2 < hi:
            lemma('c18_%s_loc_right' % tag, forall(a2, b2, 'df_%s x0 %s 0' % (nm, sgn_right)), 'intros x0 H. %s interval with (%s).' % (und, OPT1))
        if tag == 'max':      # separation of the maximum beyond 0.5% (the minimum's is c10_sep_*)
            if x0 - w > lo:
                lemma('c18_max_sep_left', forall(lo, x0 - w, 'f_%s %s - f_%s x0 > 0' % (nm, r(x0), nm)), 'intros x0 H. %s interval with (%s).' % (un, OPT1))
            if x0 + w < hi:
                lemma('c18_max_sep_right', forall(x0 + w, hi, 'f_%s %s - f_%s x0 > 0' % (nm, r(x0), nm)), 'intros x0 H. %s interval with (%s).' % (un, OPT1))
    # ---- C18: the derivative bound is a Lipschitz constant (mean value theorem, Problems/Locate.v) ----
    lemma('c18_lipschitz', 'forall x y, %s <= x <= %s -> %s <= y <= %s -> Rabs (f_%s x - f_%s y) <= (%s * 1.001) * Rabs (x - y)' % (r(lo), r(hi), r(lo), r(hi), nm, nm, r(L)),
          'apply (lipschitz_from_derivative f_%s df_%s); [exact c18_derivative_%s | exact c18_lipschitz_upper_%s].' % (nm, nm, nm, nm))
    # ---- C18: every global extremiser lies within 1e-4 of the range of the tabulated one (Problems/Locate.v) ----
    for tag, x0 in (('min', xmin), ('max', xmax)):
        if tag == 'min' and p != xmin:      # separation relative to the tabulated minimiser (c10_sep_* is relative to the declared point)
            if x0 - w > lo:
                lemma('c18_min_sep_left', forall(lo, x0 - w, 'f_%s x0 - f_%s %s > 0' % (nm, nm, r(x0))), 'intros x0 H. %s interval with (%s).' % (un, OPT1))
            if x0 + w < hi:
                lemma('c18_min_sep_right', forall(x0 + w, hi, 'f_%s x0 - f_%s %s > 0' % (nm, nm, r(x0))), 'intros x0 H. %s interval with (%s).' % (un, OPT1))
            sepl, sepr = 'c18_min_sep_left', 'c18_min_sep_right'
        elif tag == 'min':
            sepl, sepr = 'c10_sep_left', 'c10_sep_right'
        else:
            sepl, sepr = 'c18_max_sep_left', 'c18_max_sep_right'
        locl, locr = 'c18_%s_loc_left' % tag, 'c18_%s_loc_right' % tag
        wl = x0 - w if sepl in names else lo - 1.0
        wr = x0 + w if sepr in names else hi + 1.0
        tl = x0 - t if locl in names else lo - 1.0
        tr = x0 + t if locr in names else hi + 1.0
        use = lambda nme, tac: ('pose proof (%s_%s x ltac:(lra)); lra' % (nme, nm) if tac == 'sep' else 'apply %s_%s; lra' % (nme, nm)) if nme in names else 'exfalso; lra'
        cmp_ = 'f_%s xm <= f_%s x' % (nm, nm) if tag == 'min' else 'f_%s x <= f_%s xm' % (nm, nm)
        lemma('c18_%s_located' % tag,
              'forall xm, %s <= xm <= %s -> (forall x, %s <= x <= %s -> %s) -> %s <= xm <= %s' % (r(lo), r(hi), r(lo), r(hi), cmp_, r(tl), r(tr)),
              'apply (%s_located f_%s df_%s %s %s %s %s %s %s %s); [exact c18_derivative_%s | lra | lra | lra | intros x Hx; %s | intros x H1 H2; %s | intros x H1 H2; %s | intros x Hx; %s].'
              % (tag, nm, nm, r(lo), r(hi), r(x0), r(wl), r(tl), r(tr), r(wr), nm, use(sepl, 'sep'), use(locl, 'loc'), use(locr, 'loc'), use(sepr, 'sep')))
    info = {'family': family, 'k': k, 'declared_point': p, 'declared_value': v, 'min': [vmin, xmin], 'max': [vmax, xmax], 'L': L, 'box': [lo, hi],
            'expr': f, 'dexpr': dtree}
    return '\n'.join(out) + '\n', names, info


def compile_instances(texts, tag, timeout=900):
    """texts: list of (id, coq text, lemma names); one file per instance, compiled in parallel.
    returns {id: (ok, failing lemma or None, message)}"""
    res = core.coq_eval_many([HEADER + t for _, t, _ in texts], tag=tag, timeout=timeout, procs=14)
    out = {}
    for (iid, text, names), (rc, o, path) in zip(texts, res):
        if rc == 0:
            out[iid] = (True, None, '')
            continue
        m = re.search(r'line (\d+), characters', o)
        bad = None
        if m:
            ln = int(m.group(1))
            src = (HEADER + text).splitlines()
            for j in range(min(ln, len(src)) - 1, -1, -1):
                mm = re.match(r'Lemma (\w+?)_(?:hill|shekel|shekel4|rastrigin|xsquared|strongin|grishagin)\w* :', src[j])
                if mm:
                    bad = mm.group(1); break
        out[iid] = (False, bad, o[-600:])
    return out


def instance_shekel4(repo, k):
    ins = PT.instance(repo, 'Shekel4', k=k)
    f = ins['expr']
    p = ins['point']
    v = PT.evaluate(f, p)          # the declared value is Calculate(declared point) by construction
    lo, hi = ins['lo'], ins['hi']
    nm = 'shekel4_%d' % k
    vs = ' '.join('x%d' % i for i in range(4))
    out = ['Definition f_%s (%s : R) : R := %s.' % (nm, vs, PT.to_coq(f))]
    names = []
    bis = ', '.join('i_bisect x%d' % i for i in range(4))

    def lemma(name, ranges, body):
        names.append(name)
        hyps = ' -> '.join('%s <= x%d <= %s' % (r(a), i, r(b)) for i, (a, b) in enumerate(ranges))
        out.append('Lemma %s_%s : forall %s, %s -> %s.\nProof. intros %s %s. unfold f_%s. interval with (%s, i_depth 40). Qed.' % (
            name, nm, vs, hyps, body, vs, ' '.join('H%d' % i for i in range(4)), nm, bis))
    box = list(zip(lo, hi))
    pt = ' '.join(r(c) for c in p)
    lemma('c10_lower', box, 'f_%s %s >= %s - 0.002 * %s' % (nm, vs, r(v), r(max(1.0, abs(v)))))
    names.append('c10_value')
    out.append('Lemma c10_value_%s : Rabs (f_%s %s - %s) <= 0.0001.\nProof. unfold f_%s. interval. Qed.' % (nm, nm, pt, r(v), nm))
    for i in range(4):
        w = 0.005 * (hi[i] - lo[i])
        left = list(box); left[i] = (lo[i], p[i] - w)
        right = list(box); right[i] = (p[i] + w, hi[i])
        lemma('c10_sep_axis%d_low' % i, left, 'f_%s %s - f_%s %s > 0' % (nm, vs, nm, pt))
        lemma('c10_sep_axis%d_high' % i, right, 'f_%s %s - f_%s %s > 0' % (nm, vs, nm, pt))
    return '\n'.join(out) + '\n', names, {'family': 'Shekel4', 'k': k, 'declared_point': p, 'declared_value': v, 'box': [lo, hi], 'expr': f}


def instance_strongin(repo):
    """StronginC3: global minimum over the FEASIBLE set through a Lagrangian relaxation certificate. The multiplier and the
    feasible witness are found numerically here (untrusted); what Coq proves with them is the property's statement."""
    import numpy as np
    ins = PT.instance(repo, 'StronginC3')
    f = ins['expr']
    lo, hi, p, v = ins['lo'], ins['hi'], ins['point'], ins['value']
    gs = []
    for j in range(3):
        env = {'self.fn': None, 'self.dimension': 2, 'functionValue.type == FunctionType.OBJECTIV': False}
        for i in range(3):
            env['functionValue.functionID == %d' % i] = (i == j)
        gs.append(PT.calculate_expr(repo, 'StronginC3', env))
    nm = 'strongin_c3'
    tol = 0.002 * max(1.0, abs(v))
    w = [0.005 * (hi[i] - lo[i]) for i in range(2)]
    # ---- numeric search for the certificate: constraint j, multiplier lam, feasible witness q inside the neighbourhood ----
    n = 401
    X0 = np.linspace(lo[0], hi[0], n)[:, None] + np.zeros((1, n)); X1 = np.linspace(lo[1], hi[1], n)[None, :] + np.zeros((n, 1))
    ev = lambda tree: np.vectorize(lambda a, b: PT.evaluate(tree, [a, b]))(X0, X1)
    F = ev(f); G = [ev(g) for g in gs]
    feas = (G[0] <= 0) & (G[1] <= 0) & (G[2] <= 0)
    inside = (abs(X0 - p[0]) < 0.6 * w[0]) & (abs(X1 - p[1]) < 0.6 * w[1])
    cand = np.where(feas & inside & (G[0] <= -1e-6) & (G[1] <= -1e-6) & (G[2] <= -1e-6), F, np.inf)
    if not np.isfinite(cand.min()):      # finer local grid around the declared point
        x0s = np.linspace(p[0] - 0.6 * w[0], p[0] + 0.6 * w[0], 201); x1s = np.linspace(p[1] - 0.6 * w[1], p[1] + 0.6 * w[1], 201)
        best = None
        for a in x0s:
            for b in x1s:
                if all(PT.evaluate(g, [a, b]) <= -1e-6 for g in gs):
                    val = PT.evaluate(f, [a, b])
                    if best is None or val < best[0]:
                        best = (val, a, b)
        q = [best[1], best[2]] if best else None
    else:
        i = np.unravel_index(cand.argmin(), cand.shape); q = [float(X0[i]), float(X1[i])]
    if q is None:
        raise PT.Unsupported('no strictly feasible point near the declared optimum of StronginC3')
    # refine q on a local grid
    bestq = (PT.evaluate(f, q), q[0], q[1])
    for a in np.linspace(q[0] - 0.004, q[0] + 0.004, 81):
        for b in np.linspace(q[1] - 0.004, q[1] + 0.004, 81):
            if abs(a - p[0]) < 0.8 * w[0] and abs(b - p[1]) < 0.8 * w[1] and all(PT.evaluate(g, [a, b]) <= -1e-6 for g in gs):
                val = PT.evaluate(f, [a, b])
                if val < bestq[0]:
                    bestq = (val, float(a), float(b))
    q = [round(bestq[1], 6), round(bestq[2], 6)]
    vq = PT.evaluate(f, q) + 1e-6
    outside = (abs(X0 - p[0]) >= w[0]) | (abs(X1 - p[1]) >= w[1])
    best = None
    for j in range(3):
        scale = float(np.abs(G[j]).max()) or 1.0
        for lam in np.linspace(0.0, 2.0, 401):
            L = F + (lam / scale) * G[j]
            m1 = float(L.min()) - (v - tol)
            m2 = float(np.where(outside, L, np.inf).min()) - vq
            score = min(m1, m2)
            if best is None or score > best[0]:
                best = (score, j, lam / scale, m1, m2)
    score, j, lam, m1, m2 = best
    lam = float('%.4g' % lam)
    out = ['Definition f_%s (x0 x1 : R) : R := %s.' % (nm, PT.to_coq(f))]
    for i, g in enumerate(gs):
        out.append('Definition g%d_%s (x0 x1 : R) : R := %s.' % (i, nm, PT.to_coq(g)))
    names = []
    box = '%s <= x0 <= %s -> %s <= x1 <= %s' % (r(lo[0]), r(hi[0]), r(lo[1]), r(hi[1]))
    un = 'unfold f_%s, g%d_%s.' % (nm, j, nm)
    opt2 = 'i_bisect x0, i_bisect x1, i_depth 60, i_prec 40'

    def lemma(name, stmt, proof):
        names.append(name)
        out.append('Lemma %s_%s : %s.\nProof. %s Qed.' % (name, nm, stmt, proof))
    feasible = 'g0_%s x0 x1 <= 0 -> g1_%s x0 x1 <= 0 -> g2_%s x0 x1 <= 0' % (nm, nm, nm)
    lemma('c10_value', 'Rabs (f_%s %s %s - %s) <= 0.0001' % (nm, r(p[0]), r(p[1]), r(v)), 'unfold f_%s. interval.' % nm)
    lemma('c10_lagrange', 'forall x0 x1, %s -> f_%s x0 x1 + %s * g%d_%s x0 x1 >= %s - %s' % (box, nm, r(lam), j, nm, r(v), r(tol)),
          'intros x0 x1 H0 H1. %s interval with (%s).' % (un, opt2))
    lemma('c10_lower_feasible', 'forall x0 x1, %s -> %s -> f_%s x0 x1 >= %s - %s' % (box, feasible, nm, r(v), r(tol)),
          'intros x0 x1 H0 H1 G0 G1 G2. pose proof (c10_lagrange_%s x0 x1 H0 H1). lra.' % nm)
    lemma('c10_witness', '%s /\\ %s /\\ f_%s %s %s <= %s' % (' /\\ '.join('%s <= %s <= %s' % (r(p[i] - w[i]), r(q[i]), r(p[i] + w[i])) for i in range(2)),
                                                        ' /\\ '.join('g%d_%s %s %s <= 0' % (i, nm, r(q[0]), r(q[1])) for i in range(3)), nm, r(q[0]), r(q[1]), r(vq)),
          'unfold f_%s, g0_%s, g1_%s, g2_%s. repeat split; try lra; interval.' % (nm, nm, nm, nm))
    regions = [('left', '%s <= x0 <= %s -> %s <= x1 <= %s' % (r(lo[0]), r(p[0] - w[0]), r(lo[1]), r(hi[1]))),
               ('right', '%s <= x0 <= %s -> %s <= x1 <= %s' % (r(p[0] + w[0]), r(hi[0]), r(lo[1]), r(hi[1]))),
               ('below', '%s <= x0 <= %s -> %s <= x1 <= %s' % (r(p[0] - w[0]), r(p[0] + w[0]), r(lo[1]), r(p[1] - w[1]))),
               ('above', '%s <= x0 <= %s -> %s <= x1 <= %s' % (r(p[0] - w[0]), r(p[0] + w[0]), r(p[1] + w[1]), r(hi[1])))]
    for tag, reg in regions:
        lemma('c10_sep_%s' % tag, 'forall x0 x1, %s -> f_%s x0 x1 + %s * g%d_%s x0 x1 > %s' % (reg, nm, r(lam), j, nm, r(vq)),
              'intros x0 x1 H0 H1. %s interval with (%s).' % (un, opt2))
    # every feasible point that is at least as good as the feasible witness lies within 0.5% of the box sides of the declared point
    lemma('c10_minimisers_near_declared',
          'forall x0 x1, %s -> %s -> f_%s x0 x1 <= %s -> %s < x0 < %s /\\ %s < x1 < %s' % (box, feasible, nm, r(vq), r(p[0] - w[0]), r(p[0] + w[0]), r(p[1] - w[1]), r(p[1] + w[1])),
          'intros x0 x1 H0 H1 G0 G1 G2 Hv. '
          'assert (A : %s < x0) by (destruct (Rlt_le_dec %s x0) as [|Le]; [assumption|]; pose proof (c10_sep_left_%s x0 x1 ltac:(lra) H1); lra). '
          'assert (B : x0 < %s) by (destruct (Rlt_le_dec x0 %s) as [|Le]; [assumption|]; pose proof (c10_sep_right_%s x0 x1 ltac:(lra) H1); lra). '
          'assert (C : %s < x1) by (destruct (Rlt_le_dec %s x1) as [|Le]; [assumption|]; pose proof (c10_sep_below_%s x0 x1 ltac:(lra) ltac:(lra)); lra). '
          'assert (D : x1 < %s) by (destruct (Rlt_le_dec x1 %s) as [|Le]; [assumption|]; pose proof (c10_sep_above_%s x0 x1 ltac:(lra) ltac:(lra)); lra). lra.'
          % (r(p[0] - w[0]), r(p[0] - w[0]), nm, r(p[0] + w[0]), r(p[0] + w[0]), nm, r(p[1] - w[1]), r(p[1] - w[1]), nm, r(p[1] + w[1]), r(p[1] + w[1]), nm))
    info = {'family': 'StronginC3', 'declared_point': p, 'declared_value': v, 'constraint_used': j, 'multiplier': lam, 'witness': q, 'witness_value_bound': vq,
            'numeric_margins': [m1, m2], 'box': [lo, hi]}
    return '\n'.join(out) + '\n', names, info


def simple_ties(repo, dims=(1, 2, 3, 4, 5, 8, 13, 32)):
    """the expression obtained from Rastrigin/XSquared.Calculate for dimension n is the generic function (proved for all n)"""
    out = ['From IOptV Require Import Problems.Simple.']
    names = []
    for fam, gen in (('Rastrigin', 'rastrigin'), ('XSquared', 'xsquared')):
        for n in dims:
            ins = PT.instance(repo, fam, dim=n)
            vs = ' '.join('x%d' % i for i in range(n))
            nm = '%s_%d' % (gen, n)
            out.append('Definition f_%s (%s : R) : R := %s.' % (nm, vs, PT.to_coq(ins['expr'])))
            out.append('Lemma tie_%s : forall %s, f_%s %s = %s [%s].\nProof. intros. reflexivity. Qed.' % (nm, vs, nm, vs, gen, '; '.join('x%d' % i for i in range(n))))
            names.append('tie_' + nm)
            lo, hi = ins['lo'][0], ins['hi'][0]
            if ins['point'] != [0.0] * n or ins['value'] != 0.0:
                raise PT.Unsupported('%s: declared optimum is not the origin with value 0' % fam)
            out.append('Lemma box_%s : %s < 0 < %s.\nProof. lra. Qed.' % (nm, r(lo), r(hi)))
            names.append('box_' + nm)
    return '\n'.join(out) + '\n', names
