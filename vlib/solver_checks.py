"""Shared stages of the solver-level checks (C02 C03 C04 C06 C11 C16): proof stage, lock-step replay, direct oracles."""
from . import core, agp_corr as A, oracles as O, harness as H

ASSUME = ['objective = arbitrary stream of finite values / exceptions (oracle); theorems are generic in the numeric type and need only the '
          'order laws of <, <= (total order; hold for reals and for non-NaN binary64) - the float execution is tied by the bit-exact lock-step replay',
          'depq.DEPQ modelled as a stable descending list (read off its source), validated by the replay including tie order',
          'pow() results are taken from the implementation\'s own calls (lookup tables) - libm is not modelled']


def proof(chk, prop):
    ok = core.proof_stage(chk, 'Properties/%s.v' % prop, extra_targets=['AGP/Replay.vo'])
    chk.assumptions += ASSUME
    return ok


def lockstep(chk, rng, count, make_case=None, make_script=None, label='lock-step replay of real solver runs through the model (bit-exact)'):
    recs = []
    errors = []
    for _ in range(count):
        case = (make_case or A.random_case)(rng)
        script = (make_script or A.random_script)(rng, case)
        try:
            recs.append(A.observe(case, script))
        except BaseException as e:  # noqa
            if isinstance(e, KeyboardInterrupt):
                raise
            errors.append((case, script, '%s: %s' % (type(e).__name__, str(e)[:200])))
    ok, bad = A.run_corr(chk, recs)
    if recs:
        r = recs[0]
        chk.sample({'replayed_run': {'case': r['case'], 'script': r['script'], 'trials': r['trials'], 'first_points': [ob['newx'][:3] for ob in r['obs'][:2]]}})
    detail = ''
    if bad:
        detail = '; '.join('%s script=%r: %s' % (b[0]['case'], b[0]['script'], A.explain(b[1])) for b in bad[:2])[:1500]
    if errors:
        detail += ' harness errors: %r' % (errors[:2],)
    chk.obligation(label, ok and not bad and not errors, detail)
    return bad, errors


def report_corr(chk, bad, errors, found):
    """when no direct oracle found an input on which the PROPERTY fails, the broken correspondence is reported as such
    (no-failing-input-found); the replay file names it and carries the run on which model and implementation differ"""
    if found:
        return
    for rec, code in bad[:2]:
        chk.violation('lockstep-mismatch', 'model and implementation disagree: ' + A.explain(code),
                      {'kind': 'lockstep', 'broken': 'correspondence: lock-step replay of real solver runs through the model', 'case': rec['case'],
                       'script': [list(s) for s in rec['script']], 'code': code}, found_input=False)
    for case, script, msg in errors[:2]:
        chk.violation('implementation-raised', 'implementation raised while being observed: ' + msg,
                      {'kind': 'lockstep-error', 'case': case, 'script': [list(s) for s in script]})


def replay_lockstep(rp):
    rec = A.observe(rp['case'], [tuple(s) for s in rp['script']])
    chk = core.Check('replay', 'quick', 0)
    ok, bad = A.run_corr(chk, [rec])
    print('model agrees' if ok and not bad else 'still differs: ' + '; '.join(A.explain(c) for _, c in bad))
    return ok and not bad
