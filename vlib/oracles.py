"""Direct property oracles on the real implementation (used for the search stage and for replays).
Every oracle takes a JSON-able `case` dict and returns a list of failure strings (empty = holds)."""
import math
from fractions import Fraction as Fr

from . import harness as H

INF = float('inf')


def build(case, **over):
    c = dict(case); c.update(over)
    p = H.make_problem(c['n'], c['lo'], c['hi'], c['objective'], fail_at=c.get('fail_at'), exc=c.get('exc', 'RuntimeError'),
                       fail_region=c.get('fail_region'), returns_new_holder=c.get('new_holder', False), discrete=c.get('discrete', 0), inf_region=c.get('inf_region'))
    s = H.make_solver(p, r=c['r'], eps=c['eps'], iters=c['iters'], density=c.get('density'), refine=c.get('refine', False), start=c.get('start'))
    return p, s


def hroot(d, n):
    return pow(d, 1.0 / n)


# ---------------------------------------------------------------------------------------------
# C03: termination / stop rule / budget
# ---------------------------------------------------------------------------------------------
def c03(case):
    """Solve on a fresh solver, single-stepped twin to know the selected interval lengths."""
    fails = []
    p, s = build(case)
    pre = [('iter', int(k)) for k in (case.get('pre') or [])]      # requests of several iterations before Solve (their total stays within the budget)
    sol, out = H.run_script(s, pre + [('solve',)])
    n = case['n']
    nglobal = len(p.log) - (sol.numberOfLocalTrials + 1 if case.get('refine') else 0)   # refinement: nfev calls + 1 final evaluation
    if sol.numberOfGlobalTrials != nglobal:
        fails.append('reported trials %d != objective evaluations of the global search %d' % (sol.numberOfGlobalTrials, nglobal))
    if nglobal > case['iters']:
        fails.append('evaluations %d exceed itersLimit %d' % (nglobal, case['iters']))
    if p.calls - (sol.numberOfLocalTrials + 1 if case.get('refine') else 0) > case['iters']:
        fails.append('the objective was called %d times by the global search, itersLimit is %d' % (p.calls, case['iters']))
    resolution = None
    if 'Exception was thrown' in out:
        import re as _re
        m = _re.search(r'x is outside of interval (\S+) (\S+) (\S+)', out)
        if m and 'CalculateNextPointCoordinate: x is outside of interval' in out:
            # the method's own guard: legitimate only as the recorded finding F8 - the interval to be subdivided consists of adjacent binary64
            # numbers (at most one float strictly inside) while its Hoelder length is still >= eps, i.e. eps cannot be reached in binary64
            xl, xr = float(m.group(2)), float(m.group(3))
            adjacent = xl < xr <= math.nextafter(math.nextafter(xl, 2.0), 2.0)
            if adjacent and hroot(xr - xl, n) >= case['eps'] and not fails:
                resolution = (xl, xr)
        if resolution is None:
            fails.append('internal exception during Solve: ' + out.strip()[:200])
    p.log = p.log[:max(nglobal, 0)]
    # twin: step one iteration at a time and recompute the interval that was subdivided
    p2, s2 = build(case, refine=False)
    sel = []          # Hoelder length of each subdivided interval
    stop_at = None
    k = 0
    with H.quiet():
        while k < case['iters']:
            before = [it.GetX() for it in H.items(s2)]
            try:
                s2.DoGlobalIteration(1)
            except Exception as e:  # noqa
                if resolution is not None and 'x is outside of interval' in str(e):
                    break      # the twin meets the same guard; `k` trials were made
                raise
            k += 1
            after = [it.GetX() for it in H.items(s2)]
            if k > 1:
                new = [x for x in after if x not in set(before)]
                if len(new) != 1:
                    fails.append('iteration %d added %d points' % (k, len(new))); break
                j = next(i for i in range(len(before) - 1) if before[i] < new[0] < before[i + 1])
                sel.append(hroot(before[j + 1] - before[j], n))
                if sel[-1] < case['eps']:
                    stop_at = k; break
    if resolution is not None:
        # the guard may end the search early only where the stop rule had not fired and the budget was not exhausted; everything else
        # (trial count of the twin, no earlier stop) is still checked; the caller reports this under its own signature (finding F8)
        if stop_at is not None:
            return fails + ['the guard "x is outside of interval" fired although iteration %d had already subdivided an interval below eps' % stop_at]
        if len(p.log) != k:
            return fails + ['Solve ended through the guard after %d trials, the single-stepped twin met it after %d' % (len(p.log), k)]
        xl, xr = resolution
        return fails or ['FLOAT-RESOLUTION: N=%d, eps=%g: Solve ends after %d of %d trials with accuracy %.3g >= eps through the guard "x is outside of interval" on [%r, %r], '
                         'adjacent binary64 numbers of Hoelder length %.3g >= eps' % (n, case['eps'], len(p.log), case['iters'], sol.solutionAccuracy, xl, xr, hroot(xr - xl, n))]
    expect = stop_at if stop_at is not None else case['iters']
    total_pre = sum(k for _, k in pre)
    if total_pre > expect:      # the batches themselves (which do not test the stop rule) went past the stop point: Solve then adds nothing
        return fails + ([] if len(p.log) == total_pre else ['after batches totalling %d (past the stop point %d) Solve made %d more trials' % (total_pre, expect, len(p.log) - total_pre)])
    if not fails and len(p.log) != expect:
        fails.append('Solve made %d trials, the stop rule (first subdivided interval below eps=%g, else budget %d) gives %d'
                     % (len(p.log), case['eps'], case['iters'], expect))
    exp_acc = min(sel[:max(0, len(p.log) - 1)], default=INF)
    if not fails and sol.solutionAccuracy != exp_acc:
        fails.append('reported accuracy %r != smallest subdivided length %r' % (sol.solutionAccuracy, exp_acc))
    return fails


def c02_long(case):
    """Long runs (tens of thousands of iterations): at every iteration the subdivided interval must have maximal characteristic among
    ALL intervals of the partition, recomputed here in binary64 (numpy) from the trial log and the method's current M and z*.
    The selection is observed by wrapping Method.CalculateIterationPoint in this process (no change to the repository)."""
    import numpy as np
    from iOpt.method.method import Method
    fails, stats = [], {'steps': 0, 'max_intervals': 0}
    p, s = build(case)
    n, r = case['n'], float(case['r'])
    sel = []
    orig = Method.CalculateIterationPoint

    def wrapped(self):
        new, old = orig(self)
        sel.append((old.GetLeft().GetX(), old.GetX(), new.GetX(), float(self.M[0]), float(self.Z[0])))
        return new, old
    Method.CalculateIterationPoint = wrapped
    try:
        with H.quiet():
            s.DoGlobalIteration(1)
            it0 = [q for q in H.items(s)]
            xs = np.array([q.GetX() for q in it0], dtype=float)
            zs = np.array([q.GetZ() for q in it0], dtype=float)
            ev = np.array([q.GetIndex() == 0 for q in it0], dtype=bool)
            batch = int(case.get('batch', 1))
            it = 0
            while it < case['iters'] - 1 and not fails:
                nlog = len(p.log)
                if case.get('resume_every') and it and it % case['resume_every'] < batch:      # Solve() on an exhausted budget, then the budget is raised again
                    lim = s.method.parameters.itersLimit
                    s.method.parameters.itersLimit = s.method.iterationsCount
                    s.Solve()
                    s.method.parameters.itersLimit = lim
                sel.clear()
                try:
                    s.DoGlobalIteration(batch)
                except Exception as e:  # noqa
                    if 'x is outside of interval' not in str(e):      # only the method's own float-resolution guard may end such a run
                        fails.append('iteration %d: the implementation raised %s: %s' % (it + 1, type(e).__name__, str(e)[:160]))
                    stats['guard'] = str(e); break
                if len(p.log) != nlog + batch or len(sel) != batch:
                    if len(p.log) != nlog + len(sel):
                        fails.append('a call DoGlobalIteration(%d) selected %d intervals but evaluated %d points' % (batch, len(sel), len(p.log) - nlog))
                    break
                for bi, (xl, xr, xn, M, Z) in enumerate(list(sel)):
                    it += 1
                    D = (xs[1:] - xs[:-1]) ** (1.0 / n)
                    zl, zr, el, er = zs[:-1], zs[1:], ev[:-1], ev[1:]
                    with np.errstate(all='ignore'):
                        Rin = D + (zr - zl) ** 2 / (r * r * M * M * D) - 2 * (zr + zl - 2 * Z) / (r * M)
                        Rl = 2 * D - 4 * (zr - Z) / (r * M)
                        Rr = 2 * D - 4 * (zl - Z) / (r * M)
                    R = np.where(el & er, Rin, np.where(er, Rl, Rr))
                    with np.errstate(all='ignore'):
                        slopes = np.where(el & er, np.abs(zr - zl) / D, 0.0)
                    stats['hist_M'] = max(stats.get('hist_M', 1.0), float(slopes.max()))
                    if M < stats['hist_M'] * (1 - 1e-9):
                        fails.append('iteration %d: M=%r is below the largest slope seen so far between neighbouring trials (%r): the estimate dropped' % (it + 1, M, stats['hist_M'])); break
                    if M < 1.0 or float(slopes.max()) > M * (1 + 1e-9):
                        jj = int(slopes.argmax())
                        fails.append('iteration %d: M=%r does not dominate the slope %r of the neighbouring trials at (%.12g, %.12g)' % (it + 1, M, float(slopes.max()), xs[jj], xs[jj + 1])); break
                    k = int(np.searchsorted(xs, xr)) - 1
                    if not (0 <= k < len(R)) or xs[k] != xl or xs[k + 1] != xr:
                        fails.append('iteration %d: the subdivided interval (%r, %r) is not an interval of the partition formed by all earlier trials' % (it + 1, xl, xr)); break
                    mx = float(R.max())
                    if R[k] < mx - (abs(mx) * 1e-9 + 1e-12):
                        j = int(R.argmax())
                        fails.append('iteration %d (%d intervals, batches of %d): subdivided (%.12g, %.12g) with characteristic %.12g although (%.12g, %.12g) has %.12g (M=%r z*=%r)'
                                     % (it + 1, len(R), batch, xl, xr, R[k], xs[j], xs[j + 1], mx, M, Z)); break
                    if not (xl < xn < xr):
                        fails.append('iteration %d: new point %r not strictly inside (%r, %r)' % (it + 1, xn, xl, xr)); break
                    xs = np.insert(xs, k + 1, xn); zs = np.insert(zs, k + 1, p.log[nlog + bi][1]); ev = np.insert(ev, k + 1, True)
                    stats['steps'] += 1
            stats['max_intervals'] = int(len(xs) - 1)
    finally:
        Method.CalculateIterationPoint = orig
    return fails, stats


def c03_failing(case):
    """an objective that fails (on a slab of the box, or at the very first call): Solve returns, and the objective is never called
    more than itersLimit times"""
    p, s = build(case)
    cap = 3 * case['iters'] + 50
    inner = p.Calculate

    class Runaway(BaseException):
        pass

    def capped(point, fv):
        if p.calls >= cap:
            raise Runaway()
        return inner(point, fv)
    p.Calculate = capped
    try:
        sol, out = H.run_script(s, [('solve',)])
    except Runaway:
        return ['Solve keeps calling the failing objective: %d calls with itersLimit %d (stopped by the watchdog)' % (p.calls, case['iters'])]
    fails = []
    if p.calls >= cap:
        fails.append('the objective was called %d times (watchdog limit) with itersLimit %d' % (p.calls, case['iters']))
    elif p.calls > case['iters']:
        fails.append('the objective was called %d times, itersLimit is %d' % (p.calls, case['iters']))
    if sol.numberOfGlobalTrials != len(p.log):
        fails.append('reported trials %d != successful objective evaluations %d' % (sol.numberOfGlobalTrials, len(p.log)))
    return fails


def guarded(fn, case):
    """an oracle that raises is a failure of the property's observable contract, not of the check"""
    try:
        return fn(case)
    except BaseException as e:  # noqa
        if isinstance(e, KeyboardInterrupt):
            raise
        import traceback
        tb = traceback.format_exc().strip().splitlines()
        return ['implementation raised %s: %s  [%s]' % (type(e).__name__, str(e)[:200], ' | '.join(tb[-4:-1])[:300])]


# ---------------------------------------------------------------------------------------------
# exact recomputation helpers for C02
# ---------------------------------------------------------------------------------------------
def _R_exact(a, b, r, M, Z):
    D, rr, Mf, Zf = Fr(b['delta']), Fr(r), Fr(M), Fr(Z)
    if a['index'] == b['index']:
        zl, zr = Fr(a['z']), Fr(b['z'])
        return D + (zr - zl) ** 2 / (D * Mf * Mf * rr * rr) - 2 * (zr + zl - 2 * Zf) / (rr * Mf)
    if a['index'] < b['index']:
        return 2 * D - 4 * (Fr(b['z']) - Zf) / (rr * Mf)
    return 2 * D - 4 * (Fr(a['z']) - Zf) / (rr * Mf)


def record_check(case, p, s, evaluated_log=None, where=''):
    """C06: order, links, count, delta, image, value"""
    from iOpt.evolvent.evolvent import Evolvent
    fails = []
    n = case['n']
    items = H.items(s)
    if not items:
        return fails
    xs = [i.GetX() for i in items]
    if xs[0] != 0.0 or xs[-1] != 1.0:
        fails.append(where + 'record does not run from 0 to 1: %r..%r' % (xs[0], xs[-1]))
    if any(not (a < b) for a, b in zip(xs, xs[1:])):
        fails.append(where + 'record not strictly increasing')
    if items[0].GetLeft() is not None or items[-1].GetRight() is not None:
        fails.append(where + 'end items have outer neighbours')
    for a, b in zip(items, items[1:]):
        if a.GetRight() is not b or b.GetLeft() is not a:
            fails.append(where + 'inconsistent neighbour links at x=%r' % b.GetX()); break
    log = p.log if evaluated_log is None else evaluated_log
    if s.searchData.GetCount() != len(items) or len(items) != len(log) + 2:
        fails.append(where + 'count %d / traversal %d / evaluations+2 %d' % (s.searchData.GetCount(), len(items), len(log) + 2))
    if items[0].GetIndex() == 0 or items[-1].GetIndex() == 0:
        fails.append(where + 'an end point is marked evaluated')
    ev = Evolvent(case['lo'], case['hi'], n, case['density']) if case.get('density') else Evolvent(case['lo'], case['hi'], n)
    if case.get('density') is None:      # the density the solver was CONFIGURED with (the documented default)
        from iOpt.solver_parametrs import SolverParameters
        ev = s.evolvent.__class__(case['lo'], case['hi'], n, SolverParameters().evolventDensity)
    bypoint = {}
    for y, v in log:
        bypoint.setdefault(tuple(y), []).append(v)
    for a, b in zip(items, items[1:]):
        d = hroot(b.GetX() - a.GetX(), n)
        if b.delta != d:
            fails.append(where + 'delta of x=%r is %r, (x-x_left)^(1/N)=%r' % (b.GetX(), b.delta, d)); break
    for i in items[1:-1]:
        if i.GetIndex() != 0:
            fails.append(where + 'interior item x=%r not marked evaluated' % i.GetX()); break
        img = [float(v) for v in ev.GetImage(i.GetX())]
        yy = [float(v) for v in i.GetY().floatVariables]
        if img != yy:
            fails.append(where + 'stored point %r of x=%r is not the evolvent image %r' % (yy, i.GetX(), img)); break
        vals = bypoint.get(tuple(yy))
        if not vals or i.GetZ() not in vals:
            fails.append(where + 'stored value %r at x=%r is not the objective value logged there (%r)' % (i.GetZ(), i.GetX(), vals)); break
        if i.functionValues[0].value != i.GetZ():
            fails.append(where + 'value holder %r != GetZ %r at x=%r' % (i.functionValues[0].value, i.GetZ(), i.GetX())); break
    return fails


def best_check(p, s, sol=None, where=''):
    """C04 on the current solution object"""
    fails = []
    if not p.log:
        return fails
    sol = sol or s.GetResults()
    b = sol.bestTrials[0]
    zmin = min(v for _, v in p.log)
    val = b.functionValues[0].value
    pt = [float(v) for v in b.point.floatVariables]
    logged = [v for y, v in p.log if y == pt]
    if not logged:
        fails.append(where + 'best point %r was never evaluated' % pt)
    elif val not in logged:
        fails.append(where + 'best value %r is not the objective at its point (%r)' % (val, logged))
    if val != zmin:
        fails.append(where + 'best value %r, but the smallest evaluated value is %r' % (val, zmin))
    return fails


# ---------------------------------------------------------------------------------------------
# C02 / C04 / C06 single-stepped
# ---------------------------------------------------------------------------------------------
def c02_steps(case, check04=True, check06=True):
    fails = []
    stats = {'steps': 0, 'ties': 0, 'mgrowth': 0}
    p, s = build(case)
    n, r = case['n'], case['r']
    with H.quiet():
        s.DoGlobalIteration(1)
    if [round(v, 15) for v in p.log[0][0]] != [round(float(v), 15) for v in s.evolvent.GetImage(0.5)]:
        fails.append('first trial %r is not the image of 0.5' % (p.log[0][0],))
    seen_pts = set()
    for it in range(case['iters'] - 1):
        if it == case.get('reassign_parameters_at'):      # a new SolverParameters object (other density) assigned to the solver: the record must stay faithful
            from iOpt.solver_parametrs import SolverParameters
            old = s.parameters
            s.parameters = SolverParameters(eps=old.eps, r=old.r, itersLimit=old.itersLimit, evolventDensity=(old.evolventDensity - 3 if old.evolventDensity > 5 else old.evolventDensity + 2))
        if it in (case.get('resume_at') or ()):      # Solve() on a run whose budget is exhausted, then the budget is raised and the search goes on
            lim = s.method.parameters.itersLimit
            s.method.parameters.itersLimit = s.method.iterationsCount
            with H.quiet():
                s.Solve()
            s.method.parameters.itersLimit = lim
        if it == case.get('refine_at'):      # a local refinement in the middle of the search must not disturb the decision rule
            n0 = len(p.log)
            with H.quiet():
                s.DoLocalRefinement(case.get('refine_iters', 15))
            del p.log[n0:]      # evaluations of the local phase are not trials of the global search
        rec = H.record(s)
        if check06:
            fails += record_check(case, p, s, where='after %d iterations: ' % (it + 1))
        if check04:
            fails += best_check(p, s, where='after %d iterations: ' % (it + 1))
        if fails:
            break
        M, Z = s.method.M[0], s.method.Z[0]
        # the largest slope EVER seen between trials that were neighbours (a pair that was later subdivided still counts)
        for a, b in zip(rec, rec[1:]):
            if a['index'] == 0 and b['index'] == 0 and b['delta'] > 0:
                stats['hist_M'] = max(stats.get('hist_M', 1.0), abs(b['z'] - a['z']) / b['delta'])
        if M < stats.get('hist_M', 1.0) * (1 - 1e-12):
            fails.append('after %d iterations M=%r is below the largest slope seen so far between neighbouring trials (%r): the estimate dropped' % (it + 1, M, stats['hist_M'])); break
        # M must be the largest neighbour slope seen so far floored at 1: at least all current slopes
        evs = [q for q in rec if q['index'] == 0]
        zmin = min(q['z'] for q in evs)
        if Z != zmin:
            fails.append('z* = %r but best evaluated value is %r' % (Z, zmin)); break
        for a, b in zip(rec, rec[1:]):
            if a['index'] == 0 and b['index'] == 0:
                if Fr(abs(b['z'] - a['z'])) > Fr(M) * Fr(b['delta']) * (1 + Fr(1, 10 ** 12)):
                    fails.append('M=%r below current slope at x=%r' % (M, b['x'])); break
        if M < 1.0:
            fails.append('M=%r below 1' % M); break
        Rs = [_R_exact(a, b, r, M, Z) for a, b in zip(rec, rec[1:])]
        xs = [q['x'] for q in rec]
        before = set(xs)
        oldM = M
        with H.quiet() as buf:
            try:
                s.DoGlobalIteration(1)
            except BaseException as e:  # noqa  (the injected failure may be a KeyboardInterrupt / SystemExit: the caller handles it and goes on)
                if isinstance(e, KeyboardInterrupt) and case.get('exc') != 'KeyboardInterrupt':
                    raise
                if 'injected failure' in str(e) or 'objective undefined' in str(e):
                    # the objective failed: nothing was evaluated or recorded; the caller goes on and the NEXT trial must again be
                    # placed by the rule on the full partition
                    stats['failures'] = stats.get('failures', 0) + 1
                    continue
                if 'x is outside of interval' not in str(e):      # only the method's own float-resolution guard may end such a run
                    fails.append('iteration %d: the implementation raised %s: %s' % (it + 2, type(e).__name__, str(e)[:160]))
                stats['guard'] = str(e)
                break
        stats['steps'] += 1
        if s.method.M[0] > oldM:
            stats['mgrowth'] += 1
        newx = [i.GetX() for i in H.items(s) if i.GetX() not in before]
        if len(newx) != 1:
            fails.append('iteration %d added %d new coordinates' % (it + 2, len(newx))); break
        x = newx[0]
        if x in seen_pts:
            fails.append('curve point %r evaluated twice' % x); break
        seen_pts.add(x)
        k = next(j for j in range(len(xs) - 1) if xs[j] < x < xs[j + 1])
        mx = max(Rs)
        if sum(1 for q in Rs if q == mx) > 1:
            stats['ties'] += 1
        tol = abs(mx) * Fr(1, 10 ** 9) + Fr(1, 10 ** 12)
        if Rs[k] < mx - tol:
            fails.append('iteration %d subdivided interval %d (R=%.12g) but interval %d has R=%.12g (M=%r z*=%r)'
                         % (it + 2, k, float(Rs[k]), Rs.index(mx), float(mx), M, Z)); break
        a, b = rec[k], rec[k + 1]
        if a['index'] == b['index']:
            dz = Fr(b['z']) - Fr(a['z'])
            sg = 1 if dz > 0 else -1
            exp = (Fr(a['x']) + Fr(b['x'])) / 2 - sg * (abs(dz) / Fr(M)) ** n / (2 * Fr(r))
        else:
            exp = (Fr(a['x']) + Fr(b['x'])) / 2
        if abs(Fr(x) - exp) > (Fr(b['x']) - Fr(a['x'])) * Fr(1, 2 ** 30) + abs(Fr(x)) * Fr(1, 2 ** 49) + Fr(1, 2 ** 60):
            fails.append('iteration %d: new point %r, decision rule gives %.17g' % (it + 2, x, float(exp))); break
        if not (a['x'] < x < b['x']):
            fails.append('new point not strictly inside'); break
        if s.method.CheckStopCondition() and case.get('stop_at_accuracy'):
            break
    return fails, stats


# ---------------------------------------------------------------------------------------------
# C05: box containment + refinement
# ---------------------------------------------------------------------------------------------
def c05(case):
    fails = []
    p, s = build(case)
    sol, out = H.run_script(s, [('solve',)])
    lo, hi = case['lo'], case['hi']
    nglob = sol.numberOfGlobalTrials
    for k, (y, v) in enumerate(p.log):
        if any(not (a <= c <= b) for a, c, b in zip(lo, y, hi)):
            fails.append('evaluation %d (%s phase) at %r outside the box' % (k + 1, 'global' if k < nglob else 'local', y)); break
    pt = [float(v) for v in sol.bestTrials[0].point.floatVariables]
    if any(not (a <= c <= b) for a, c, b in zip(lo, pt, hi)):
        fails.append('returned point %r outside the box' % pt)
    if case.get('refine'):
        gbest = min(v for _, v in p.log[:nglob])
        val = sol.bestTrials[0].functionValues[0].value
        if val > gbest:
            fails.append('refined value %r worse than best global trial %r' % (val, gbest))
        f = H.objective(case['objective'])
        if f(pt) != val:
            fails.append('reported value %r != objective at returned point %r' % (val, f(pt)))
    return fails


def c06_failures(case):
    """objective undefined on part of the box / failing at given calls; the caller catches and goes on: after EVERY call the
    record lists exactly the evaluated trials"""
    p, s = build(case)
    fails = []
    nfail = 0
    for k in range(case['iters']):
        try:
            with H.quiet():
                s.DoGlobalIteration(1)
        except BaseException as e:  # noqa
            if isinstance(e, KeyboardInterrupt) and case.get('exc') != 'KeyboardInterrupt':
                raise
            nfail += 1
        fails += record_check(case, p, s, where='after call %d (%d failed evaluations so far): ' % (k + 1, nfail))
        if fails or nfail > 12:
            break
    return fails


def c06_after_solve(case):
    """the record must still be faithful after Solve returns (also with refinement)"""
    p, s = build(case)
    sol, out = H.run_script(s, [('solve',)])
    n = sol.numberOfGlobalTrials
    return record_check(case, p, s, evaluated_log=p.log[:n], where='after Solve(refine=%s): ' % case.get('refine', False))


# ---------------------------------------------------------------------------------------------
# C07 / C08 / C09 / C17 / C20 on the Evolvent class
# ---------------------------------------------------------------------------------------------
def evolvent_of(case):
    """the Evolvent of a case; case['prehistory'] (optional) is a list of earlier operations on the same object:
    ('other_bounds', lo, hi) construct with these bounds and SetBounds to the case's afterwards; ('default_bounds',) construct
    without bounds and SetBounds; ('img', x); ('inv'|'pre', y, dtype) with dtype in int|float32|float64|list"""
    import numpy as np
    from iOpt.evolvent.evolvent import Evolvent
    pre = case.get('prehistory') or []
    n, m = case['n'], case['m']
    if case.get('m_type') == 'int32':      # the density arrives as a 32-bit numpy integer (a value from an array of settings)
        m = np.int32(m)
    first = pre[0] if pre else None
    if first and first[0] == 'other_bounds':
        ev = Evolvent(first[1], first[2], n, m)
    elif first and first[0] == 'default_bounds':
        ev = Evolvent(numberOfFloatVariables=n, evolventDensity=m)
    else:
        ev = Evolvent(case['lo'], case['hi'], n, m)
    for op in pre:
        if op[0] == 'img':
            ev.GetImage(op[1])
        elif op[0] in ('inv', 'pre'):
            y = op[1]
            arg = {'int': lambda: [int(v) for v in y], 'list': lambda: [float(v) for v in y], 'float32': lambda: np.array(y, dtype=np.float32),
                   'float64': lambda: np.array(y, dtype=np.double)}[op[2]]()
            (ev.GetInverseImage if op[0] == 'inv' else ev.GetPreimages)(arg)
    if first and first[0] in ('other_bounds', 'default_bounds'):
        ev.SetBounds(case['lo'], case['hi'])
    return ev


def random_prehistory(rng, n, lo, hi):
    k = rng.random()
    if k < 0.4:
        return []
    y = [a + (b - a) * rng.random() for a, b in zip(lo, hi)]
    ops = []
    if k < 0.55:
        lo2 = [a - rng.choice([0.5, 1, 3]) for a in lo]; hi2 = [b + rng.choice([0.25, 1, 2]) for b in hi]
        if rng.random() < 0.4:      # first box given as python ints (as the project's own tests do): the stored arrays must not keep that type
            lo2 = [int(a) - 2 for a in lo]; hi2 = [int(b) + 2 for b in hi]
        ops.append(('other_bounds', lo2, hi2))
    elif k < 0.62:
        ops.append(('default_bounds',))
    for _ in range(rng.randint(1, 3)):
        q = rng.random()
        if q < 0.4:
            ops.append(('img', rng.choice([0.0, 1.0, 0.5, rng.random()])))
        else:
            ops.append((rng.choice(['inv', 'pre']), y if rng.random() < 0.7 else [0] * n, rng.choice(['int', 'list', 'float32', 'float64', 'float64'])))
    if ops and ops[0][0] == 'default_bounds':
        ops = [ops[0]]   # nothing can be queried before bounds exist
    return ops


def c07_point(case):
    """image(x) must equal the image of the midpoint of x's subinterval (x=1: the last one); inside the box"""
    ev = evolvent_of(case)
    n, m, x = case['n'], case['m'], case['x']
    if n == 1:
        y = float(ev.GetImage(x)[0]); exp = case['lo'][0] + x * (case['hi'][0] - case['lo'][0])
        return [] if abs(y - exp) <= 1e-12 * max(1, abs(exp)) else ['N=1 image %r != affine %r' % (y, exp)]
    K = 2 ** (n * m)
    i = min(int(Fr(x) * K), K - 1)
    mid = float(Fr(2 * i + 1, 2 * K))
    a = [float(v) for v in ev.GetImage(x)]
    b = [float(v) for v in ev.GetImage(mid)]
    fails = []
    if a != b:
        fails.append('image(%r)=%r differs from the image %r of the midpoint of its subinterval %d (N=%d m=%d)' % (x, a, b, i, n, m))
    if i != K - 1 and a == [float(v) for v in ev.GetImage(1.0)]:
        fails.append('image(%r) of subinterval %d of %d equals the last cell (image of 1.0): different subintervals must give different cells (N=%d m=%d)' % (x, i, K, n, m))
    if i > 0 and a == [float(v) for v in ev.GetImage(float(Fr(2 * i - 1, 2 * K)))]:
        fails.append('subintervals %d and %d map to the same cell (N=%d m=%d)' % (i - 1, i, n, m))
    for c, (l, h) in zip(a, zip(case['lo'], case['hi'])):
        if not (l <= c <= h):
            fails.append('image coordinate %r outside [%r,%r]' % (c, l, h)); break
    return fails


def c07_cells(n, m, lo=None, hi=None, prehistory=None):
    """exhaustive: 2^(n*m) subintervals -> distinct cell centres, all cells reached"""
    lo = lo or [0.0] * n; hi = hi or [1.0] * n
    ev = evolvent_of({'n': n, 'm': m, 'lo': lo, 'hi': hi, 'prehistory': prehistory})
    K = 2 ** (n * m)
    cells = []
    for i in range(K):
        y = ev.GetImage(float(Fr(2 * i + 1, 2 * K)))
        c = tuple((Fr(float(v)) - Fr(l)) / (Fr(h) - Fr(l)) * 2 ** m - Fr(1, 2) for v, l, h in zip(y, lo, hi))
        cells.append(c)
    fails = []
    if any(v.denominator != 1 or not (0 <= v < 2 ** m) for c in cells for v in c):
        fails.append('an image is not a cell centre of the 2^%d grid' % m)
    if len(set(cells)) != K:
        fails.append('only %d distinct cells for %d subintervals (N=%d m=%d)' % (len(set(cells)), K, n, m))
    last = tuple(ev.GetImage(1.0))
    if tuple(ev.GetImage(float(Fr(2 * K - 1, 2 * K)))) != last:
        fails.append('x=1 does not map to the last cell')
    return fails, [tuple(int(v) for v in c) for c in cells]


def c08_cells(n, m, cells, cells_next=None):
    fails = []
    for i, (a, b) in enumerate(zip(cells, cells[1:])):
        d = [abs(u - v) for u, v in zip(a, b)]
        if sorted(d) != [0] * (n - 1) + [1]:
            fails.append('cells of subintervals %d and %d are not face-adjacent: %r %r (N=%d m=%d)' % (i, i + 1, a, b, n, m)); break
    if cells_next is not None:
        for j, c in enumerate(cells_next):
            if tuple(v // 2 for v in c) != tuple(cells[j >> n]):
                fails.append('density %d cell of subinterval %d not inside the density %d cell of subinterval %d' % (m + 1, j, m, j >> n)); break
    return fails


def c09_point(case):
    ev = evolvent_of(case)
    n, m = case['n'], case['m']
    fails = []
    K = 2 ** (n * m)
    if 'x' in case:
        x = case['x']
        y = ev.GetImage(x)
        xi = ev.GetInverseImage(y); xp = ev.GetPreimages(y)
        if n == 1:
            if abs(xi - x) > 1e-12 or xp != xi:
                fails.append('N=1 inverse(image(%r)) = %r / %r' % (x, xi, xp))
        else:
            exp = float(Fr(min(int(Fr(x) * K), K - 1), K))
            if xi != exp or xp != exp:
                fails.append('inverse(image(%r)) = %r (GetPreimages %r), expected %r (N=%d m=%d)' % (x, xi, xp, exp, n, m))
    if 'y' in case:
        yy = case['y']
        xx = ev.GetInverseImage(np_array(yy))
        y2 = [float(v) for v in ev.GetImage(xx)]
        cw = [(b - a) / 2 ** m for a, b in zip(case['lo'], case['hi'])]
        if n == 1:
            if abs(y2[0] - yy[0]) > 1e-12 * max(1.0, abs(yy[0])):
                fails.append('N=1 image(inverse(%r)) = %r' % (yy, y2))
        elif any(abs(u - v) > c / 2 * (1 + 1e-9) + 1e-12 for u, v, c in zip(yy, y2, cw)):
            fails.append('image(inverse(%r)) = %r is not the centre of its cell (N=%d m=%d)' % (yy, y2, n, m))
        arg = np_array(yy)
        xp2 = ev.GetPreimages(arg)
        if xx != xp2:
            fails.append('GetPreimages differs from GetInverseImage at %r' % (yy,))
        if [float(v) for v in arg] != [float(v) for v in yy]:
            fails.append('GetPreimages changed its argument: %r -> %r' % (yy, [float(v) for v in arg]))
        elif xp2 != ev.GetPreimages(arg):
            fails.append('GetPreimages of the same point asked twice gives %r and then another value' % xp2)
    return fails


def np_array(v):
    import numpy as np
    return np.array(v, dtype=np.double)


def c17_history(case):
    """ops: list of ('img', x) | ('inv', y) | ('pre', y) | ('bounds', lo, hi); compare with fresh objects"""
    from iOpt.evolvent.evolvent import Evolvent
    n, m = case['n'], case['m']
    lo, hi = list(case['lo']), list(case['hi'])
    ev = Evolvent(lo, hi, n, m)
    kept = []
    fails = []
    for k, op in enumerate(case['ops']):
        if op[0] == 'bounds':
            lo, hi = list(op[1]), list(op[2])
            ev.SetBounds(np_array(lo), np_array(hi))
            continue
        fresh = Evolvent(lo, hi, n, m)
        if op[0] == 'img':
            import numpy as np
            xarg = np.array(op[1], dtype=np.double) if k % 3 == 1 else op[1]      # every third query passes x as a (mutable) 0-d array
            got = ev.GetImage(xarg); exp = fresh.GetImage(op[1])
            if float(xarg) != float(op[1]):
                fails.append('op %d GetImage(x) changed its argument: x was %r (a 0-d array), is %r afterwards' % (k, op[1], float(xarg))); break
            if list(got) != list(exp):
                fails.append('op %d GetImage(%r)=%r on a used object, %r on a fresh one' % (k, op[1], list(got), list(exp))); break
            kept.append((got, [float(v) for v in got], k))
        else:
            import numpy as np
            dt = op[2] if len(op) > 2 else 'float64'
            mk = {'int': lambda: [int(round(v)) for v in op[1]], 'list': lambda: [float(v) for v in op[1]],
                  'float32': lambda: np.array(op[1], dtype=np.float32), 'float64': lambda: np_array(op[1])}[dt]
            arg = mk(); arg0 = list(arg)
            fn = (ev.GetInverseImage, fresh.GetInverseImage) if op[0] == 'inv' else (ev.GetPreimages, fresh.GetPreimages)
            got = fn[0](arg); exp = fn[1](mk())
            ref = fresh.__class__(lo, hi, n, m).GetInverseImage(np_array([float(v) for v in arg0]))
            if dt != 'float64' and got != ref:
                fails.append('op %d %s(%r as %s)=%r but the same point as float64 gives %r' % (k, op[0], arg0, dt, got, ref)); break
            if got != exp:
                fails.append('op %d %s(%r)=%r on a used object, %r on a fresh one' % (k, op[0], op[1], got, exp)); break
            if list(arg) != list(arg0):
                fails.append('op %d %s modified its argument: %r -> %r' % (k, op[0], list(arg0), list(arg))); break
        for arr, snap, kk in kept:
            if [float(v) for v in arr] != snap:
                fails.append('array returned by op %d changed after op %d: %r -> %r' % (kk, k, snap, [float(v) for v in arr])); break
        if fails:
            break
    return fails


def c20(case):
    """every trial coordinate on the cell-centre grid of the configured density"""
    if case.get('density_type') == 'assign':      # params.evolventDensity = m after the parameters object was built
        case = dict(case, density=('assign', int(case['density'])))
        p, s = build(case)
        case = dict(case, density=case['density'][1])
        return _c20_body(case, p, s)
    if case.get('density_type') == 'numpy':      # the density arrives as a numpy integer (an element of np.arange, a settings array)
        import numpy as np
        case = dict(case, density=np.arange(0, 64)[int(case['density'])])
    p, s = build(case)
    return _c20_body(case, p, s)


def _c20_body(case, p, s):
    with H.quiet():
        s.DoGlobalIteration(case['iters'])
    m = int(case['density'])
    fails = []
    for y, v in p.log:
        for c, l, h in zip(y, case['lo'], case['hi']):
            j = (Fr(c) - Fr(l)) / (Fr(h) - Fr(l)) * 2 ** m - Fr(1, 2)
            # allowance: 1e-6 of a cell plus the binary64 rounding of a coordinate of this magnitude, expressed in cells
            tol = Fr(1, 10 ** 6) + 4 * Fr(2) ** -52 * max(abs(Fr(l)), abs(Fr(h))) * 2 ** m / (Fr(h) - Fr(l))
            if abs(j - round(j)) > tol or not (0 <= round(j) < 2 ** m):
                fails.append('trial coordinate %r is not lower+(j+1/2)(upper-lower)/2^%d (j=%.6f)' % (c, m, float(j))); break
        if fails:
            break
    return fails


# ---------------------------------------------------------------------------------------------
# C11 batching / C12 isolation / C13 listeners / C16 failure
# ---------------------------------------------------------------------------------------------
def trajectory(case, script):
    p, s = build(case)
    sol, out = H.run_script(s, script)
    r = s.GetResults()
    return [tuple(y) for y, _ in p.log], [v for _, v in p.log], r.numberOfGlobalTrials, out


def c11(case):
    """case['script'] = list of batch sizes, followed by Solve, Solve"""
    fails = []
    base, bz, nb, _ = trajectory(case, [('solve',)])
    base2, _, _, _ = trajectory(case, [('solve',)])
    if base != base2:
        fails.append('two identical runs differ')
    comp = case['script']
    total = sum(comp)
    tr, _, nt, _ = trajectory(case, [('iter', k) for k in comp] + [('solve',)])
    tr2, _, nt2, _ = trajectory(case, [('iter', k) for k in comp] + [('solve',), ('solve',)])
    if total <= len(base):
        if tr != base:
            fails.append('batches %r then Solve: %d trials, differs from the plain Solve run (%d trials) at index %d'
                         % (comp, len(tr), len(base), next((i for i, (a, b) in enumerate(zip(tr, base)) if a != b), min(len(tr), len(base)))))
    else:
        if tr[:len(base)] != base or len(tr) != total:
            fails.append('batches %r (beyond the stop): %d trials, expected exactly %d with the Solve run as prefix' % (comp, len(tr), total))
    if tr2 != tr:
        fails.append('a second Solve performed %d further trials' % (len(tr2) - len(tr)))
    if nt != len(tr):
        fails.append('reported trials %d != evaluations %d' % (nt, len(tr)))
    return fails


def c12(case):
    """case: {'solvers':[case...], 'schedule':[i,...]} one DoGlobalIteration(1) per schedule entry, then Solve each"""
    fails = []
    solo = []
    for c in case['solvers']:
        p, s = build(c)
        sol, _ = H.run_script(s, [('solve',)])
        b = sol.bestTrials[0]
        solo.append(([tuple(y) for y, _ in p.log], sol.numberOfGlobalTrials, [float(v) for v in b.point.floatVariables], b.functionValues[0].value,
                     [(i.GetX(), i.GetZ()) for i in H.items(s)]))
    ps = [build(c) for c in case['solvers']]
    early = {}
    with H.quiet():
        for i in case['schedule']:
            p, s = ps[i]
            if not s.method.CheckStopCondition() or len(p.log) == 0:
                s.DoGlobalIteration(1)
            if case.get('snapshot_at') == len(early) and i not in early:
                pass
        sols = []
        for k, (p, s) in enumerate(ps):
            sols.append(s.Solve())
    for k, ((p, s), sol) in enumerate(zip(ps, sols)):
        tr = [tuple(y) for y, _ in p.log]
        b = sol.bestTrials[0]
        got = (tr, sol.numberOfGlobalTrials, [float(v) for v in b.point.floatVariables], b.functionValues[0].value,
               [(i.GetX(), i.GetZ()) for i in H.items(s)])
        names = ['trial sequence', 'trial count', 'best point', 'best value', 'search information']
        for nm, a, e in zip(names, got, solo[k]):
            if a != e:
                fails.append('solver %d of %d interleaved (%r): %s differs from its solo run (%s vs %s)'
                             % (k, len(ps), case['schedule'], nm, _short(a), _short(e)))
                break
    # distinct solvers must not share their solution's mutable parts
    for a in range(len(sols)):
        for b in range(a + 1, len(sols)):
            if sols[a].bestTrials is sols[b].bestTrials:
                fails.append('solutions of solvers %d and %d share one bestTrials list' % (a, b))
    return fails


def _short(v):
    s = repr(v)
    return s if len(s) < 120 else s[:117] + '...'


def c13_protocol(case):
    """recording listener overriding a subset of callbacks; script of batches then solve"""
    from iOpt.method.listener import Listener
    fails = []
    sub = case['override']  # subset of 'B','E','S'
    class Rec(Listener):
        def __init__(self):
            self.ev = []
    if 'B' in sub:
        Rec.BeforeMethodStart = lambda self, method: self.ev.append(('B',))
    if 'E' in sub:
        Rec.OnEndIteration = lambda self, pts, sol: self.ev.append(('E', [q.GetX() for q in pts], sol.numberOfGlobalTrials))
    if 'S' in sub:
        Rec.OnMethodStop = lambda self, sd, sol, st: self.ev.append(('S', sol.numberOfGlobalTrials, [float(v) for v in sol.bestTrials[0].point.floatVariables],
                                                                      sol.bestTrials[0].functionValues[0].value, st))
    script = [('iter', k) for k in case['script']] + [('solve',)]
    base, bz, nb, _ = trajectory(case, script)
    p, s = build(case)
    r1, r2 = Rec(), Rec()      # two distinct listeners of the same class with equal attributes: both are notified alike
    s.AddListener(r1)
    s.AddListener(r2)
    try:
        sol, out = H.run_script(s, script)
    except BaseException as e:
        if isinstance(e, KeyboardInterrupt):
            raise
        return ['listener overriding %r: %s escaped: %s' % (sorted(sub), type(e).__name__, str(e)[:200])]
    ev = r1.ev
    if r2.ev != r1.ev:
        fails.append('two listeners of the same class were attached: the first received %d notifications, the second %d' % (len(r1.ev), len(r2.ev)))
    tr = [tuple(y) for y, _ in p.log]
    if tr != base:
        fails.append('attaching a listener overriding %r changed the trial sequence' % sorted(sub))
    xs = H.trial_xs(s)
    if sol is None:
        return fails + ['Solve returned no solution']
    if 'B' in sub and [e for e in ev if e[0] == 'B'] != [('B',)]:
        fails.append('BeforeMethodStart delivered %d times' % len([e for e in ev if e[0] == 'B']))
    if 'B' in sub:
        firsttrial = next((k for k, e in enumerate(ev) if e[0] == 'E' and e[1]), None)
        bpos = next((k for k, e in enumerate(ev) if e[0] == 'B'), None)
        if firsttrial is not None and (bpos is None or bpos > firsttrial):
            fails.append('BeforeMethodStart was not delivered before the first trials were reported')
    if 'E' in sub:
        es = [e for e in ev if e[0] == 'E']
        # expected batches: the explicit ones, then one per iteration of Solve
        exp = []
        pos = 0
        for k in case['script']:
            exp.append(xs[pos:pos + k]); pos += k
        while pos < len(xs):
            exp.append(xs[pos:pos + 1]); pos += 1
        if [e[1] for e in es] != exp:
            fails.append('OnEndIteration batches %s differ from the new trials per call %s' % (_short([e[1] for e in es]), _short(exp)))
    if 'S' in sub:
        ss = [e for e in ev if e[0] == 'S']
        b = sol.bestTrials[0]
        if len(ss) != 1 or ev[-1][0] != 'S':
            fails.append('OnMethodStop delivered %d times / not last' % len(ss))
        elif ss[0][1:4] != (sol.numberOfGlobalTrials, [float(v) for v in b.point.floatVariables], b.functionValues[0].value):
            fails.append('OnMethodStop solution %r differs from the returned one' % (ss[0][1:4],))
    return fails


def c16(case):
    """objective raises at call k: Solve returns, result = first k-1 trials, record faithful, failed point absent"""
    fails = []
    k = case['fail_at']
    p, s = build(case)
    try:
        sol, out = H.run_script(s, [('solve',)])
    except BaseException as e:
        if isinstance(e, KeyboardInterrupt) and case.get('exc') != 'KeyboardInterrupt':
            raise
        return ['%s escaped from Solve (failure injected at evaluation %d)' % (type(e).__name__, k)]
    if p.calls < k:
        return []  # the run stopped before the failing call (accuracy reached, or the method's guard at binary64 resolution): nothing injected
    ref_case = dict(case); ref_case['fail_at'] = None
    p0, s0 = build(ref_case)
    with H.quiet():
        s0.DoGlobalIteration(k - 1)
    if sol.numberOfGlobalTrials != k - 1:
        fails.append('failure at evaluation %d: reported trial count %d, expected %d' % (k, sol.numberOfGlobalTrials, k - 1))
    if [tuple(y) for y, _ in p.log] != [tuple(y) for y, _ in p0.log]:
        fails.append('completed trials differ from the first %d trials of the undisturbed run' % (k - 1))
    if sol.solutionAccuracy != s0.GetResults().solutionAccuracy:
        fails.append('failure at evaluation %d: reported accuracy %r, but the %d completed trials give %r (the interval selected for the failed trial was not subdivided)'
                     % (k, sol.solutionAccuracy, k - 1, s0.GetResults().solutionAccuracy))
    fails += best_check(p, s, sol, where='after failure at %d: ' % k)
    fails += record_check(case, p, s, where='after failure at %d: ' % k)
    a = [(i.GetX(), i.GetZ()) for i in H.items(s)]
    b = [(i.GetX(), i.GetZ()) for i in H.items(s0)]
    if a != b:
        fails.append('record after failure at %d differs from the record after %d clean iterations' % (k, k - 1))
    return fails
