"""Shared machinery of the iOpt verification checks: paths, Coq build/eval, evidence, replays, known findings."""
import fcntl
import hashlib
import json
import os
import re
import shutil
import subprocess
import sys
import time
import warnings

warnings.filterwarnings("ignore", category=SyntaxWarning)

ROOT = os.path.dirname(os.path.dirname(os.path.abspath(__file__)))
REPO = os.environ.get('IOPT_REPO', '/repo')
COQ = os.path.join(ROOT, 'coq')
GEN = os.path.join(COQ, 'gen')
EVID = os.path.join(ROOT, 'evidence')
REPLAYS = os.path.join(ROOT, 'replays')
PY = '/venv/bin/python'
GUARD = 'IOPT_VERIF'

TRUSTED_COMMON = [
    'Coq 8.16.1 kernel and vm_compute (no native_compute)',
    'translators under /verif/tools/translate (Python ast -> Gallina, fail-closed)',
    'correspondence harness under /verif/vlib (CPython floats vs Coq PrimFloat / exact Q)',
]


def child_env():
    e = dict(os.environ)
    e['PYTHONPATH'] = REPO
    e['PYTHONHASHSEED'] = '0'
    e['MPLBACKEND'] = 'Agg'
    e[GUARD] = '1'
    e['PIP_NO_INDEX'] = '1'
    return e


def setup_import_path():
    """make `import iOpt` resolve to the working tree of /repo in this process"""
    os.environ['MPLBACKEND'] = 'Agg'
    os.environ[GUARD] = '1'
    if REPO not in sys.path:
        sys.path.insert(0, REPO)


def sh(cmd, timeout=600, cwd=None, env=None, inp=None):
    t0 = time.time()
    try:
        p = subprocess.run(cmd, shell=isinstance(cmd, str), cwd=cwd, env=env or child_env(), input=inp,
                           stdout=subprocess.PIPE, stderr=subprocess.STDOUT, timeout=timeout, text=True)
        return p.returncode, p.stdout, time.time() - t0
    except subprocess.TimeoutExpired as e:
        out = e.stdout if isinstance(e.stdout, str) else (e.stdout or b'').decode('utf8', 'replace')
        return 124, out + '\n[timeout after %ss]' % timeout, time.time() - t0


# ------------------------------------------------------------------------------------------------
# Coq
# ------------------------------------------------------------------------------------------------
class Lock:
    def __init__(self, name='coq.lock'):
        self.path = os.path.join(COQ, '.' + name)

    def __enter__(self):
        self.f = open(self.path, 'w')
        fcntl.flock(self.f, fcntl.LOCK_EX)
        return self

    def __exit__(self, *a):
        fcntl.flock(self.f, fcntl.LOCK_UN)
        self.f.close()


def write_if_changed(path, text):
    try:
        if open(path).read() == text:
            return False
    except OSError:
        pass
    os.makedirs(os.path.dirname(path), exist_ok=True)
    tmp = path + '.tmp%d' % os.getpid()
    open(tmp, 'w').write(text)
    os.replace(tmp, path)
    return True


def regenerate(which=None):
    """run the translators against /repo's working tree; returns {genfile: 'ok' | 'FAILED: reason'}"""
    sys.path.insert(0, os.path.join(ROOT, 'tools'))
    from translate import registry
    res = {}
    with Lock():
        for name, fn in registry.TRANSLATORS.items():
            if which and name not in which:
                continue
            path = os.path.join(GEN, name + '.v')
            try:
                text = fn(REPO)
                status = 'ok'
            except Exception as e:  # fail closed: stub without the definitions
                text = '(* TRANSLATION FAILED for %s: %s *)\n' % (name, str(e).replace('*)', '* )'))
                status = 'FAILED: %s' % e
            write_if_changed(path, text)
            res[name] = status
    return res


def ensure_makefile():
    mk = os.path.join(COQ, 'Makefile.coq')
    cp = os.path.join(COQ, '_CoqProject')
    if not os.path.exists(mk) or os.path.getmtime(mk) < os.path.getmtime(cp):
        rc, out, _ = sh('coq_makefile -f _CoqProject -o Makefile.coq', cwd=COQ)
        if rc:
            raise RuntimeError('coq_makefile failed: ' + out)


def coq_build(targets, timeout=1500, jobs=8):
    """build .vo targets (paths relative to coq/); returns dict(ok, log, fail_file, fail_line, fail_msg)"""
    with Lock():
        ensure_makefile()
        rc, out, dt = sh('make -f Makefile.coq -j%d %s' % (jobs, ' '.join(targets)), cwd=COQ, timeout=timeout)
    res = {'ok': rc == 0, 'log': out, 'wall_s': dt, 'fail_file': None, 'fail_line': None, 'fail_msg': None}
    if rc:
        m = re.search(r'File "\./?([^"]+)", line (\d+), characters [^\n]*\n((?:.*\n?){0,12})', out)
        if m:
            res['fail_file'], res['fail_line'] = m.group(1), int(m.group(2))
            res['fail_msg'] = m.group(3).strip()[:1500]
        else:
            res['fail_msg'] = out[-1500:]
    return res


def theorems_in(vfile):
    """names of Theorem statements in a Properties file, with their line numbers"""
    out = []
    for i, line in enumerate(open(os.path.join(COQ, vfile)), 1):
        m = re.match(r'\s*Theorem\s+(\w+)', line)
        if m:
            out.append((m.group(1), i))
    return out


def print_assumptions(vfile, timeout=600):
    """re-run coqc on an (already built) Properties file; the k-th `Print Assumptions` block belongs to the k-th Theorem"""
    with Lock():
        rc, out, _ = sh('coqc -q -R . IOptV %s' % vfile, cwd=COQ, timeout=timeout)
    if rc:
        return None, out
    blocks = []
    cur = None
    for line in out.splitlines():
        if line.startswith('Closed under the global context'):
            blocks.append([]); cur = None
        elif line.startswith('Axioms:'):
            cur = []; blocks.append(cur)
        elif cur is not None:
            m = re.match(r'^([A-Za-z_][\w.\']*)\s*(:|$)', line)
            if m:
                cur.append(m.group(1))
    printed = re.findall(r'^\s*Print Assumptions (\w+)\.', open(os.path.join(COQ, vfile)).read(), re.M)
    res = {n: (blocks[i] if i < len(blocks) else None) for i, n in enumerate(printed)}
    return res, out


_case_counter = [0]


def coq_eval(text, tag='cases', timeout=900):
    """compile a generated .v file in a private directory and return (rc, stdout). Not under the make lock:
    it only reads compiled .vo files."""
    d = os.path.join(COQ, 'cases', 'p%d' % os.getpid())
    os.makedirs(d, exist_ok=True)
    _case_counter[0] += 1
    name = '%s_%d' % (tag, _case_counter[0])
    path = os.path.join(d, name + '.v')
    open(path, 'w').write(text)
    rc, out, dt = sh('ulimit -s unlimited 2>/dev/null; coqc -q -R %s IOptV %s' % (COQ, path), timeout=timeout)
    return rc, out, path


def coq_eval_many(texts, tag='cases', timeout=900, procs=8):
    """compile several generated files in parallel; returns list of (rc, out, path)"""
    from concurrent.futures import ThreadPoolExecutor
    with ThreadPoolExecutor(max_workers=procs) as ex:
        return list(ex.map(lambda t: coq_eval(t, tag, timeout), texts))


def cleanup_cases():
    d = os.path.join(COQ, 'cases', 'p%d' % os.getpid())
    shutil.rmtree(d, ignore_errors=True)


def parse_eval_lines(out):
    """Coq prints `= value : type` blocks, possibly wrapped; return the list of value strings."""
    vals = []
    cur = None
    for line in out.splitlines():
        if line.startswith('     = '):
            if cur is not None:
                vals.append(cur)
            cur = line[7:]
        elif cur is not None:
            if line.startswith('     : '):
                vals.append(cur.strip()); cur = None
            else:
                cur += ' ' + line.strip()
    if cur is not None:
        vals.append(cur.strip())
    return vals


# ------------------------------------------------------------------------------------------------
# literals
# ------------------------------------------------------------------------------------------------
def fhex(v):
    """Coq PrimFloat literal (float_scope) for a Python float"""
    v = float(v)
    if v != v:
        return 'nan'
    if v == float('inf'):
        return 'infinity'
    if v == float('-inf'):
        return 'neg_infinity'
    s = v.hex()
    return '(%s)' % s if s.startswith('-') else s


def qlit(v):
    """exact rational literal (Q) of a Python float / int / Fraction"""
    from fractions import Fraction
    f = Fraction(v)
    n, d = f.numerator, f.denominator
    return '((%d) # %d)' % (n, d) if n < 0 else '(%d # %d)' % (n, d)


def zlit(n):
    return '(%d)%%Z' % n


def coq_list(items):
    return '[' + '; '.join(items) + ']'


# ------------------------------------------------------------------------------------------------
# findings / evidence / replay
# ------------------------------------------------------------------------------------------------
def load_findings():
    p = os.path.join(ROOT, 'known_findings.json')
    if not os.path.exists(p):
        return []
    return json.load(open(p)).get('entries', [])


class Check:
    """One run of one property's check."""

    def __init__(self, prop, tier, seed, level='proof'):
        self.prop, self.tier, self.seed, self.level = prop, tier, seed, level
        self.t0 = time.time()
        self.obligations = []     # (name, ok, detail)
        self.violations = []      # dicts
        self.known_hits = []
        self.samples = []
        self.cov = {}
        self.assumptions = []
        self.trusted = list(TRUSTED_COMMON)
        self.checker_cmds = []
        self.evaluations = 0
        self.nontrivial = 0
        self.traces = 0
        self.findings = [f for f in load_findings() if f.get('property') == prop and f.get('kind') == 'finding']
        self.notes = []

    # -- obligations ---------------------------------------------------------------------------
    def obligation(self, name, ok, detail=''):
        self.obligations.append((name, bool(ok), detail))
        return ok

    def failed_obligations(self):
        return [(n, d) for n, ok, d in self.obligations if not ok]

    def sample(self, s):
        if len(self.samples) < 6:
            self.samples.append(s)

    def note(self, s):
        self.notes.append(s)

    # -- violations ----------------------------------------------------------------------------
    def violation(self, signature, what, replay, found_input=True):
        """signature: short class string used to match known findings (e.g. 'final-trial-raised-M')."""
        for f in self.findings:
            if f.get('signature') == signature and _match(f.get('match', {}), replay):
                if f['id'] not in [k['id'] for k in self.known_hits]:
                    self.known_hits.append({'id': f['id'], 'what': f.get('what', what)})
                return False
        self.violations.append({'signature': signature, 'what': what, 'replay': replay, 'found_input': found_input})
        return True

    def write_replay(self, v):
        os.makedirs(REPLAYS, exist_ok=True)
        body = dict(v['replay']) if isinstance(v['replay'], dict) else {'data': v['replay']}
        body.update({'property': self.prop, 'signature': v['signature'], 'what': v['what'], 'seed': self.seed,
                     'found': 'input' if v['found_input'] else 'obligation'})
        s = json.dumps(body, indent=1, sort_keys=True, default=str)
        h = hashlib.sha1(s.encode()).hexdigest()[:10]
        path = os.path.join(REPLAYS, '%s-%s.json' % (self.prop, h))
        open(path, 'w').write(s)
        return path

    # -- finish --------------------------------------------------------------------------------
    def finish(self):
        # an undischarged obligation with no concrete failing input is still a violation
        failed = self.failed_obligations()
        if failed and not self.violations:
            self.violations.append({'signature': 'obligation-broken', 'what': 'proof obligation / correspondence no longer checks',
                                    'replay': {'broken': [{'obligation': n, 'detail': d} for n, d in failed]},
                                    'found_input': False})
        wall = time.time() - self.t0
        nobl = len(self.obligations)
        ndis = sum(1 for _, ok, _ in self.obligations if ok)
        cov = {
            'obligations': nobl, 'discharged': ndis,
            'checker_cmd': ' ; '.join(self.checker_cmds) or 'make -C /verif/coq -f Makefile.coq Properties/%s.vo' % self.prop,
            'trusted_base': self.trusted,
            'evaluations': max(self.evaluations, 1), 'distinct_nontrivial': self.nontrivial,
            'traces_validated_against_impl': self.traces,
            'samples': self.samples or ['(no sample recorded)'],
            'obligation_list': [{'name': n, 'ok': ok, 'detail': (d or '')[:400]} for n, ok, d in self.obligations],
            'known_findings_hit': self.known_hits,
            'notes': self.notes,
        }
        cov.update(self.cov)
        ev = {'property_id': self.prop, 'tier': self.tier, 'seed': self.seed, 'level': self.level, 'coverage': cov,
              'assumptions': self.assumptions, 'wall_s': round(wall, 2), 'violations': len(self.violations)}
        os.makedirs(EVID, exist_ok=True)
        open(os.path.join(EVID, self.prop + '.json'), 'w').write(json.dumps(ev, indent=1, default=str))
        for k in self.known_hits:
            print('KNOWN-FINDING: property=%s %s (%s)' % (self.prop, k['what'], k['id']))
        for v in self.violations:
            path = self.write_replay(v)
            print('VIOLATION property=%s replay=%s%s' % (self.prop, path, '' if v['found_input'] else ' no-failing-input-found'))
            print('  what: ' + v['what'])
        print('%s %s: obligations %d/%d, evaluations %d, violations %d, known %d, %.1fs' % (
            self.prop, self.tier, ndis, nobl, self.evaluations, len(self.violations), len(self.known_hits), wall))
        cleanup_cases()
        return 1 if self.violations else 0


def _match(pattern, replay):
    """every key of `pattern` must be present in `replay` (recursively) with an equal value"""
    if not isinstance(pattern, dict):
        return pattern == replay
    if not isinstance(replay, dict):
        return False
    for k, v in pattern.items():
        if k not in replay or not _match(v, replay[k]):
            return False
    return True


# ------------------------------------------------------------------------------------------------
# the standard proof stage
# ------------------------------------------------------------------------------------------------
FORBIDDEN = re.compile(r'\b(Admitted|admit|Axiom|Axioms|Parameter|Parameters|Conjecture|Admit Obligations|bypass_check|Unset Guard Checking|Unset Positivity Checking|Unset Universe Checking|type-in-type|impredicative-set)\b')


STDLIB_AXIOM_PREFIXES = ('ClassicalDedekindReals.', 'FunctionalExtensionality.', 'Classical_Prop.', 'Eqdep.', 'ProofIrrelevance.', 'JMeq.',
                         'ClassicalEpsilon.', 'PropExtensionality.', 'Coq.', 'ClassicalFacts.', 'Rdefinitions.', 'Raxioms.')


def hygiene():
    """no axiom-declaring command, admitted proof or kernel-check switch anywhere in the development (comments stripped)"""
    bad = []
    files = [l.strip() for l in open(os.path.join(COQ, '_CoqProject')) if l.strip().endswith('.v')]
    for f in files + ['_CoqProject']:
        path = os.path.join(COQ, f)
        if not os.path.exists(path):
            continue
        text = open(path).read()
        # strip (nested) comments
        out, depth, i = [], 0, 0
        while i < len(text):
            if text.startswith('(*', i):
                depth += 1; i += 2
            elif text.startswith('*)', i) and depth:
                depth -= 1; i += 2
            else:
                if not depth:
                    out.append(text[i])
                i += 1
        for ln, line in enumerate(''.join(out).splitlines(), 1):
            if FORBIDDEN.search(line) or re.match(r'\s*(Variable|Hypothesis|Variables|Hypotheses)\b', line) and f.startswith('gen/'):
                bad.append('%s: %s' % (f, line.strip()[:80]))
    return bad


def proof_stage(chk, vfile, extra_targets=(), timeout=1500):
    """regenerate, build Properties file, register one obligation per Theorem; returns True when all built."""
    gen = regenerate()
    for name, st in gen.items():
        if st != 'ok':
            chk.note('translator %s: %s' % (name, st))
    target = vfile[:-2] + '.vo'
    res = coq_build([target] + list(extra_targets), timeout=timeout)
    chk.checker_cmds.append('make -C /verif/coq -f Makefile.coq %s' % target)
    thms = theorems_in(vfile)
    bad = hygiene()
    chk.obligation('no Admitted / admit / Axiom / Parameter / kernel-check switch in the development', not bad, '; '.join(bad[:5]))
    if res['ok']:
        ass, out = print_assumptions(vfile)
        for name, _ in thms:
            ax = ass.get(name) if ass else None
            chk.obligation('theorem ' + name, True, 'axioms: ' + ('(not printed)' if ax is None else (', '.join(ax) if ax else 'none (closed under the global context)')))
        if ass:
            allax = sorted({a for v in ass.values() if v for a in v})
            chk.cov['axioms'] = allax
            for a in allax:
                chk.trusted.append('axiom (standard library): ' + a)
            foreign = [a for a in allax if not a.startswith(STDLIB_AXIOM_PREFIXES)]
            if foreign:
                chk.obligation('every axiom used is declared by the standard library', False, 'not from the standard library: ' + ', '.join(foreign))
        return True
    # locate the failure
    ff, fl = res['fail_file'], res['fail_line']
    detail = '%s:%s: %s' % (ff, fl, res['fail_msg'])
    if ff and os.path.normpath(ff) == os.path.normpath(vfile) and fl:
        # theorems before the failing line were accepted
        bad = None
        for name, ln in thms:
            if ln <= fl:
                bad = name
        for name, ln in thms:
            if name == bad:
                chk.obligation('theorem ' + name, False, detail)
            elif ln < fl:
                chk.obligation('theorem ' + name, True, '')
            else:
                chk.obligation('theorem ' + name, False, 'not reached: ' + detail)
    else:
        for name, _ in thms:
            chk.obligation('theorem ' + name, False, 'dependency failed: ' + detail)
        if not thms:
            chk.obligation('build ' + vfile, False, detail)
    return False
