(* Executable checker for the container correspondence: operation sequences run on the real classes are replayed on
   the model over binary64 keys; per-operation results and the final traversal are compared. *)
From Coq Require Import ZArith List Bool PrimFloat.
From IOptV Require Import AGP.Ops AGP.FloatOps Containers.SData.
Import ListNotations.

Definition fo : Ops float := float_ops [] [].

Definition res_eqb (a b : result) : bool :=
  match a, b with
  | RNone, RNone => true
  | RItem u, RItem v => Nat.eqb u v
  | RFound None, RFound None => true
  | RFound (Some u), RFound (Some v) => Nat.eqb u v
  | RError, RError => true
  | _, _ => false
  end.

Fixpoint first_diff (a b : list result) (k : nat) : option nat :=
  match a, b with
  | [], [] => None
  | x :: a', y :: b' => if res_eqb x y then first_diff a' b' (S k) else Some k
  | _, _ => Some k
  end.

Fixpoint nl_eqb (a b : list nat) : bool :=
  match a, b with [], [] => true | x :: a', y :: b' => Nat.eqb x y && nl_eqb a' b' | _, _ => false end.

Record ccase := mkCC { cc_ml : option nat; cc_dual : bool; cc_ops : list (op (T := float)); cc_res : list result; cc_final : list nat; cc_count : nat }.

(* 0 = agree; 1 + k = result of operation k differs; 1000 = final traversal differs; 1001 = count differs *)
Definition check_ccase (c : ccase) : nat :=
  let '(s, rs) := run fo (empty_sd (cc_ml c) (cc_dual c)) (cc_ops c) in
  match first_diff rs (cc_res c) 0 with
  | Some k => S k
  | None => if negb (nl_eqb (map cuid (items s)) (cc_final c)) then 1000 else if negb (Nat.eqb (ninserted s) (cc_count c)) then 1001 else 0
  end.

Fixpoint bad_ccases (l : list ccase) (k : nat) : list (nat * nat) :=
  match l with
  | [] => []
  | c :: t => let r := check_ccase c in if Nat.eqb r 0 then bad_ccases t (S k) else (k, r) :: bad_ccases t (S k)
  end.
