(* Executable model of SearchData / SearchDataDualQueue / CharacteristicsQueue (iOpt/method/search_data.py) as an
   ordered list of items plus one or two DEPQ-like priority queues, generic in the key type. *)
From Coq Require Import ZArith List Bool Lia.
From IOptV Require Import AGP.Ops AGP.Impl AGP.Laws AGP.Invariant.
Import ListNotations.

Section SData.
Context {T : Type} (o : Ops T).

Record citem := mkC { cuid : nat; cx : T; cR : T; cL : T }.   (* identity, coordinate, globalR, localR *)

Record sd := mkSd {
  items : list citem;            (* traversal order (linked list from the first item) *)
  gq : list (T * nat);           (* global characteristics queue *)
  lq : list (T * nat);           (* local characteristics queue (dual variant only) *)
  maxlen : option nat;
  dual : bool;
  ninserted : nat                (* len(_allTrials) *)
}.

Definition empty_sd (ml : option nat) (d : bool) : sd := mkSd [] [] [] ml d 0.

(* DEPQ.insert with optional maxlen: insert, then drop the last entry when the bound is exceeded *)
Definition bq_insert (ml : option nat) (q : list (T * nat)) (p : T) (u : nat) : list (T * nat) :=
  let q' := pq_insert o q p u in
  match ml with Some m => firstn m q' | None => q' end.

Definition q_refill (ml : option nat) (key : citem -> T) (l : list citem) : list (T * nat) :=
  fold_left (fun q it => bq_insert ml q (key it) (cuid it)) l [].

Definition find_item (l : list citem) (u : nat) : option citem := find (fun it => Nat.eqb (cuid it) u) l.

(* FindDataItemByOneDimensionalPoint: first item (in traversal order) whose coordinate is > x *)
Definition find_right (l : list citem) (x : T) : option citem := find (fun it => ltb o x (cx it)) l.

(* insert `n` immediately before the item with identity u *)
Fixpoint insert_before (l : list citem) (u : nat) (n : citem) : list citem :=
  match l with
  | [] => []
  | it :: t => if Nat.eqb (cuid it) u then n :: it :: t else it :: insert_before t u n
  end.

Inductive op :=
| InsertFirst (l r : citem)
| Insert (n : citem) (hint : option nat)
| ClearQ
| Refill
| GetBestG
| GetBestL
| Find (x : T)
| SetR (u : nat) (v : T)          (* the caller assigns item.globalR (a public attribute) *)
| SetL (u : nat) (v : T).

Inductive result := RNone | RItem (u : nat) | RFound (u : option nat) | RError.

Definition refill_all (s : sd) : sd :=
  mkSd (items s) (q_refill (maxlen s) cR (items s)) (if dual s then q_refill (maxlen s) cL (items s) else lq s) (maxlen s) (dual s) (ninserted s).


Definition keq (a b : T) : bool := leb o a b && leb o b a.     (* python == on keys of a total order *)

(* lazy invalidation loops of the dual variant: if the queue is empty RefillQueue() (both queues); pop; repeat while the
   popped entry's priority differs from the item's present characteristic. fuel = entries + items + 2 always suffices *)
Fixpoint gloop (fuel : nat) (st : sd) : sd * result :=
  match fuel with
  | O => (st, RError)
  | S f =>
    let st1 := match gq st with [] => refill_all st | _ => st end in
    match gq st1 with
    | [] => (st1, RError)
    | (pr2, u2) :: q2 =>
      let st2 := mkSd (items st1) q2 (lq st1) (maxlen st1) (dual st1) (ninserted st1) in
      match find_item (items st1) u2 with
      | None => (st2, RError)
      | Some it2 => if keq pr2 (cR it2) then (st2, RItem u2) else gloop f st2
      end
    end
  end.

Fixpoint lloop (fuel : nat) (st : sd) : sd * result :=
  match fuel with
  | O => (st, RError)
  | S f =>
    let st1 := match lq st with [] => refill_all st | _ => st end in
    match lq st1 with
    | [] => (st1, RError)
    | (pr2, u2) :: q2 =>
      let st2 := mkSd (items st1) (gq st1) q2 (maxlen st1) (dual st1) (ninserted st1) in
      match find_item (items st1) u2 with
      | None => (st2, RError)
      | Some it2 => if keq pr2 (cL it2) then (st2, RItem u2) else lloop f st2
      end
    end
  end.

Definition apply (s : sd) (x : op) : sd * result :=
  match x with
  | InsertFirst l r => (mkSd [l; r] (gq s) (lq s) (maxlen s) (dual s) (ninserted s + 2), RNone)
  | Insert n hint =>
    let right := match hint with Some u => find_item (items s) u | None => find_right (items s) (cx n) end in
    match right with
    | None => (s, RError)
    | Some r =>
      match items s with
      | [] => (s, RError)
      | f :: _ =>
        if Nat.eqb (cuid f) (cuid r) then (s, RError)     (* no left neighbour: AttributeError in the code *)
        else
          let its := insert_before (items s) (cuid r) n in
          let g1 := bq_insert (maxlen s) (gq s) (cR n) (cuid n) in
          let l1 := if dual s then bq_insert (maxlen s) (lq s) (cL n) (cuid n) else lq s in
          match hint with
          | Some _ =>
            let g2 := bq_insert (maxlen s) g1 (cR r) (cuid r) in
            let l2 := if dual s then bq_insert (maxlen s) l1 (cL r) (cuid r) else l1 in
            (mkSd its g2 l2 (maxlen s) (dual s) (S (ninserted s)), RNone)
          | None => (mkSd its g1 l1 (maxlen s) (dual s) (S (ninserted s)), RNone)
          end
      end
    end
  | ClearQ => (mkSd (items s) [] (if dual s then [] else lq s) (maxlen s) (dual s) (ninserted s), RNone)
  | Refill => (refill_all s, RNone)
  | GetBestG =>
    if dual s then gloop (length (gq s) + length (items s) + 2)%nat s
    else
      let q := match gq s with [] => q_refill (maxlen s) cR (items s) | _ => gq s end in
      match q with
      | [] => (s, RError)
      | (_, u) :: q' => (mkSd (items s) q' (lq s) (maxlen s) (dual s) (ninserted s), RItem u)
      end
  | GetBestL =>
    if dual s then lloop (length (lq s) + length (items s) + 2)%nat s
    else (s, RError)
  | Find x => (s, RFound (option_map cuid (find_right (items s) x)))
  | SetR u v => (mkSd (map (fun it => if Nat.eqb (cuid it) u then mkC (cuid it) (cx it) v (cL it) else it) (items s)) (gq s) (lq s) (maxlen s) (dual s) (ninserted s), RNone)
  | SetL u v => (mkSd (map (fun it => if Nat.eqb (cuid it) u then mkC (cuid it) (cx it) (cR it) v else it) (items s)) (gq s) (lq s) (maxlen s) (dual s) (ninserted s), RNone)
  end.

Fixpoint run (s : sd) (ops : list op) : sd * list result :=
  match ops with
  | [] => (s, [])
  | x :: t => let '(s1, r) := apply s x in let '(s2, rs) := run s1 t in (s2, r :: rs)
  end.

End SData.

Arguments mkC {T}. Arguments InsertFirst {T}. Arguments Insert {T}. Arguments ClearQ {T}. Arguments Refill {T}.
Arguments GetBestG {T}. Arguments GetBestL {T}. Arguments Find {T}. Arguments SetR {T}. Arguments SetL {T}.
