(* Properties of the container model: priority queues stay sorted, a best-interval request returns an entry of
   maximal queued priority (dual variant: a current entry, maximal among what is left), a bounded queue keeps the
   highest priorities, insertion at a valid position keeps the list strictly ordered, lookup returns the first item
   to the right. For every operation sequence (induction over the list of operations). *)
From Coq Require Import ZArith List Bool Lia.
From IOptV Require Import AGP.Ops AGP.Impl AGP.Laws AGP.Invariant Containers.SData.
Import ListNotations.

Section Props.
Context {T : Type} (o : Ops T) (L : OrdLaws o).
Notation sd := (sd (T := T)).
Notation citem := (citem (T := T)).

(* ---------- sorted queues ---------- *)
Lemma qsorted_firstn m : forall q, qsorted o q -> qsorted o (firstn m q).
Proof.
  induction m as [|m IH]; intros q H; [exact I|]. destruct q as [|a q]; [exact I|]. cbn [firstn].
  specialize (IH q (qsorted_tail o a q H)). destruct q as [|b q']; [destruct m; exact I|].
  destruct m as [|m']; [exact I|]. cbn [firstn] in *. cbn [qsorted] in *. destruct H as [H1 H2]. split; [exact H1 | exact IH].
Qed.

Lemma bq_insert_sorted ml q p u : qsorted o q -> qsorted o (bq_insert o ml q p u).
Proof. intros H. unfold bq_insert. destruct ml; [apply qsorted_firstn|]; apply (pq_insert_sorted o L); exact H. Qed.

(* a bounded queue retains the highest priorities: whatever is cut off is not larger than anything kept *)
Lemma In_skipn_In {A} (m : nat) : forall (l : list A) y, In y (skipn m l) -> In y l.
Proof. induction m as [|m IH]; intros l y H; [exact H|]. destruct l as [|a l]; [destruct H|]. right. apply IH. exact H. Qed.

Lemma sorted_prefix_dominates m : forall q, qsorted o q -> forall x y, In x (firstn m q) -> In y (skipn m q) -> leb o (fst y) (fst x) = true.
Proof.
  induction m as [|m IH]; intros q H x y Hx Hy; [destruct Hx|].
  destruct q as [|a q]; [destruct Hx|]. cbn [firstn skipn] in *. destruct Hx as [<-|Hx].
  - apply (qsorted_head o L _ _ H). apply (In_skipn_In m). exact Hy.
  - apply (IH q (qsorted_tail o a q H)); assumption.
Qed.

Theorem bounded_keeps_highest m q p u : qsorted o q ->
  forall kept dropped, In kept (bq_insert o (Some m) q p u) -> In dropped (skipn m (pq_insert o q p u)) -> leb o (fst dropped) (fst kept) = true.
Proof. intros H kept dropped Hk Hd. unfold bq_insert in Hk. eapply sorted_prefix_dominates; [apply (pq_insert_sorted o L); exact H | exact Hk | exact Hd]. Qed.

Lemma q_refill_sorted ml key (l : list citem) : qsorted o (q_refill o ml key l).
Proof.
  unfold q_refill. assert (G : forall q, qsorted o q -> qsorted o (fold_left (fun q it => bq_insert o ml q (key it) (cuid it)) l q)).
  { induction l as [|it l IH]; intros q H; cbn [fold_left]; [exact H|]. apply IH. apply bq_insert_sorted. exact H. }
  apply G. exact I.
Qed.

Definition Qs (s : sd) : Prop := qsorted o (gq s) /\ qsorted o (lq s).

Lemma refill_all_Qs s : Qs s -> Qs (refill_all o s).
Proof. intros [H1 H2]. unfold Qs, refill_all. cbn [gq lq]. split; [apply q_refill_sorted|]. destruct (dual s); [apply q_refill_sorted | exact H2]. Qed.

(* ---------- best-interval requests ---------- *)
(* single queue: the returned item's entry has maximal priority among the queued entries *)
Theorem best_single_is_max s s' u : dual s = false -> Qs s -> apply o s GetBestG = (s', RItem u) ->
  exists pr, (match gq s with [] => q_refill o (maxlen s) cR (items s) | _ => gq s end) = (pr, u) :: gq s' /\
             (forall e, In e (gq s') -> leb o (fst e) pr = true) /\ Qs s' /\ items s' = items s.
Proof.
  intros D [H1 H2]. cbn [apply]. rewrite D.
  set (q := match gq s with [] => q_refill o (maxlen s) cR (items s) | _ => gq s end).
  assert (Sq : qsorted o q) by (subst q; destruct (gq s); [apply q_refill_sorted | exact H1]).
  destruct q as [|[pr u0] q'] eqn:E; [discriminate|]. intros [= <- <-]. exists pr. cbn [gq lq items].
  split; [reflexivity|]. split; [intros e He; apply (qsorted_head o L _ _ Sq e He)|]. split; [split; [apply (qsorted_tail o _ _ Sq) | exact H2] | reflexivity].
Qed.

(* dual queue: the loop returns an entry whose priority equals the item's present characteristic, and nothing left
   in the queue has a larger priority *)
Lemma dual_loop_spec fuel : forall s s' u, Qs s -> gloop o fuel s = (s', RItem u) ->
  exists pr it, find_item (items s') u = Some it /\ keq o pr (cR it) = true /\
                (forall e, In e (gq s') -> leb o (fst e) pr = true) /\ Qs s' /\ items s' = items s.
Proof.
  induction fuel as [|f IH]; intros s s' u Q H; cbn [gloop] in H; [discriminate|].
  set (st1 := match gq s with [] => refill_all o s | _ => s end) in *.
  assert (Q1 : Qs st1) by (subst st1; destruct (gq s); [apply refill_all_Qs; exact Q | exact Q]).
  assert (I1 : items st1 = items s) by (subst st1; destruct (gq s); reflexivity).
  destruct (gq st1) as [|[pr2 u2] q2] eqn:E; [discriminate|].
  destruct Q1 as [Qa Qb]. rewrite E in Qa.
  destruct (find_item (items st1) u2) as [it2|] eqn:F; [|discriminate].
  destruct (keq o pr2 (cR it2)) eqn:K.
  - injection H as <- <-. exists pr2, it2. cbn [items gq lq]. split; [exact F|]. split; [exact K|].
    split; [intros e He; apply (qsorted_head o L _ _ Qa e He)|]. split; [split; [apply (qsorted_tail o _ _ Qa) | exact Qb] | exact I1].
  - apply IH in H; [|split; cbn [gq lq]; [apply (qsorted_tail o _ _ Qa) | exact Qb]].
    destruct H as (pr & it & H1 & H2 & H3 & H4 & H5). exists pr, it. cbn [items] in H5. split; [exact H1|]. split; [exact H2|]. split; [exact H3|]. split; [exact H4|]. rewrite H5. exact I1.
Qed.

Theorem best_dual_is_current_max s s' u : dual s = true -> Qs s -> apply o s GetBestG = (s', RItem u) ->
  exists pr it, find_item (items s') u = Some it /\ keq o pr (cR it) = true /\
                (forall e, In e (gq s') -> leb o (fst e) pr = true) /\ Qs s' /\ items s' = items s.
Proof. intros D Q. cbn [apply]. rewrite D. apply dual_loop_spec. exact Q. Qed.

(* ---------- ordered list ---------- *)
Fixpoint xsorted (l : list citem) : Prop :=
  match l with
  | a :: ((b :: _) as t) => ltb o (cx a) (cx b) = true /\ xsorted t
  | _ => True
  end.

Lemma find_right_spec (l : list citem) x r : find_right o l x = Some r ->
  exists A B, l = A ++ r :: B /\ ltb o x (cx r) = true /\ (forall a, In a A -> ltb o x (cx a) = false).
Proof.
  unfold find_right. induction l as [|h t IH]; cbn [find]; [discriminate|].
  destruct (ltb o x (cx h)) eqn:E.
  - intros [= <-]. exists [], t. split; [reflexivity|]. split; [exact E | intros a []].
  - intros H. destruct (IH H) as (A & B & -> & H1 & H2). exists (h :: A), B. split; [reflexivity|]. split; [exact H1|].
    intros a [<-|Ha]; [exact E | apply H2; exact Ha].
Qed.

(* lookup returns the first item to the right: in a sorted list, the item just before it is not to the right *)
Theorem find_right_is_covering (l : list citem) x r : find_right o l x = Some r ->
  exists A B, l = A ++ r :: B /\ ltb o x (cx r) = true /\ (forall a, In a A -> leb o (cx a) x = true).
Proof.
  intros H. destruct (find_right_spec l x r H) as (A & B & E & H1 & H2). exists A, B. split; [exact E|]. split; [exact H1|].
  intros a Ha. apply (ltb_false_leb o L). apply H2. exact Ha.
Qed.

Lemma insert_before_spec (l : list citem) u n r : find_item l u = Some r ->
  exists A B, l = A ++ r :: B /\ insert_before l u n = A ++ n :: r :: B /\ cuid r = u /\ (forall a, In a A -> cuid a <> u).
Proof.
  unfold find_item. induction l as [|h t IH]; cbn [find insert_before]; [discriminate|].
  destruct (Nat.eqb_spec (cuid h) u) as [E|E].
  - intros [= <-]. exists [], t. repeat split; try reflexivity; try exact E. intros a [].
  - intros H. destruct (IH H) as (A & B & -> & H1 & H2 & H3). exists (h :: A), B. cbn [app]. rewrite H1.
    repeat split; try reflexivity; try exact H2. intros a [<-|Ha]; [exact E | apply H3; exact Ha].
Qed.

Lemma xsorted_app (A : list citem) : forall a B, xsorted (A ++ a :: B) <-> xsorted (A ++ [a]) /\ xsorted (a :: B).
Proof.
  induction A as [|x A IH]; intros a B.
  - cbn. tauto.
  - destruct A as [|y A']; [cbn [app xsorted]; tauto|]. cbn [app xsorted] in *. specialize (IH a B). cbn [app] in IH. tauto.
Qed.

(* inserting strictly between its two neighbours keeps the list strictly ordered *)
Theorem insert_keeps_order (l : list citem) u n r A B : l = A ++ r :: B -> insert_before l u n = A ++ n :: r :: B ->
  xsorted l -> ltb o (cx n) (cx r) = true -> (forall p A', A = A' ++ [p] -> ltb o (cx p) (cx n) = true) -> xsorted (insert_before l u n).
Proof.
  intros -> -> S H1 H2. apply xsorted_app in S as [Sa Sb]. apply xsorted_app. split.
  - destruct A as [|a0 A0]; [exact I|].
    destruct (@exists_last _ (a0 :: A0) ltac:(discriminate)) as (A' & p & E). rewrite E in *.
    specialize (H2 p A' eq_refl). rewrite <- app_assoc in *. cbn [app] in *.
    apply xsorted_app in Sa as [Sa1 _]. apply xsorted_app. split; [exact Sa1|]. cbn. auto.
  - cbn [xsorted]. split; [exact H1 | exact Sb].
Qed.

(* count bookkeeping: every successful insertion adds exactly one item to the traversal *)
Theorem insert_count s n hint s' : apply o s (Insert n hint) = (s', RNone) ->
  ninserted s' = S (ninserted s) /\ length (items s') = S (length (items s)).
Proof.
  cbn [apply]. destruct (match hint with Some u => find_item (items s) u | None => find_right o (items s) (cx n) end) as [r|] eqn:E; [|discriminate].
  destruct (items s) as [|f t] eqn:Ei; [discriminate|]. destruct (Nat.eqb (cuid f) (cuid r)) eqn:Ef; [discriminate|].
  assert (Fi : find_item (f :: t) (cuid r) = Some r \/ True) by auto.
  assert (Len : forall (l : list citem) u, (exists x, find_item l u = Some x) -> length (insert_before l u n) = S (length l)).
  { clear. induction l as [|h t IH]; intros u [x Hx]; [discriminate|]. cbn [insert_before find_item find] in *.
    destruct (Nat.eqb (cuid h) u); [reflexivity|]. cbn [length]. f_equal. apply IH. exists x. exact Hx. }
  assert (Ex : exists x, find_item (f :: t) (cuid r) = Some x).
  { destruct hint as [u|].
    - unfold find_item in E. pose proof (find_some _ _ E) as [Hin Hu]. apply Nat.eqb_eq in Hu.
      unfold find_item. destruct (find (fun it => Nat.eqb (cuid it) (cuid r)) (f :: t)) eqn:F; [eauto|].
      exfalso. apply (find_none _ _ F r) in Hin. rewrite Nat.eqb_refl in Hin. discriminate.
    - unfold find_right in E. pose proof (find_some _ _ E) as [Hin _].
      unfold find_item. destruct (find (fun it => Nat.eqb (cuid it) (cuid r)) (f :: t)) eqn:F; [eauto|].
      exfalso. apply (find_none _ _ F r) in Hin. rewrite Nat.eqb_refl in Hin. discriminate. }
  destruct hint; intros [= <-]; cbn [ninserted items]; (split; [reflexivity | change (length (insert_before (f :: t) (cuid r) n) = S (length (f :: t))); apply Len; exact Ex]).
Qed.

(* every operation keeps both queues sorted *)
Lemma gloop_Qs fuel : forall s s' r, Qs s -> gloop o fuel s = (s', r) -> Qs s'.
Proof.
  induction fuel as [|f IH]; intros s s' r Q H; cbn [gloop] in H; [injection H as <- _; exact Q|].
  set (st1 := match gq s with [] => refill_all o s | _ => s end) in *.
  assert (Q1 : Qs st1) by (subst st1; destruct (gq s); [apply refill_all_Qs; exact Q | exact Q]).
  destruct (gq st1) as [|[pr2 u2] q2] eqn:E; [injection H as <- _; exact Q1|].
  destruct Q1 as [Qa Qb]. rewrite E in Qa.
  assert (Q2 : Qs (mkSd (items st1) q2 (lq st1) (maxlen st1) (dual st1) (ninserted st1))) by (split; cbn [gq lq]; [apply (qsorted_tail o _ _ Qa) | exact Qb]).
  destruct (find_item (items st1) u2); [|injection H as <- _; exact Q2].
  destruct (keq o pr2 (cR c)); [injection H as <- _; exact Q2 | eapply IH; [exact Q2 | exact H]].
Qed.

Lemma lloop_Qs fuel : forall s s' r, Qs s -> lloop o fuel s = (s', r) -> Qs s'.
Proof.
  induction fuel as [|f IH]; intros s s' r Q H; cbn [lloop] in H; [injection H as <- _; exact Q|].
  set (st1 := match lq s with [] => refill_all o s | _ => s end) in *.
  assert (Q1 : Qs st1) by (subst st1; destruct (lq s); [apply refill_all_Qs; exact Q | exact Q]).
  destruct (lq st1) as [|[pr2 u2] q2] eqn:E; [injection H as <- _; exact Q1|].
  destruct Q1 as [Qa Qb]. rewrite E in Qb.
  assert (Q2 : Qs (mkSd (items st1) (gq st1) q2 (maxlen st1) (dual st1) (ninserted st1))) by (split; cbn [gq lq]; [exact Qa | apply (qsorted_tail o _ _ Qb)]).
  destruct (find_item (items st1) u2); [|injection H as <- _; exact Q2].
  destruct (keq o pr2 (cL c)); [injection H as <- _; exact Q2 | eapply IH; [exact Q2 | exact H]].
Qed.

Theorem apply_keeps_sorted s x s' r : Qs s -> apply o s x = (s', r) -> Qs s'.
Proof.
  intros Q H. pose proof Q as [Q1 Q2]. destruct x; cbn [apply] in H.
  - injection H as <- _. exact Q.
  - destruct (match hint with Some u => find_item (items s) u | None => find_right o (items s) (cx n) end); [|injection H as <- _; exact Q].
    destruct (items s); [injection H as <- _; exact Q|]. destruct (Nat.eqb _ _); [injection H as <- _; exact Q|].
    destruct hint; injection H as <- _; unfold Qs; cbn [gq lq]; (split; [repeat apply bq_insert_sorted; exact Q1 | destruct (dual s); [repeat apply bq_insert_sorted|]; exact Q2]).
  - injection H as <- _. unfold Qs. cbn [gq lq]. split; [exact I | destruct (dual s); [exact I | exact Q2]].
  - injection H as <- _. apply refill_all_Qs. exact Q.
  - destruct (dual s); [eapply gloop_Qs; [exact Q | exact H]|].
    set (q := match gq s with [] => q_refill o (maxlen s) cR (items s) | _ => gq s end) in *.
    assert (Sq : qsorted o q) by (subst q; destruct (gq s); [apply q_refill_sorted | exact Q1]).
    destruct q as [|[pr u0] q']; injection H as <- _; [exact Q|]. split; cbn [gq lq]; [apply (qsorted_tail o _ _ Sq) | exact Q2].
  - destruct (dual s); [eapply lloop_Qs; [exact Q | exact H] | injection H as <- _; exact Q].
  - injection H as <- _. exact Q.
  - injection H as <- _. exact Q.
  - injection H as <- _. exact Q.
Qed.

(* hence after ANY sequence of operations from the empty container *)
Theorem run_keeps_sorted ops : forall s s' rs, Qs s -> run o s ops = (s', rs) -> Qs s'.
Proof.
  induction ops as [|x t IH]; intros s s' rs Q H; cbn [run] in H; [injection H as <- _; exact Q|].
  destruct (apply o s x) as [s1 r] eqn:E. destruct (run o s1 t) as [s2 rs2] eqn:E2. injection H as <- _.
  eapply IH; [eapply apply_keeps_sorted; [exact Q | exact E] | exact E2].
Qed.

End Props.
