(* C17 on the GENERATED state-passing model: the scratch vector yValues is the only attribute the queries write,
   and no query result depends on its previous content (so no result depends on earlier queries). *)
From Coq Require Import ZArith QArith List Bool Lia.
From IOptV Require Import gen.EvolventGen.
Import ListNotations.

Definition same_config (o o' : eobj) : Prop :=
  eN o = eN o' /\ em o = em o' /\ enexp o = enexp o' /\ elo o = elo o' /\ ehi o = ehi o' /\ enexpValue o = enexpValue o'.

Definition wf (o : eobj) : Prop := length (ey o) = eN o /\ (1 <= eN o)%nat.


Lemma gen_image_pure o o' x : same_config o o' -> wf o -> wf o' -> fst (gen_image o x) = fst (gen_image o' x).
Proof.
  destruct o as [N m nx lo hi y nv], o' as [N' m' nx' lo' hi' y' nv']. unfold same_config, wf. cbn [eN em enexp elo ehi ey enexpValue].
  intros (<- & <- & <- & <- & <- & <-) [L H1] [L' _].
  unfold gen_image, genGetImage, gen_Evolvent__GetYonX. cbn [eN em enexp elo ehi ey enexpValue].
  destruct (Nat.eqb N 1) eqn:E.
  - apply Nat.eqb_eq in E. rewrite E in *. destruct y as [|a [|? ?]]; cbn in L; try discriminate L. destruct y' as [|a' [|? ?]]; cbn in L'; try discriminate L'. reflexivity.
  - reflexivity.
Qed.

Lemma gen_inverse_pure o o' y : same_config o o' -> fst (gen_inverse o y) = fst (gen_inverse o' y).
Proof.
  destruct o as [N m nx lo hi y0 nv], o' as [N' m' nx' lo' hi' y0' nv']. unfold same_config. cbn [eN em enexp elo ehi ey enexpValue].
  intros (<- & <- & <- & <- & <- & <-). reflexivity.
Qed.

Lemma gen_preimages_pure o o' y : same_config o o' -> fst (gen_preimages o y) = fst (gen_preimages o' y).
Proof.
  destruct o as [N m nx lo hi y0 nv], o' as [N' m' nx' lo' hi' y0' nv']. unfold same_config. cbn [eN em enexp elo ehi ey enexpValue].
  intros (<- & <- & <- & <- & <- & <-). reflexivity.
Qed.

(* GetPreimages and GetInverseImage are the same function *)
Lemma gen_preimages_is_inverse o y : gen_preimages o y = gen_inverse o y.
Proof. reflexivity. Qed.

(* queries only write the scratch vector: configuration is preserved *)
Lemma gen_image_frame o x : same_config (snd (gen_image o x)) o.
Proof. unfold gen_image. destruct (genGetImage _ _ _ _ _ _ _ _) as [r w]. cbn. unfold same_config. cbn. repeat split. Qed.
Lemma gen_inverse_frame o y : same_config (snd (gen_inverse o y)) o.
Proof. unfold gen_inverse. destruct (genGetInverseImage _ _ _ _ _ _ _ _) as [r w]. cbn. unfold same_config. cbn. repeat split. Qed.
Lemma gen_preimages_frame o y : same_config (snd (gen_preimages o y)) o.
Proof. unfold gen_preimages. destruct (genGetPreimages _ _ _ _ _ _ _ _) as [r w]. cbn. unfold same_config. cbn. repeat split. Qed.
Lemma gen_setbounds_frame o lo hi :
  let o' := gen_setbounds o lo hi in eN o' = eN o /\ em o' = em o /\ enexp o' = enexp o /\ ey o' = ey o /\ elo o' = lo /\ ehi o' = hi.
Proof. unfold gen_setbounds, genSetBounds. cbn. repeat split. Qed.
