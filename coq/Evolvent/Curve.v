(* Index-level statements: subinterval number i in [0, 2^(n*m)) <-> digit string <-> grid cell. *)
From Coq Require Import ZArith List Lia Bool.
From IOptV Require Import Evolvent.Ev Evolvent.Adj Evolvent.Bij.
Import ListNotations.
Open Scope Z_scope.

Definition B (n k : nat) : Z := 2 ^ Z.of_nat (n * k).

Lemma B_pos n k : 0 < B n k. Proof. apply Z.pow_pos_nonneg; lia. Qed.
Lemma B_0 n : B n 0 = 1. Proof. unfold B. rewrite Nat.mul_0_r. reflexivity. Qed.
Lemma B_S n k : B n (S k) = 2 ^ Z.of_nat n * B n k.
Proof. unfold B. replace (Z.of_nat (n * S k)) with (Z.of_nat n + Z.of_nat (n * k)) by lia. apply Z.pow_add_r; lia. Qed.

Fixpoint digits_of (n m : nat) (i : Z) : list Z :=
  match m with
  | O => []
  | S m' => (i / B n m') :: digits_of n m' (i mod B n m')
  end.

Fixpoint index_of (n : nat) (ds : list Z) : Z :=
  match ds with
  | [] => 0
  | d :: t => d * B n (length t) + index_of n t
  end.

Lemma digits_len n m : forall i, length (digits_of n m i) = m.
Proof. induction m as [|m IH]; intros i; cbn [digits_of length]; [reflexivity | f_equal; apply IH]. Qed.

Lemma digits_okd n m : forall i, 0 <= i < B n m -> Forall (okd n) (digits_of n m i).
Proof.
  induction m as [|m IH]; intros i Hi; cbn [digits_of]; constructor.
  - apply okd_iff. pose proof (B_pos n m). rewrite B_S in Hi. split.
    + apply Z.div_pos; lia.
    + apply Z.div_lt_upper_bound; lia.
  - apply IH. apply Z.mod_pos_bound. apply B_pos.
Qed.

Lemma index_digits n m : forall i, 0 <= i < B n m -> index_of n (digits_of n m i) = i.
Proof.
  induction m as [|m IH]; intros i Hi; cbn [digits_of index_of].
  - rewrite B_0 in Hi. lia.
  - pose proof (B_pos n m). rewrite digits_len, IH by (apply Z.mod_pos_bound; lia).
    rewrite (Z.div_mod i (B n m)) at 3 by lia. lia.
Qed.

Lemma index_range n ds : Forall (okd n) ds -> 0 <= index_of n ds < B n (length ds).
Proof.
  induction ds as [|d t IH]; intros F; cbn [index_of length].
  - rewrite B_0. lia.
  - inversion F as [|? ? Hd Ht]; subst. apply okd_iff in Hd. specialize (IH Ht). rewrite B_S.
    pose proof (B_pos n (length t)). nia.
Qed.

Lemma digits_index n ds : Forall (okd n) ds -> digits_of n (length ds) (index_of n ds) = ds.
Proof.
  induction ds as [|d t IH]; intros F; cbn [index_of length digits_of]; [reflexivity|].
  inversion F as [|? ? Hd Ht]; subst. pose proof (index_range n t Ht) as R. pose proof (B_pos n (length t)).
  replace (d * B n (length t) + index_of n t) with (index_of n t + d * B n (length t)) by lia.
  rewrite Z.div_add, Z.mod_add by lia. rewrite Z.div_small, Z.mod_small by lia. cbn. f_equal. apply IH. exact Ht.
Qed.

Lemma digits_zero n m : digits_of n m 0 = repeat 0 m.
Proof. induction m as [|m IH]; cbn [digits_of repeat]; [reflexivity|]. rewrite Z.div_0_l, Z.mod_0_l by (pose proof (B_pos n m); lia). f_equal. exact IH. Qed.

Lemma digits_max n m : digits_of n m (B n m - 1) = repeat (last n) m.
Proof.
  induction m as [|m IH]; cbn [digits_of repeat]; [reflexivity|].
  pose proof (B_pos n m). assert (0 < 2 ^ Z.of_nat n) by (apply Z.pow_pos_nonneg; lia).
  rewrite B_S. replace (2 ^ Z.of_nat n * B n m - 1) with ((B n m - 1) + (2 ^ Z.of_nat n - 1) * B n m) by lia.
  rewrite Z.div_add, Z.mod_add by lia. rewrite Z.div_small, Z.mod_small by lia. unfold last. f_equal. exact IH.
Qed.

Lemma in_pred_digits n d : 0 <= d < 2 ^ Z.of_nat n - 1 -> In d (map Z.of_nat (seq 0 (2 ^ n - 1))).
Proof.
  intros H. apply in_map_iff. exists (Z.to_nat d). split; [lia|]. apply in_seq.
  assert (Z.of_nat (2 ^ n) = 2 ^ Z.of_nat n) by (rewrite Nat2Z.inj_pow; reflexivity). lia.
Qed.

Lemma digits_succ n m : forall i, 0 <= i -> i + 1 < B n m -> succ_rel n (digits_of n m i) (digits_of n m (i + 1)).
Proof.
  induction m as [|m IH]; intros i H0 H1.
  - rewrite B_0 in H1. lia.
  - cbn [digits_of]. pose proof (B_pos n m) as HB. rewrite B_S in H1.
    assert (Hp : 0 < 2 ^ Z.of_nat n) by (apply Z.pow_pos_nonneg; lia).
    pose proof (Z.div_mod i (B n m) ltac:(lia)) as E. pose proof (Z.mod_pos_bound i (B n m) HB) as Hr.
    set (q := i / B n m) in *. set (r := i mod B n m) in *.
    assert (Hq : 0 <= q < 2 ^ Z.of_nat n) by (split; [apply Z.div_pos; lia | apply Z.div_lt_upper_bound; lia]).
    destruct (Z.eq_dec r (B n m - 1)) as [Hlast | Hnot].
    + (* carry *)
      assert (E1 : (i + 1) / B n m = q + 1).
      { replace (i + 1) with (0 + (q + 1) * B n m) by lia. rewrite Z.div_add by lia. rewrite Z.div_0_l by lia. lia. }
      assert (E2 : (i + 1) mod B n m = 0).
      { replace (i + 1) with (0 + (q + 1) * B n m) by lia. rewrite Z.mod_add by lia. apply Z.mod_0_l. lia. }
      rewrite E1, E2, Hlast, digits_max, digits_zero.
      assert (q + 1 < 2 ^ Z.of_nat n) by nia.
      apply sr_here; [apply in_pred_digits; lia | apply okd_iff; lia | apply okd_iff; lia].
    + assert (E1 : (i + 1) / B n m = q).
      { replace (i + 1) with ((r + 1) + q * B n m) by lia. rewrite Z.div_add by lia. rewrite Z.div_small by lia. lia. }
      assert (E2 : (i + 1) mod B n m = r + 1).
      { replace (i + 1) with ((r + 1) + q * B n m) by lia. rewrite Z.mod_add by lia. apply Z.mod_small. lia. }
      rewrite E1, E2. apply sr_there; [apply okd_iff; lia | apply IH; lia].
Qed.

(* ---- prefixes: nesting of the grids ---- *)
Fixpoint state_after (n : nat) (s : state) (ds : list Z) : state :=
  match ds with [] => s | d :: t => state_after n (fst (step n s d)) t end.

Lemma vadd_assoc a : forall b c, vadd (vadd a b) c = vadd a (vadd b c).
Proof. unfold vadd. induction a as [|x a IH]; intros [|y b] [|z c]; cbn [map2]; try reflexivity. rewrite IH. f_equal. lia. Qed.
Lemma map_vadd_scale P a : forall b, map (fun z => z * P) (vadd a b) = vadd (map (fun z => z * P) a) (map (fun z => z * P) b).
Proof. unfold vadd. induction a as [|x a IH]; intros [|y b]; cbn [map2 map]; try reflexivity. rewrite IH. f_equal. lia. Qed.

Section Dim.
Variable n : nat.
Hypothesis Hall : all_ok n = true.

Lemma state_after_closed ds : forall s, In s (all_states n) -> Forall (okd n) ds -> In (state_after n s ds) (all_states n).
Proof.
  induction ds as [|d t IH]; intros s Hs F; cbn [state_after]; [exact Hs|].
  inversion F; subst. apply IH; [apply (loc_closed n Hall); assumption | assumption].
Qed.

Lemma zeros_vadd P : forall k (c : list Z), length c = k -> vadd (map (fun z => z * P) (repeat 0 k)) c = c.
Proof. unfold vadd. induction k as [|k IHk]; intros [|x c] L; cbn [repeat map map2 length] in *; try discriminate; try reflexivity.
  f_equal; try lia. apply IHk; lia. Qed.

Lemma vadd_len a : forall b, length a = length b -> length (vadd a b) = length a.
Proof. unfold vadd. induction a as [|x a IH]; intros [|y b] L; cbn [map2 length] in *; try discriminate; try reflexivity. f_equal. apply IH. lia. Qed.

Lemma cell_app ds : forall s es, In s (all_states n) -> Forall (okd n) ds -> Forall (okd n) es ->
  cell n s (ds ++ es) = vadd (map (fun z => z * 2 ^ Z.of_nat (length es)) (cell n s ds)) (cell n (state_after n s ds) es).
Proof.
  induction ds as [|d t IH]; intros s es Hs Fd Fe.
  - cbn [app state_after]. change (cell n s []) with (repeat 0 n). symmetry. apply zeros_vadd. apply (cell_len n Hall); assumption.
  - inversion Fd as [|? ? Hd Ht]; subst. cbn [app state_after]. rewrite !(cell_cons n).
    pose proof (loc_closed n Hall s d Hs Hd) as Hs'.
    rewrite IH by assumption. rewrite app_length, map_vadd_scale, vadd_assoc, map_map.
    f_equal. apply map_ext. intros x. rewrite Nat2Z.inj_add, Z.pow_add_r by lia. lia.
Qed.

Lemma div_vadd P a : forall r, 0 < P -> length a = length r -> inrange P r ->
  map (fun z => z / P) (vadd (map (fun z => z * P) a) r) = a.
Proof.
  unfold vadd, inrange. induction a as [|x a IH]; intros [|y r] HP L R; cbn [map map2 length] in *; try discriminate; try reflexivity.
  inversion R; subst. f_equal; [|apply IH; [assumption | lia | assumption]].
  rewrite Z.add_comm, Z.div_add by lia. rewrite Z.div_small by lia. lia.
Qed.

(* the cell of a prefix is the cell of the whole string, coarsened *)
Theorem cell_prefix ds es s : In s (all_states n) -> Forall (okd n) ds -> Forall (okd n) es ->
  map (fun z => z / 2 ^ Z.of_nat (length es)) (cell n s (ds ++ es)) = cell n s ds.
Proof.
  intros Hs Fd Fe. rewrite cell_app by assumption. apply div_vadd.
  - apply Z.pow_pos_nonneg; lia.
  - rewrite !(cell_len n Hall); try assumption; [reflexivity | apply state_after_closed; assumption].
  - apply (cell_range n Hall); [apply state_after_closed; assumption | assumption].
Qed.

(* ---------------- index-level theorems ---------------- *)
Definition cellI (m : nat) (i : Z) : list Z := cell n (init n) (digits_of n m i).

Theorem cellI_in_grid m i : 0 <= i < B n m -> length (cellI m i) = n /\ inrange (2 ^ Z.of_nat m) (cellI m i).
Proof.
  intros Hi. pose proof (digits_okd n m i Hi) as F. split.
  - apply (cell_len n Hall); [apply (init_state n Hall) | exact F].
  - rewrite <- (digits_len n m i) at 1. apply (cell_range n Hall); [apply (init_state n Hall) | exact F].
Qed.

Theorem cellI_injective m i j : 0 <= i < B n m -> 0 <= j < B n m -> cellI m i = cellI m j -> i = j.
Proof.
  intros Hi Hj E. unfold cellI in E.
  apply (cell_injective n Hall) in E; try (apply digits_okd; assumption); try apply (init_state n Hall).
  - rewrite <- (index_digits n m i Hi), <- (index_digits n m j Hj), E. reflexivity.
  - rewrite !digits_len. reflexivity.
Qed.

Theorem cellI_surjective m c : length c = n -> inrange (2 ^ Z.of_nat m) c -> exists i, 0 <= i < B n m /\ cellI m i = c.
Proof.
  intros L R. destruct (cell_surjective n Hall m (init n) c (init_state n Hall) L R) as [ds [F [Lk E]]].
  exists (index_of n ds). split.
  - rewrite <- Lk. apply index_range. exact F.
  - unfold cellI. rewrite <- Lk, digits_index by exact F. exact E.
Qed.

Theorem cellI_adjacent m i : 0 <= i -> i + 1 < B n m -> adjacent (cellI m i) (cellI m (i + 1)).
Proof.
  intros H0 H1. unfold cellI. apply (consecutive_adjacent n Hall); [apply digits_succ; assumption | apply (init_state n Hall)].
Qed.

Lemma digits_app m k : forall i, 0 <= i < B n (m + k) ->
  digits_of n (m + k) i = digits_of n m (i / B n k) ++ digits_of n k (i mod B n k).
Proof.
  induction m as [|m IH]; intros i Hi.
  - cbn [Nat.add digits_of app]. cbn [Nat.add] in Hi. rewrite Z.mod_small by lia. reflexivity.
  - cbn [Nat.add digits_of app]. cbn [Nat.add] in Hi.
    pose proof (B_pos n k) as Pk. pose proof (B_pos n m) as Pm. pose proof (B_pos n (m + k)) as Pmk.
    assert (EB : B n (m + k) = B n m * B n k).
    { unfold B. rewrite <- Z.pow_add_r by lia. f_equal. lia. }
    assert (E0 : i / B n (m + k) = i / B n k / B n m) by (rewrite EB, Z.div_div by lia; f_equal; lia).
    assert (E1 : (i mod B n (m + k)) / B n k = (i / B n k) mod B n m).
    { rewrite EB, (Z.mul_comm (B n m)). rewrite Z.rem_mul_r by lia.
      replace (i mod B n k + B n k * ((i / B n k) mod B n m)) with (i mod B n k + ((i / B n k) mod B n m) * B n k) by lia.
      rewrite Z.div_add by lia. rewrite Z.div_small by (apply Z.mod_pos_bound; lia). lia. }
    assert (E2 : (i mod B n (m + k)) mod B n k = i mod B n k).
    { rewrite EB, (Z.mul_comm (B n m)). rewrite Z.rem_mul_r by lia.
      replace (i mod B n k + B n k * ((i / B n k) mod B n m)) with (i mod B n k + ((i / B n k) mod B n m) * B n k) by lia.
      rewrite Z.mod_add by lia. apply Z.mod_mod. lia. }
    rewrite IH by (apply Z.mod_pos_bound; lia). rewrite E0, E1, E2. reflexivity.
Qed.

(* nesting: the cell of subinterval i at density m+k, coarsened by 2^k, is the density-m cell of subinterval i / 2^(n k) *)
Theorem cellI_nested m k i : 0 <= i < B n (m + k) ->
  map (fun z => z / 2 ^ Z.of_nat k) (cellI (m + k) i) = cellI m (i / B n k).
Proof.
  intros Hi. unfold cellI. rewrite digits_app by exact Hi.
  pose proof (B_pos n k) as Pk.
  assert (EB : B n (m + k) = B n m * B n k).
  { unfold B. rewrite <- Z.pow_add_r by lia. f_equal. lia. }
  pose proof (cell_prefix (digits_of n m (i / B n k)) (digits_of n k (i mod B n k)) (init n) (init_state n Hall)) as P.
  rewrite digits_len in P. apply P; apply digits_okd.
  - pose proof (B_pos n m). split; [apply Z.div_pos; lia | apply Z.div_lt_upper_bound; lia].
  - apply Z.mod_pos_bound. lia.
Qed.

End Dim.
