(* Clean (hand-written) model of the Peano-Hilbert evolvent of iOpt/evolvent/evolvent.py over Z.
   node  = __CalculateNode, step = one level of __GetYonX, numbr = __CalculateNumbr, inv_step = one level of __GetXonY.
   Tied to the source by Bridge.v (generated model, finite domains) and by the run-time correspondence check. *)
From Coq Require Import ZArith List Lia Bool.
Import ListNotations.
Open Scope Z_scope.

(* ---------- model of __CalculateNode over Z ---------- *)
Fixpoint upd {A} (l : list A) (i : nat) (a : A) : list A :=
  match l, i with
  | [], _ => []
  | _ :: t, O => a :: t
  | h :: t, S i => h :: upd t i a
  end.
Definition nthZ (l : list Z) (i : nat) := nth i l 0.

(* loop of the general branch: i from 0 to n-1; state (iff, iis, k1, l, iq, acc(u=v reversed)) *)
Fixpoint node_loop (cnt : nat) (i : nat) (iff iis k1 : Z) (l : nat) (iq : Z) (acc : list Z)
  : nat * Z * list Z :=
  match cnt with
  | O => (l, iq, rev acc)
  | S cnt' =>
    let iff := iff / 2 in
    if iff <=? iis then
      let '(l, iq) := if (iis =? iff) && negb (iis =? 1) then (i, -1) else (l, iq) in
      let j := - k1 * 1 in
      node_loop cnt' (S i) iff (iis - iff) 1 l iq (j :: acc)
    else
      let '(l, iq) := if (iis =? iff - 1) && negb (iis =? 0) then (i, 1) else (l, iq) in
      let j := - k1 * -1 in
      node_loop cnt' (S i) iff iis (-1) l iq (j :: acc)
  end.

Definition node (n : nat) (iis : Z) : nat * list Z * list Z :=
  let n1 := (n - 1)%nat in
  if iis =? 0 then (n1, repeat (-1) n, repeat (-1) n)
  else if iis =? 2 ^ Z.of_nat n - 1 then
    (n1, 1 :: repeat (-1) n1, upd (1 :: repeat (-1) n1) n1 1)
  else
    let '(l, iq, uv) := node_loop n 0 (2 ^ Z.of_nat n) iis (-1) 0%nat 1 [] in
    let v := upd uv l (nthZ uv l * iq) in
    let v := upd v n1 (- nthZ v n1) in
    (l, uv, v).

Definition swap0 (it : nat) (l : list Z) : list Z :=
  let a := nthZ l 0 in let b := nthZ l it in upd (upd l 0 b) it a.

Fixpoint map2 (f : Z -> Z -> Z) (a b : list Z) : list Z :=
  match a, b with x :: a, y :: b => f x y :: map2 f a b | _, _ => [] end.

Definition state := (nat * list Z)%type.
Definition step (n : nat) (s : state) (d : Z) : state * list Z :=
  let '(it, iw) := s in
  let '(l, u, v) := node n d in
  let u := swap0 it u in
  let v := swap0 it v in
  let l := if Nat.eqb l 0 then it else if Nat.eqb l it then 0%nat else l in
  let out := map2 Z.mul u iw in
  let iw := map2 (fun w v => w * - v) iw v in
  ((l, iw), out).

Definition init (n : nat) : state := (0%nat, repeat 1 n).

(* cell coordinates: bits b = (u+1)/2 ; coordinate vector in [0,2^m)^n *)
Definition bit (u : Z) : Z := if 0 <? u then 1 else 0.
Fixpoint cell (n : nat) (s : state) (ds : list Z) : list Z :=
  match ds with
  | [] => repeat 0 n
  | d :: ds' =>
    let '(s', u) := step n s d in
    map2 Z.add (map (fun x => bit x * 2 ^ Z.of_nat (length ds')) u) (cell n s' ds')
  end.

(* ---------- finite local lemmas ---------- *)
Fixpoint signvecs (n : nat) : list (list Z) :=
  match n with O => [[]] | S n => flat_map (fun v => [1 :: v; -1 :: v]) (signvecs n) end.
Definition all_states (n : nat) : list state :=
  flat_map (fun it => map (fun w => (it, w)) (signvecs n)) (seq 0 n).
Definition digits (n : nat) : list Z := map Z.of_nat (seq 0 (2 ^ n)).
Definition last (n : nat) : Z := 2 ^ Z.of_nat n - 1.
Definition entry n s := snd (step n s 0).
Definition exit_ n s := snd (step n s (last n)).
Definition veq (a b : list Z) := if list_eq_dec Z.eq_dec a b then true else false.
Definition steq (a b : state) := Nat.eqb (fst a) (fst b) && veq (snd a) (snd b).

(* number of differing coordinates and the agreement conditions *)
Fixpoint local_pair (u1 u2 x1 e2 : list Z) : option nat (* count of differing coords, None if corner cond fails *) :=
  match u1, u2, x1, e2 with
  | a :: u1, b :: u2, x :: x1, e :: e2 =>
    match local_pair u1 u2 x1 e2 with
    | None => None
    | Some k =>
      if a =? b then (if x =? e then Some k else None)
      else (if (x =? b) && (e =? a) then Some (S k) else None)
    end
  | [], [], [], [] => Some O
  | _, _, _, _ => None
  end.

Definition local_ok (n : nat) (s : state) : bool :=
  let nx d := fst (step n s d) in
  let u d := snd (step n s d) in
  veq (entry n (nx 0)) (entry n s) && veq (exit_ n (nx (last n))) (exit_ n s) &&
  forallb (fun d => match local_pair (u d) (u (d+1)) (exit_ n (nx d)) (entry n (nx (d+1))) with
                    | Some 1%nat => true | _ => false end)
          (map Z.of_nat (seq 0 (2 ^ n - 1))) &&
  forallb (fun d => existsb (steq (nx d)) (all_states n)) (digits n) &&
  forallb (fun d => Nat.eqb (length (u d)) n && forallb (fun z => (z =? 1) || (z =? -1)) (u d)) (digits n).


(* ---------- model of __CalculateNumbr and one level of __GetXonY ---------- *)
Fixpoint numbr_loop (us : list Z) (i : nat) (iff k1 : Z) (l1 l : nat) (iis : Z) : nat * nat * Z :=
  match us with
  | [] => (l1, l, iis)
  | u :: us' =>
    let iff := iff / 2 in
    let k2 := - k1 * u in
    if k2 <? 0 then numbr_loop us' (S i) iff k2 i l iis
    else numbr_loop us' (S i) iff k2 l1 i (iis + iff)
  end.

Definition numbr (n : nat) (u : list Z) : Z * nat * list Z :=
  let n1 := (n - 1)%nat in
  let '(l1, l, iis) := numbr_loop u 0 (2 ^ Z.of_nat n) (-1) 0%nat 0%nat 0 in
  if iis =? 0 then (iis, n1, u)
  else
    let v := upd u n1 (- nthZ u n1) in
    if iis =? 2 ^ Z.of_nat n - 1 then (iis, n1, v)
    else if Nat.eqb l1 n1 then (iis, l, upd v l (- nthZ v l)) else (iis, l1, v).

Definition inv_step (n : nat) (s : state) (sgn : list Z) : state * Z :=
  let '(it, w) := s in
  let u := swap0 it (map2 Z.mul sgn w) in
  let '(iis, l, v) := numbr n u in
  let v := swap0 it v in
  let w' := map2 (fun w v => w * - v) w v in
  let l := if Nat.eqb l 0 then it else if Nat.eqb l it then 0%nat else l in
  ((l, w'), iis).

Definition inv_ok (n : nat) (s : state) : bool :=
  forallb (fun d => let '(s', u) := step n s d in let '(s'', d') := inv_step n s u in steq s' s'' && (d =? d')) (digits n) &&
  forallb (fun w => let '(_, d) := inv_step n s w in
                    existsb (Z.eqb d) (digits n) && veq (snd (step n s d)) w) (signvecs n).

Definition all_ok (n : nat) : bool :=
  forallb (local_ok n) (all_states n) && forallb (inv_ok n) (all_states n) &&
  existsb (steq (init n)) (all_states n) && existsb (Z.eqb 0) (digits n) && existsb (Z.eqb (last n)) (digits n).

(* Finite facts: every orientation state (N * 2^N of them) x every digit (2^N) / sign vector (2^N), N = 2..5.
   Complete enumeration evaluated by the kernel's VM: proofs, not samples. *)
Lemma all_ok_2 : all_ok 2 = true. Proof. vm_compute. reflexivity. Qed.
Lemma all_ok_3 : all_ok 3 = true. Proof. vm_compute. reflexivity. Qed.
Lemma all_ok_4 : all_ok 4 = true. Proof. vm_compute. reflexivity. Qed.
Lemma all_ok_5 : all_ok 5 = true. Proof. vm_compute. reflexivity. Qed.
