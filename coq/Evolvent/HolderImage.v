(* C08's inequality for the images themselves: for points x, x' of [0,1] (rationals, as in Image.v), an arbitrary box and every
   density m >= 1:   ||image x - image x'||_2 <= 2 sqrt(N+3) |x - x'|^(1/N) * S   whenever |x - x'| >= 2^(-N m),
   S any bound on the box sides. *)
From Coq Require Import ZArith QArith Qround Qreals Reals List Lia Lra Psatz.
From IOptV Require Import Evolvent.Ev Evolvent.Adj Evolvent.Bij Evolvent.Curve Evolvent.Holder Evolvent.Image Evolvent.HolderReal.
Import ListNotations.

Fixpoint qdist2 (a b : list Q) : Q :=
  match a, b with
  | x :: a', y :: b' => (x - y) * (x - y) + qdist2 a' b'
  | _, _ => 0
  end.

Lemma Q2R_inject_Z z : Q2R (inject_Z z) = IZR z.
Proof. unfold Q2R, inject_Z. simpl. field. Qed.

(* i <= x * 2^(N m) <= i + 1 for i = sub_index x (the right end x = 1 belongs to the last subinterval) *)
Lemma sub_index_brackets n m x : (0 <= x)%Q -> (x <= 1)%Q ->
  (IZR (sub_index n m x) <= Q2R x * IZR (B n m) <= IZR (sub_index n m x) + 1)%R.
Proof.
  intros H0 H1. pose proof (BQ_pos n m) as BP. pose proof (B_pos n m) as BZ.
  set (t := (x * inject_Z (B n m))%Q).
  pose proof (Qfloor_le t) as F1. pose proof (Qlt_floor t) as F2.
  assert (T0 : (0 <= t)%Q) by (subst t; apply Qmult_le_0_compat; [assumption | apply Qlt_le_weak; assumption]).
  assert (T1 : (t <= inject_Z (B n m))%Q).
  { subst t. setoid_replace (inject_Z (B n m)) with (1 * inject_Z (B n m))%Q at 2 by ring. apply Qmult_le_compat_r; [assumption | apply Qlt_le_weak; assumption]. }
  assert (G0 : (0 <= Qfloor t)%Z).
  { assert (E : (Qfloor 0 <= Qfloor t)%Z) by (apply Qfloor_resp_le; assumption). exact E. }
  assert (G1 : (Qfloor t <= B n m)%Z).
  { assert (E : (Qfloor t <= Qfloor (inject_Z (B n m)))%Z) by (apply Qfloor_resp_le; assumption). rewrite Qfloor_Z in E. exact E. }
  replace (Q2R x * IZR (B n m))%R with (Q2R t) by (subst t; rewrite Q2R_mult, Q2R_inject_Z; reflexivity).
  apply Qle_Rle in F1, T1. apply Qlt_Rlt in F2. rewrite Q2R_inject_Z in F1, F2, T1. rewrite plus_IZR in F2.
  unfold sub_index. fold t.
  destruct (Z.eq_dec (Qfloor t) (B n m)) as [E | NE].
  - rewrite E in *. replace (Z.max 0 (Z.min (B n m) (B n m - 1))) with (B n m - 1)%Z by lia.
    rewrite minus_IZR. lra.
  - replace (Z.max 0 (Z.min (Qfloor t) (B n m - 1))) with (Qfloor t) by lia. lra.
Qed.

Lemma inject_Z_nz z : (0 < z)%Z -> ~ (inject_Z z == 0)%Q.
Proof. intros P E. rewrite Zlt_Qlt in P. rewrite E in P. apply (Qlt_irrefl 0). exact P. Qed.

Lemma tcoord_diff m c c' : (tcoord m c - tcoord m c' == inject_Z (c - c') / inject_Z (2 ^ Z.of_nat m))%Q.
Proof.
  unfold tcoord. assert (P : (0 < 2 ^ Z.of_nat m)%Z) by (apply Z.pow_pos_nonneg; lia).
  replace (2 ^ (Z.of_nat m + 1))%Z with (2 * 2 ^ Z.of_nat m)%Z by (rewrite Z.pow_add_r by lia; lia).
  assert (NZ : ~ (inject_Z (2 ^ Z.of_nat m) == 0)%Q) by (apply inject_Z_nz; exact P).
  rewrite !inject_Z_mult, !inject_Z_plus, inject_Z_mult. unfold Zminus. rewrite inject_Z_plus, inject_Z_opp.
  repeat rewrite ?inject_Z_mult, ?inject_Z_plus. change (inject_Z 2) with 2%Q. change (inject_Z 1) with 1%Q.
  field. assumption.
Qed.

(* distance of two cell centres in box coordinates against the integer cell distance *)
Lemma qdist2_box m S : (0 <= S)%Q -> forall lo hi c c', length lo = length c -> length hi = length c -> length c' = length c ->
  Forall2 (fun l h => l < h /\ h - l <= S)%Q lo hi ->
  (qdist2 (box_point m lo hi c) (box_point m lo hi c') <= S * S * (inject_Z (sumsq c c') / inject_Z (4 ^ Z.of_nat m)))%Q.
Proof.
  intros HS lo. induction lo as [|l lo IH]; intros hi c c' L1 L2 L3 F.
  - destruct c; [|discriminate]. simpl. destruct c'; [|discriminate]. simpl. unfold Qdiv. rewrite Qmult_0_l, Qmult_0_r. apply Qle_refl.
  - destruct c as [|z c]; [discriminate|]. destruct hi as [|h hi]; [discriminate|]. destruct c' as [|z' c']; [discriminate|].
    inversion F as [|? ? ? ? [Hlh Hs] F']; subst.
    cbn [box_point qdist2 sumsq].
    specialize (IH hi c c' ltac:(simpl in L1; lia) ltac:(simpl in L2; lia) ltac:(simpl in L3; lia) F').
    assert (P : (0 < 2 ^ Z.of_nat m)%Z) by (apply Z.pow_pos_nonneg; lia).
    assert (P4 : (4 ^ Z.of_nat m = 2 ^ Z.of_nat m * 2 ^ Z.of_nat m)%Z) by (rewrite <- Z.pow_mul_l; reflexivity).
    set (w := inject_Z (2 ^ Z.of_nat m)) in *.
    assert (W : (0 < w)%Q) by (subst w; rewrite <- (Zlt_Qlt 0); exact P).
    assert (E : (box_coord m l h z - box_coord m l h z' == (h - l) * (inject_Z (z - z') / w))%Q).
    { unfold box_coord. subst w. rewrite <- (tcoord_diff m z z'). ring. }
    rewrite E. rewrite inject_Z_plus, inject_Z_mult. rewrite P4, inject_Z_mult. fold w.
    set (d := inject_Z (z - z')) in *. set (r := inject_Z (sumsq c c')) in *.
    rewrite P4, inject_Z_mult in IH. fold w in IH.
    set (X := qdist2 (box_point m lo hi c) (box_point m lo hi c')) in *.
    assert (Hd : (0 <= h - l)%Q) by (apply Qlt_le_weak; rewrite <- (Qplus_opp_r l); apply Qplus_lt_l; exact Hlh).
    assert (Sq : ((h - l) * (h - l) <= S * S)%Q) by (apply Qmult_le_compat_nonneg; split; assumption).
    assert (DW : (0 <= d / w * (d / w))%Q).
    { destruct (Qlt_le_dec (d / w) 0) as [Neg | Pos].
      - setoid_replace (d / w * (d / w))%Q with ((- (d / w)) * (- (d / w)))%Q by ring.
        apply Qmult_le_0_compat; apply Qlt_le_weak; rewrite <- (Qopp_opp 0); apply Qopp_lt_compat; exact Neg.
      - apply Qmult_le_0_compat; assumption. }
    assert (T1 : ((h - l) * (d / w) * ((h - l) * (d / w)) <= S * S * (d / w * (d / w)))%Q).
    { setoid_replace ((h - l) * (d / w) * ((h - l) * (d / w)))%Q with ((h - l) * (h - l) * (d / w * (d / w)))%Q by ring.
      apply Qmult_le_compat_r; assumption. }
    assert (NZ : ~ (w == 0)%Q) by (intros Z0; rewrite Z0 in W; apply (Qlt_irrefl 0); exact W).
    setoid_replace (S * S * ((d * d + r) / (w * w)))%Q with (S * S * (d / w * (d / w)) + S * S * (r / (w * w)))%Q by (field; assumption).
    apply Qplus_le_compat; assumption.
Qed.

Section Dim.
Variable n : nat.
Hypothesis Hall : all_ok n = true.
Hypothesis Hn : (1 <= n)%nat.

Theorem holder_image m lo hi S x x' : (1 <= m)%nat -> length lo = n -> length hi = n -> (0 <= S)%Q ->
  Forall2 (fun l h => l < h /\ h - l <= S)%Q lo hi ->
  (0 <= x)%Q -> (x <= 1)%Q -> (0 <= x')%Q -> (x' <= 1)%Q ->
  (1 <= Rabs (Q2R x - Q2R x') * IZR (B n m))%R ->
  (sqrt (Q2R (qdist2 (image n m lo hi x) (image n m lo hi x'))) <=
   2 * sqrt (INR n + 3) * Rpower (Rabs (Q2R x - Q2R x')) (/ INR n) * Q2R S)%R.
Proof.
  intros Hm Llo Lhi HS F X0 X1 X0' X1' Hq.
  set (i := sub_index n m x). set (j := sub_index n m x').
  pose proof (sub_index_range n m x) as Ri. pose proof (sub_index_range n m x') as Rj. fold i in Ri. fold j in Rj.
  pose proof (sub_index_brackets n m x X0 X1) as Bi. pose proof (sub_index_brackets n m x' X0' X1') as Bj. fold i in Bi. fold j in Bj.
  assert (Hx : (0 <= Q2R x <= 1)%R) by (split; [replace 0%R with (Q2R 0) by (unfold Q2R; simpl; lra) | replace 1%R with (Q2R 1) by (unfold Q2R; simpl; lra)]; apply Qle_Rle; assumption).
  assert (Hx' : (0 <= Q2R x' <= 1)%R) by (split; [replace 0%R with (Q2R 0) by (unfold Q2R; simpl; lra) | replace 1%R with (Q2R 1) by (unfold Q2R; simpl; lra)]; apply Qle_Rle; assumption).
  pose proof (holder_real n Hall Hn m i j (Q2R x) (Q2R x') Hm Ri Rj Hx Hx' Bi Bj Hq) as HR.
  destruct (cellI_in_grid n Hall m i Ri) as [Li _]. destruct (cellI_in_grid n Hall m j Rj) as [Lj _].
  pose proof (qdist2_box m S HS lo hi (cellI n m i) (cellI n m j) ltac:(congruence) ltac:(congruence) ltac:(congruence) F) as HB.
  unfold image. fold i j.
  set (D := sumsq (cellI n m i) (cellI n m j)) in *.
  apply Qle_Rle in HB. rewrite !Q2R_mult in HB. unfold Qdiv in HB. rewrite Q2R_mult, Q2R_inv in HB.
  2:{ apply inject_Z_nz. apply Z.pow_pos_nonneg; lia. }
  rewrite !Q2R_inject_Z in HB. rewrite <- pow_IZR in HB.
  set (s := Q2R S) in *. assert (S0 : (0 <= s)%R) by (subst s; replace 0%R with (Q2R 0) by (unfold Q2R; simpl; lra); apply Qle_Rle; assumption).
  set (t := (IZR D / 4 ^ m)%R) in *.
  apply Rle_trans with (sqrt (s * s * t)).
  - apply sqrt_le_1_alt. exact HB.
  - destruct (Rle_lt_dec 0 t) as [T0 | T0].
    + rewrite sqrt_mult_alt by nra. rewrite sqrt_square by assumption. rewrite Rmult_comm. apply Rmult_le_compat_r; assumption.
    + rewrite sqrt_neg_0 by nra. apply Rmult_le_pos; [|assumption].
      apply Rmult_le_pos; [apply Rmult_le_pos; [lra | apply sqrt_pos] | left; unfold Rpower; apply exp_pos].
Qed.
End Dim.
