From Coq Require Import ZArith List Lia.
From IOptV Require Import Evolvent.Ev.
Definition dim_ok (n : nat) : Prop := (2 <= n <= 5)%nat.
Lemma all_ok_dim n : dim_ok n -> all_ok n = true.
Proof.
  unfold dim_ok. intros H.
  destruct n as [|[|[|[|[|[|n]]]]]]; try lia;
    [exact all_ok_2 | exact all_ok_3 | exact all_ok_4 | exact all_ok_5].
Qed.
