From Coq Require Import ZArith List Lia Bool.
From IOptV Require Import Evolvent.Ev.
Import ListNotations.
Open Scope Z_scope.

Definition vadd := map2 Z.add.

Fixpoint dcount (a b : list Z) : option nat :=
  match a, b with
  | x :: a', y :: b' =>
    match dcount a' b' with
    | None => None
    | Some k => if x =? y then Some k else if Z.abs (x - y) =? 1 then Some (S k) else None
    end
  | [], [] => Some O
  | _, _ => None
  end.
Definition adjacent a b := dcount a b = Some 1%nat.

Lemma veq_true a b : veq a b = true -> a = b.
Proof. unfold veq. destruct (list_eq_dec Z.eq_dec a b); congruence. Qed.
Lemma steq_true a b : steq a b = true -> a = b.
Proof. destruct a, b; unfold steq; cbn. intros H. apply andb_true_iff in H as [H1 H2].
  apply Nat.eqb_eq in H1. apply veq_true in H2. congruence. Qed.

Lemma map_const0 (f : Z -> Z) l : (forall x, f x = 0) -> map f l = repeat 0 (length l).
Proof. intros Hf. induction l; cbn; [reflexivity|]. rewrite Hf, IHl. reflexivity. Qed.
Lemma map2_map_same (f g : Z -> Z) l : vadd (map f l) (map g l) = map (fun e => f e + g e) l.
Proof. unfold vadd. induction l; cbn; [reflexivity|]. rewrite IHl. reflexivity. Qed.

Lemma dcount_prefix w a b : length w = length a -> length a = length b ->
  dcount (vadd w a) (vadd w b) = dcount a b.
Proof.
  unfold vadd. revert a b. induction w as [|x w IH]; intros [|y a] [|z b]; cbn; try discriminate; try reflexivity.
  intros H1 H2. injection H1 as H1. injection H2 as H2. rewrite IH by assumption.
  destruct (dcount a b); [|reflexivity].
  replace (x + y - (x + z)) with (y - z) by lia.
  destruct (Z.eqb_spec (x + y) (x + z)), (Z.eqb_spec y z); try lia; reflexivity.
Qed.

Lemma existsb_Zeqb d l : existsb (Z.eqb d) l = true -> In d l.
Proof. intros H. apply existsb_exists in H as [x [Hin Hx]]. apply Z.eqb_eq in Hx. subst. exact Hin. Qed.

Section Dim.
Variable n : nat.
Hypothesis Hall : all_ok n = true.

Lemma Hloc : forallb (local_ok n) (all_states n) = true.
Proof. unfold all_ok in Hall. repeat (apply andb_true_iff in Hall as [Hall ?]). assumption. Qed.
Lemma Hinv : forallb (inv_ok n) (all_states n) = true.
Proof. unfold all_ok in Hall. repeat (apply andb_true_iff in Hall as [Hall ?]). assumption. Qed.
Lemma init_state : In (init n) (all_states n).
Proof. unfold all_ok in Hall. repeat (apply andb_true_iff in Hall as [Hall ?]).
  match goal with Hx : existsb (steq _) _ = true |- _ => apply existsb_exists in Hx as [x [Hin Hx]]; apply steq_true in Hx; rewrite Hx; exact Hin end. Qed.

Definition okd (d : Z) := In d (digits n).

Lemma loc s : In s (all_states n) -> local_ok n s = true.
Proof. intros H. pose proof Hloc as HL. rewrite forallb_forall in HL. auto. Qed.

Lemma loc_entry s : In s (all_states n) -> entry n (fst (step n s 0)) = entry n s.
Proof. intros H. pose proof (loc s H) as L. unfold local_ok in L.
  repeat (apply andb_true_iff in L as [L ?]). apply veq_true. assumption. Qed.
Lemma loc_exit s : In s (all_states n) -> exit_ n (fst (step n s (last n))) = exit_ n s.
Proof. intros H. pose proof (loc s H) as L. unfold local_ok in L.
  repeat (apply andb_true_iff in L as [L ?]). apply veq_true. assumption. Qed.
Lemma loc_closed s d : In s (all_states n) -> okd d -> In (fst (step n s d)) (all_states n).
Proof. intros H Hd. pose proof (loc s H) as L. unfold local_ok in L.
  repeat (apply andb_true_iff in L as [L ?]).
  match goal with Hx : forallb (fun d => existsb _ _) _ = true |- _ => rewrite forallb_forall in Hx; specialize (Hx d Hd) end.
  match goal with Hx : existsb _ _ = true |- _ => apply existsb_exists in Hx as [x [Hin Hx]]; apply steq_true in Hx; rewrite Hx; exact Hin end. Qed.
Lemma loc_shape s d : In s (all_states n) -> okd d ->
  length (snd (step n s d)) = n /\ Forall (fun z => z = 1 \/ z = -1) (snd (step n s d)).
Proof. intros H Hd. pose proof (loc s H) as L. unfold local_ok in L.
  repeat (apply andb_true_iff in L as [L ?]).
  match goal with Hx : forallb (fun d => Nat.eqb _ _ && _) _ = true |- _ => rewrite forallb_forall in Hx; specialize (Hx d Hd);
    apply andb_true_iff in Hx as [Hx1 Hx2] end.
  split; [apply Nat.eqb_eq; assumption|].
  apply Forall_forall. intros z Hz. rewrite forallb_forall in Hx2. specialize (Hx2 z Hz).
  apply orb_true_iff in Hx2 as [E|E]; apply Z.eqb_eq in E; auto. Qed.
Lemma loc_pair s d : In s (all_states n) -> In d (map Z.of_nat (seq 0 (2 ^ n - 1))) ->
  local_pair (snd (step n s d)) (snd (step n s (d+1))) (exit_ n (fst (step n s d))) (entry n (fst (step n s (d+1)))) = Some 1%nat.
Proof. intros H Hd. pose proof (loc s H) as L. unfold local_ok in L.
  repeat (apply andb_true_iff in L as [L ?]).
  match goal with Hx : forallb (fun d => match local_pair _ _ _ _ with _ => _ end) _ = true |- _ =>
    rewrite forallb_forall in Hx; specialize (Hx d Hd) end.
  match goal with Hx : match ?e with _ => _ end = true |- _ => destruct e as [[|[|?]]|]; try discriminate end. reflexivity. Qed.

Lemma H0 : okd 0.
Proof. unfold all_ok in Hall. repeat (apply andb_true_iff in Hall as [Hall ?]). apply existsb_Zeqb. assumption. Qed.
Lemma Hlast : okd (last n).
Proof. unfold all_ok in Hall. repeat (apply andb_true_iff in Hall as [Hall ?]). apply existsb_Zeqb. assumption. Qed.
Let h0 : okd 0 := H0.
Let hlast : okd (last n) := Hlast.

Lemma cell_cons s d ds : cell n s (d :: ds) =
  vadd (map (fun x => bit x * 2 ^ Z.of_nat (length ds)) (snd (step n s d))) (cell n (fst (step n s d)) ds).
Proof. cbn [cell]. destruct (step n s d) as [s' u]. reflexivity. Qed.

Lemma first_cell k : forall s, In s (all_states n) ->
  cell n s (repeat 0 k) = map (fun e => bit e * (2 ^ Z.of_nat k - 1)) (entry n s).
Proof.
  induction k as [|k IH]; intros s Hs.
  - cbn [repeat cell]. rewrite map_const0 by (intros; cbn; lia).
    unfold entry. destruct (loc_shape s 0 Hs H0) as [-> _]. reflexivity.
  - cbn [repeat]. rewrite cell_cons, repeat_length, IH by (apply loc_closed; assumption).
    rewrite loc_entry by assumption. fold (entry n s). rewrite map2_map_same.
    apply map_ext. intros e. rewrite Nat2Z.inj_succ, Z.pow_succ_r by lia. lia.
Qed.
Lemma last_cell k : forall s, In s (all_states n) ->
  cell n s (repeat (last n) k) = map (fun e => bit e * (2 ^ Z.of_nat k - 1)) (exit_ n s).
Proof.
  induction k as [|k IH]; intros s Hs.
  - cbn [repeat cell]. rewrite map_const0 by (intros; cbn; lia).
    unfold exit_. destruct (loc_shape s (last n) Hs Hlast) as [-> _]. reflexivity.
  - cbn [repeat]. rewrite cell_cons, repeat_length, IH by (apply loc_closed; assumption).
    rewrite loc_exit by assumption. fold (exit_ n s). rewrite map2_map_same.
    apply map_ext. intros e. rewrite Nat2Z.inj_succ, Z.pow_succ_r by lia. lia.
Qed.

Definition pm (z : Z) := z = 1 \/ z = -1.
Lemma bit_p : bit 1 = 1. Proof. reflexivity. Qed.
Lemma bit_m : bit (-1) = 0. Proof. reflexivity. Qed.
Lemma diverge (P : Z) (HP : 1 <= P) : forall u1 u2 x1 e2 j,
  Forall pm u1 -> Forall pm u2 -> Forall pm x1 -> Forall pm e2 ->
  local_pair u1 u2 x1 e2 = Some j ->
  dcount (vadd (map (fun x => bit x * P) u1) (map (fun e => bit e * (P - 1)) x1))
         (vadd (map (fun x => bit x * P) u2) (map (fun e => bit e * (P - 1)) e2)) = Some j.
Proof.
  unfold vadd. induction u1 as [|a u1 IH]; intros [|b u2] [|x x1] [|e e2] j F1 F2 F3 F4; cbn [local_pair]; try discriminate.
  - intros [= <-]. reflexivity.
  - inversion F1 as [|? ? Pa F1']; inversion F2 as [|? ? Pb F2']; inversion F3 as [|? ? Px F3']; inversion F4 as [|? ? Pe F4']; subst.
    destruct (local_pair u1 u2 x1 e2) as [k|] eqn:E; [|discriminate].
    specialize (IH u2 x1 e2 k F1' F2' F3' F4' E).
    cbn [map map2 dcount]. rewrite IH. clear IH E F1 F2 F3 F4 F1' F2' F3' F4'.
    unfold pm in *.
    destruct Pa as [-> | ->], Pb as [-> | ->], Px as [-> | ->], Pe as [-> | ->];
      change (1 =? 1) with true; change (-1 =? -1) with true; change (1 =? -1) with false; change (-1 =? 1) with false;
      cbv [andb]; cbv iota; try discriminate; intros [= <-]; rewrite ?bit_p, ?bit_m;
      repeat match goal with |- context [?p =? ?q] => destruct (Z.eqb_spec p q); try lia end; try reflexivity.
Qed.

Inductive succ_rel : list Z -> list Z -> Prop :=
| sr_here d k : In d (map Z.of_nat (seq 0 (2 ^ n - 1))) -> okd d -> okd (d + 1) ->
    succ_rel (d :: repeat (last n) k) ((d + 1) :: repeat 0 k)
| sr_there d ds ds' : okd d -> succ_rel ds ds' -> succ_rel (d :: ds) (d :: ds').

Lemma succ_len ds ds' : succ_rel ds ds' -> length ds = length ds'.
Proof. induction 1; cbn; [rewrite !repeat_length; reflexivity | congruence]. Qed.

Lemma cell_len ds : forall s, In s (all_states n) -> Forall okd ds -> length (cell n s ds) = n.
Proof.
  induction ds as [|d ds IH]; intros s Hs Hd.
  - cbn. apply repeat_length.
  - inversion Hd; subst. rewrite cell_cons. unfold vadd.
    assert (L : forall a b : list Z, length a = n -> length b = n -> length (map2 Z.add a b) = n).
    { clear. intros a. revert n. induction a as [|x a IHa]; intros n [|y b]; cbn; intros; subst; try discriminate; try reflexivity.
      f_equal. apply IHa; congruence. }
    apply L; [rewrite map_length; apply loc_shape; assumption | apply IH; [apply loc_closed|]; assumption].
Qed.

Lemma succ_okd ds ds' : succ_rel ds ds' -> Forall okd ds /\ Forall okd ds'.
Proof. induction 1 as [d k Hd Ho Ho1 | d ds ds' Ho Hs [IH1 IH2]].
  - split; constructor; try assumption; apply Forall_forall; intros x Hx; apply repeat_spec in Hx; subst; assumption.
  - split; constructor; assumption. Qed.

Theorem consecutive_adjacent ds ds' : succ_rel ds ds' ->
  forall s, In s (all_states n) -> adjacent (cell n s ds) (cell n s ds').
Proof.
  induction 1 as [d k Hd Ho Ho1 | d ds ds' Ho Hs IH]; intros s Hin.
  - rewrite !cell_cons, !repeat_length.
    rewrite last_cell, first_cell by (apply loc_closed; assumption).
    unfold adjacent.
    assert (HP : 1 <= 2 ^ Z.of_nat k) by (pose proof (Z.pow_pos_nonneg 2 (Z.of_nat k)); lia).
    apply (diverge (2 ^ Z.of_nat k) HP).
    + apply (loc_shape s d Hin Ho).
    + apply (loc_shape s (d+1) Hin Ho1).
    + apply (loc_shape _ (last n) (loc_closed s d Hin Ho) Hlast).
    + apply (loc_shape _ 0 (loc_closed s (d+1) Hin Ho1) H0).
    + apply loc_pair; assumption.
  - rewrite !cell_cons. rewrite <- (succ_len _ _ Hs). unfold adjacent.
    destruct (succ_okd _ _ Hs) as [F1 F2].
    rewrite dcount_prefix.
    + apply IH. apply loc_closed; assumption.
    + rewrite map_length, cell_len; [apply loc_shape; assumption | apply loc_closed; assumption | assumption].
    + rewrite !cell_len; try reflexivity; try assumption; apply loc_closed; assumption.
Qed.
End Dim.

