(* Point-level model over Q: x in [0,1] -> subinterval -> cell -> box point, and back (model of GetImage /
   GetInverseImage in exact arithmetic). *)
From Coq Require Import ZArith QArith Qround Qabs Lqa Lia List Bool.
From IOptV Require Import Evolvent.Ev Evolvent.Adj Evolvent.Bij Evolvent.Curve.
Import ListNotations.

Open Scope Z_scope.

Lemma Qfloor_unique c q : (inject_Z c <= q)%Q -> (q < inject_Z (c + 1))%Q -> Qfloor q = c.
Proof.
  intros H1 H2. pose proof (Qfloor_le q) as F1. pose proof (Qlt_floor q) as F2.
  assert (A : (inject_Z c < inject_Z (Qfloor q + 1))%Q) by (eapply Qle_lt_trans; eassumption).
  assert (Bq : (inject_Z (Qfloor q) < inject_Z (c + 1))%Q) by (eapply Qle_lt_trans; eassumption).
  rewrite <- Zlt_Qlt in A, Bq. lia.
Qed.

Lemma Qdiv_le_elim a b x : (0 < b)%Q -> (a / b <= x)%Q -> (a <= x * b)%Q.
Proof. intros Hb H. assert (E : (a == a / b * b)%Q) by (field; lra). rewrite E. apply Qmult_le_compat_r; [exact H | lra]. Qed.
Lemma Qdiv_lt_elim a b x : (0 < b)%Q -> (x < a / b)%Q -> (x * b < a)%Q.
Proof. intros Hb H. assert (E : (a == a / b * b)%Q) by (field; lra). rewrite E. apply Qmult_lt_compat_r; assumption. Qed.

Definition tcoord (m : nat) (c : Z) : Q := inject_Z (2 * c + 1) / inject_Z (2 ^ (Z.of_nat m + 1)).
Definition box_coord (m : nat) (lo hi : Q) (c : Z) : Q := (lo + (hi - lo) * tcoord m c)%Q.

Fixpoint box_point (m : nat) (lo hi : list Q) (c : list Z) : list Q :=
  match lo, hi, c with
  | l :: lo', h :: hi', z :: c' => box_coord m l h z :: box_point m lo' hi' c'
  | _, _, _ => []
  end.

Definition sub_index (n m : nat) (x : Q) : Z := Z.max 0 (Z.min (Qfloor (x * inject_Z (B n m))) (B n m - 1)).

Definition image (n m : nat) (lo hi : list Q) (x : Q) : list Q :=
  box_point m lo hi (cellI n m (sub_index n m x)).

(* N = 1: the code maps x to (x - 1/2)(hi - lo) + (hi + lo)/2 *)
Definition image1 (lo hi x : Q) : Q := ((x - (1 # 2)) * (hi - lo) + (hi + lo) / 2)%Q.
Definition inverse1 (lo hi y : Q) : Q := ((y - (hi + lo) / 2) / (hi - lo) + (1 # 2))%Q.

Lemma image1_affine lo hi x : (image1 lo hi x == lo + (hi - lo) * x)%Q.
Proof. unfold image1. field. Qed.
Lemma inverse1_image1 lo hi x : (lo < hi)%Q -> (inverse1 lo hi (image1 lo hi x) == x)%Q.
Proof. intros H. unfold inverse1, image1. field. intros E. lra. Qed.
Lemma image1_inverse1 lo hi y : (lo < hi)%Q -> (image1 lo hi (inverse1 lo hi y) == y)%Q.
Proof. intros H. unfold inverse1, image1. field. intros E. lra. Qed.
Lemma image1_in_box lo hi x : (lo < hi)%Q -> (0 <= x)%Q -> (x <= 1)%Q -> (lo <= image1 lo hi x)%Q /\ (image1 lo hi x <= hi)%Q.
Proof. intros. rewrite image1_affine. split; nra. Qed.

(* ---- subinterval index ---- *)
Lemma BQ_pos n m : (0 < inject_Z (B n m))%Q.
Proof. rewrite <- (Zlt_Qlt 0). apply B_pos. Qed.

Lemma sub_index_range n m x : 0 <= sub_index n m x < B n m.
Proof. unfold sub_index. pose proof (B_pos n m). lia. Qed.

(* any point of the i-th subinterval [i/B, (i+1)/B) gets index i *)
Lemma sub_index_spec n m i x : 0 <= i < B n m ->
  (inject_Z i / inject_Z (B n m) <= x)%Q -> (x < inject_Z (i + 1) / inject_Z (B n m))%Q -> sub_index n m x = i.
Proof.
  intros Hi H1 H2. unfold sub_index. pose proof (BQ_pos n m) as P.
  assert (F : Qfloor (x * inject_Z (B n m)) = i).
  { apply Qfloor_unique.
    - apply Qdiv_le_elim; assumption.
    - apply Qdiv_lt_elim; assumption. }
  rewrite F. lia.
Qed.

Lemma sub_index_one n m : sub_index n m 1 = B n m - 1.
Proof.
  unfold sub_index. rewrite Qmult_1_l.
  assert (F : Qfloor (inject_Z (B n m)) = B n m) by apply Qfloor_Z.
  rewrite F. pose proof (B_pos n m). lia.
Qed.

(* ---- box coordinates ---- *)
Lemma t_range (m : nat) (c : Z) : 0 <= c < 2 ^ Z.of_nat m -> (0 < tcoord m c)%Q /\ (tcoord m c < 1)%Q.
Proof.
  intros H. unfold tcoord. assert (P : 0 < 2 ^ (Z.of_nat m + 1)) by (apply Z.pow_pos_nonneg; lia).
  assert (E : 2 ^ (Z.of_nat m + 1) = 2 * 2 ^ Z.of_nat m) by (rewrite Z.pow_add_r by lia; lia).
  split.
  - apply Qlt_shift_div_l. { rewrite <- (Zlt_Qlt 0). exact P. } rewrite Qmult_0_l. rewrite <- (Zlt_Qlt 0). lia.
  - apply Qlt_shift_div_r. { rewrite <- (Zlt_Qlt 0). exact P. } rewrite Qmult_1_l. rewrite <- Zlt_Qlt. lia.
Qed.

Lemma box_coord_inside m lo hi c : (lo < hi)%Q -> 0 <= c < 2 ^ Z.of_nat m ->
  (lo < box_coord m lo hi c)%Q /\ (box_coord m lo hi c < hi)%Q.
Proof. intros H Hc. destruct (t_range m c Hc) as [T0 T1]. unfold box_coord. set (t := tcoord m c) in *. split; nra. Qed.

(* C20's grid form: lower + (j + 1/2)(upper - lower)/2^m *)
Lemma box_coord_grid m lo hi c :
  (box_coord m lo hi c == lo + (inject_Z c + (1 # 2)) * (hi - lo) / inject_Z (2 ^ Z.of_nat m))%Q.
Proof.
  unfold box_coord, tcoord.
  assert (P : 0 < 2 ^ Z.of_nat m) by (apply Z.pow_pos_nonneg; lia).
  assert (E : 2 ^ (Z.of_nat m + 1) = 2 * 2 ^ Z.of_nat m) by (rewrite Z.pow_add_r by lia; lia).
  rewrite E. rewrite !inject_Z_mult, inject_Z_plus, inject_Z_mult.
  assert (NZ : ~ (inject_Z (2 ^ Z.of_nat m) == 0)%Q).
  { intros Q0. assert ((0 < inject_Z (2 ^ Z.of_nat m))%Q) by (rewrite <- (Zlt_Qlt 0); exact P). lra. }
  field. exact NZ.
Qed.

Definition in_box (lo hi y : list Q) : Prop :=
  Forall2 (fun b v => (fst b < v)%Q /\ (v < snd b)%Q) (combine lo hi) y.

Lemma box_point_inside m : forall lo hi c, length lo = length c -> length hi = length c ->
  Forall2 Qlt lo hi -> inrange (2 ^ Z.of_nat m) c -> in_box lo hi (box_point m lo hi c).
Proof.
  unfold in_box. induction lo as [|l lo IH]; intros [|h hi] [|z c] L1 L2 F R; cbn in *; try discriminate; constructor.
  - inversion F; subst. inversion R; subst. cbn. apply box_coord_inside; assumption.
  - inversion F; subst. inversion R; subst. apply IH; try lia; assumption.
Qed.

(* ---- inverse on box points ---- *)
Definition cell_coord (m : nat) (lo hi y : Q) : Z :=
  Z.max 0 (Z.min (Qfloor ((y - lo) / (hi - lo) * inject_Z (2 ^ Z.of_nat m))) (2 ^ Z.of_nat m - 1)).

Fixpoint cell_of_point (m : nat) (lo hi y : list Q) : list Z :=
  match lo, hi, y with
  | l :: lo', h :: hi', v :: y' => cell_coord m l h v :: cell_of_point m lo' hi' y'
  | _, _, _ => []
  end.

Definition inverse_index (n m : nat) (lo hi y : list Q) : Z :=
  index_of n (uncell n (init n) m (cell_of_point m lo hi y)).

Lemma cell_coord_centre m lo hi c : (lo < hi)%Q -> 0 <= c < 2 ^ Z.of_nat m -> cell_coord m lo hi (box_coord m lo hi c) = c.
Proof.
  intros H Hc. unfold cell_coord, box_coord.
  assert (P : 0 < 2 ^ Z.of_nat m) by (apply Z.pow_pos_nonneg; lia).
  assert (PQ : (0 < inject_Z (2 ^ Z.of_nat m))%Q) by (rewrite <- (Zlt_Qlt 0); exact P).
  assert (E : 2 ^ (Z.of_nat m + 1) = 2 * 2 ^ Z.of_nat m) by (rewrite Z.pow_add_r by lia; lia).
  assert (V : ((lo + (hi - lo) * tcoord m c - lo) / (hi - lo) * inject_Z (2 ^ Z.of_nat m) == inject_Z c + (1 # 2))%Q).
  { unfold tcoord. rewrite E. rewrite !inject_Z_mult, inject_Z_plus, inject_Z_mult. field. split; lra. }
  assert (F : Qfloor ((lo + (hi - lo) * tcoord m c - lo) / (hi - lo) * inject_Z (2 ^ Z.of_nat m)) = c).
  { apply Qfloor_unique; rewrite V; [|rewrite inject_Z_plus; change (inject_Z 1) with 1%Q]; lra. }
  rewrite F. lia.
Qed.

Lemma cell_of_box_point m : forall lo hi c, length lo = length c -> length hi = length c ->
  Forall2 Qlt lo hi -> inrange (2 ^ Z.of_nat m) c -> cell_of_point m lo hi (box_point m lo hi c) = c.
Proof.
  induction lo as [|l lo IH]; intros [|h hi] [|z c] L1 L2 F R; cbn in *; try discriminate; try reflexivity.
  inversion F; subst. inversion R; subst. f_equal; [apply cell_coord_centre; assumption | apply IH; try lia; assumption].
Qed.

Lemma cell_coord_range m lo hi y : 0 <= cell_coord m lo hi y < 2 ^ Z.of_nat m.
Proof. unfold cell_coord. assert (0 < 2 ^ Z.of_nat m) by (apply Z.pow_pos_nonneg; lia). lia. Qed.

Lemma cell_of_point_shape m : forall lo hi y, length lo = length y -> length hi = length y ->
  length (cell_of_point m lo hi y) = length y /\ inrange (2 ^ Z.of_nat m) (cell_of_point m lo hi y).
Proof.
  unfold inrange. induction lo as [|l lo IH]; intros [|h hi] [|v y] L1 L2; cbn in *; try discriminate; try (split; [reflexivity|constructor]).
  destruct (IH hi y ltac:(lia) ltac:(lia)) as [I1 I2]. split; [f_equal; exact I1 | constructor; [apply cell_coord_range | exact I2]].
Qed.

Section Dim.
Variable n : nat.
Hypothesis Hall : all_ok n = true.

(* C09: inverse(image(x)) is the left end of x's subinterval *)
Theorem inverse_of_image m lo hi x : length lo = n -> length hi = n -> Forall2 Qlt lo hi ->
  inverse_index n m lo hi (image n m lo hi x) = sub_index n m x.
Proof.
  intros L1 L2 F. unfold inverse_index, image.
  pose proof (sub_index_range n m x) as R.
  destruct (cellI_in_grid n Hall m _ R) as [Lc Rc].
  rewrite cell_of_box_point by (try assumption; congruence).
  unfold cellI. rewrite <- (digits_len n m (sub_index n m x)) at 1.
  rewrite (uncell_cell n Hall); [apply index_digits; exact R | apply (init_state n Hall) | apply digits_okd; exact R].
Qed.

(* C09: image(inverse(y)) is the centre of the cell containing y *)
Theorem image_of_inverse m lo hi y : length lo = n -> length hi = n -> length y = n ->
  0 <= inverse_index n m lo hi y < B n m /\
  cellI n m (inverse_index n m lo hi y) = cell_of_point m lo hi y.
Proof.
  intros L1 L2 L3. unfold inverse_index.
  destruct (cell_of_point_shape m lo hi y ltac:(congruence) ltac:(congruence)) as [Lc Rc].
  destruct (cell_uncell n Hall m (init n) (cell_of_point m lo hi y) (init_state n Hall) ltac:(congruence) Rc) as [F [Lk E]].
  split.
  - pose proof (index_range n _ F) as R. rewrite Lk in R. exact R.
  - unfold cellI. pose proof (digits_index n _ F) as D. rewrite Lk in D. rewrite D. exact E.
Qed.

Theorem image_in_box m lo hi x : length lo = n -> length hi = n -> Forall2 Qlt lo hi -> in_box lo hi (image n m lo hi x).
Proof.
  intros L1 L2 F. unfold image. destruct (cellI_in_grid n Hall m _ (sub_index_range n m x)) as [Lc Rc].
  apply box_point_inside; try assumption; congruence.
Qed.

End Dim.

(* image(inverse(y)) is within half a cell of y on every axis, for every y of the box (faces included) *)
Lemma cell_coord_half_cell m lo hi y : (lo < hi)%Q -> (lo <= y)%Q -> (y <= hi)%Q ->
  (Qabs (box_coord m lo hi (cell_coord m lo hi y) - y) <= (hi - lo) / inject_Z (2 ^ (Z.of_nat m + 1)))%Q.
Proof.
  intros H Hl Hh. unfold cell_coord, box_coord, tcoord.
  assert (Pz : 0 < 2 ^ Z.of_nat m) by (apply Z.pow_pos_nonneg; lia).
  assert (E : 2 ^ (Z.of_nat m + 1) = 2 * 2 ^ Z.of_nat m) by (rewrite Z.pow_add_r by lia; lia).
  set (P := inject_Z (2 ^ Z.of_nat m)).
  assert (PQ : (0 < P)%Q) by (subst P; rewrite <- (Zlt_Qlt 0); exact Pz).
  set (t := ((y - lo) / (hi - lo) * P)%Q).
  assert (T0 : (0 <= t)%Q).
  { subst t. apply Qmult_le_0_compat; [|lra]. apply Qle_shift_div_l; lra. }
  assert (T1 : (t <= P)%Q).
  { subst t. setoid_replace P with (1 * P)%Q at 2 by ring. apply Qmult_le_compat_r; [|lra]. apply Qle_shift_div_r; lra. }
  pose proof (Qfloor_le t) as F1. pose proof (Qlt_floor t) as F2. rewrite inject_Z_plus in F2. change (inject_Z 1) with 1%Q in F2.
  set (f := Qfloor t) in *.
  set (c := Z.max 0 (Z.min f (2 ^ Z.of_nat m - 1))).
  assert (Fnn : 0 <= f).
  { assert (A : (inject_Z (-1) < inject_Z f)%Q) by (change (inject_Z (-1)) with (-1 # 1)%Q; lra). rewrite <- Zlt_Qlt in A. lia. }
  assert (C : (inject_Z c <= t)%Q /\ (t <= inject_Z c + 1)%Q).
  { destruct (Z_le_gt_dec f (2 ^ Z.of_nat m - 1)) as [Hs|Hs].
    - assert (c = f) by (subst c; lia). rewrite H0. split; lra.
    - assert (c = 2 ^ Z.of_nat m - 1) by (subst c; lia).
      assert (A : (P <= inject_Z f)%Q) by (subst P; rewrite <- Zle_Qle; lia).
      assert (CE : (inject_Z c == P - 1)%Q).
      { rewrite H0. unfold Z.sub. rewrite inject_Z_plus. subst P. unfold Qminus. apply Qplus_comp; reflexivity. }
      rewrite CE. split; lra. }
  destruct C as [C1 C2].
  assert (NZ : ~ (P == 0)%Q) by lra.
  assert (Y : (y == lo + (hi - lo) * t / P)%Q).
  { subst t. field. split; first [exact NZ | lra]. }
  rewrite E, !inject_Z_mult, inject_Z_plus, inject_Z_mult. fold P. change (inject_Z 2) with 2%Q. change (inject_Z 1) with 1%Q.
  set (cq := inject_Z c) in *.
  assert (D : (lo + (hi - lo) * ((2 * cq + 1) / (2 * P)) - y == (hi - lo) * (cq + (1 # 2) - t) / P)%Q).
  { rewrite Y. field. exact NZ. }
  rewrite D.
  assert (R : ((hi - lo) / (2 * P) == (hi - lo) * (1 # 2) / P)%Q) by (field; exact NZ). rewrite R.
  apply Qabs_Qle_condition. split.
  - apply Qle_shift_div_l; [exact PQ|]. setoid_replace (- ((hi - lo) * (1 # 2) / P) * P)%Q with (- ((hi - lo) * (1 # 2)))%Q by (field; exact NZ). nra.
  - apply Qle_shift_div_r; [exact PQ|]. setoid_replace ((hi - lo) * (1 # 2) / P * P)%Q with ((hi - lo) * (1 # 2))%Q by (field; exact NZ). nra.
Qed.
