(* The evolvent's digit-string -> cell map is a bijection at every depth, and the model of __GetXonY inverts it.
   Induction over the (unbounded) depth on top of the finite facts all_ok n. *)
From Coq Require Import ZArith List Lia Bool.
From IOptV Require Import Evolvent.Ev Evolvent.Adj.
Import ListNotations.
Open Scope Z_scope.

Lemma signvecs_spec n w : In w (signvecs n) <-> length w = n /\ Forall pm w.
Proof.
  revert w. induction n as [|n IH]; intros w; cbn [signvecs].
  - split.
    + intros [<-|[]]. split; [reflexivity|constructor].
    + intros [L _]. destruct w; [left; reflexivity|discriminate].
  - rewrite in_flat_map. split.
    + intros [v [Hv Hw]]. apply IH in Hv as [L F]. cbn in Hw.
      destruct Hw as [<-|[<-|[]]]; split; cbn; try (f_equal; assumption); constructor; try assumption; unfold pm; auto.
    + intros [L F]. destruct w as [|a w]; [discriminate|]. injection L as L. inversion F as [|? ? Pa F']; subst.
      exists w. split; [apply IH; split; [reflexivity|assumption]|]. cbn. destruct Pa as [-> | ->]; auto.
Qed.

Lemma okd_iff n d : okd n d <-> 0 <= d < 2 ^ Z.of_nat n.
Proof.
  unfold okd, digits. rewrite in_map_iff. split.
  - intros [k [<- Hk]]. apply in_seq in Hk.
    assert (Z.of_nat (2 ^ n) = 2 ^ Z.of_nat n) by (rewrite Nat2Z.inj_pow; reflexivity). lia.
  - intros H. exists (Z.to_nat d). split; [lia|]. apply in_seq.
    assert (Z.of_nat (2 ^ n) = 2 ^ Z.of_nat n) by (rewrite Nat2Z.inj_pow; reflexivity). lia.
Qed.

Section Dim.
Variable n : nat.
Hypothesis Hall : all_ok n = true.

Let Hloc := Hloc n Hall.
Let loc_closed := loc_closed n Hall.
Let loc_shape := loc_shape n Hall.

Lemma inv_spec s : In s (all_states n) -> inv_ok n s = true.
Proof. intros H. pose proof (Hinv n Hall) as HI. rewrite forallb_forall in HI. auto. Qed.

Lemma inv_fwd s d : In s (all_states n) -> okd n d ->
  inv_step n s (snd (step n s d)) = (fst (step n s d), d).
Proof.
  intros Hs Hd. pose proof (inv_spec s Hs) as L. unfold inv_ok in L. apply andb_true_iff in L as [L _].
  rewrite forallb_forall in L. specialize (L d Hd).
  destruct (step n s d) as [s' u]. cbn [fst snd]. destruct (inv_step n s u) as [s'' d'].
  apply andb_true_iff in L as [L1 L2]. apply steq_true in L1. apply Z.eqb_eq in L2. congruence.
Qed.

Lemma inv_bwd s w : In s (all_states n) -> In w (signvecs n) ->
  okd n (snd (inv_step n s w)) /\ snd (step n s (snd (inv_step n s w))) = w.
Proof.
  intros Hs Hw. pose proof (inv_spec s Hs) as L. unfold inv_ok in L. apply andb_true_iff in L as [_ L].
  rewrite forallb_forall in L. specialize (L w Hw). destruct (inv_step n s w) as [s' d]. cbn [snd].
  apply andb_true_iff in L as [L1 L2]. split; [apply existsb_Zeqb; exact L1 | apply veq_true; exact L2].
Qed.

Lemma inv_bwd_state s w : In s (all_states n) -> In w (signvecs n) ->
  fst (inv_step n s w) = fst (step n s (snd (inv_step n s w))).
Proof.
  intros Hs Hw. destruct (inv_bwd s w Hs Hw) as [Hd Hu].
  pose proof (inv_fwd s _ Hs Hd) as F. rewrite Hu in F.
  destruct (inv_step n s w) as [s' d]. cbn [fst snd] in *. congruence.
Qed.

(* ---- range of cell coordinates ---- *)
Definition inrange (P : Z) (c : list Z) := Forall (fun z => 0 <= z < P) c.

Lemma vadd_range P u rest : length u = length rest -> Forall pm u -> inrange P rest ->
  inrange (2 * P) (vadd (map (fun x => bit x * P) u) rest).
Proof.
  unfold vadd, inrange. revert rest. induction u as [|a u IH]; intros [|b rest]; cbn [map map2 length]; try discriminate; intros L F R; [constructor|].
  injection L as L. inversion F as [|? ? Pa F']; inversion R as [|? ? Rb R']; subst.
  constructor; [|apply IH; assumption].
  destruct Pa as [-> | ->]; [rewrite bit_p | rewrite bit_m]; lia.
Qed.

Lemma cell_range ds : forall s, In s (all_states n) -> Forall (okd n) ds ->
  inrange (2 ^ Z.of_nat (length ds)) (cell n s ds).
Proof.
  induction ds as [|d ds IH]; intros s Hs Hd.
  - cbn. unfold inrange. apply Forall_forall. intros z Hz. apply repeat_spec in Hz. subst. lia.
  - inversion Hd as [|? ? Hd1 Hd2]; subst. rewrite cell_cons. cbn [length]. rewrite Nat2Z.inj_succ, Z.pow_succ_r by lia.
    destruct (loc_shape s d Hs Hd1) as [L F].
    apply vadd_range.
    + rewrite L. symmetry. apply (cell_len n Hall); [apply loc_closed; assumption | assumption].
    + exact F.
    + apply IH; [apply loc_closed; assumption | assumption].
Qed.

(* ---- the inverse map on cells (model of the level loop of __GetXonY) ---- *)
Fixpoint uncell (s : state) (k : nat) (c : list Z) : list Z :=
  match k with
  | O => []
  | S k' =>
    let P := 2 ^ Z.of_nat k' in
    let sgn := map (fun z => if P <=? z then 1 else -1) c in
    let '(s', d) := inv_step n s sgn in
    d :: uncell s' k' (map (fun z => z mod P) c)
  end.

Lemma split_sign P u rest : 0 < P -> length u = length rest -> Forall pm u -> inrange P rest ->
  map (fun z => if P <=? z then 1 else -1) (vadd (map (fun x => bit x * P) u) rest) = u /\
  map (fun z => z mod P) (vadd (map (fun x => bit x * P) u) rest) = rest.
Proof.
  unfold vadd, inrange. intros HP. revert rest. induction u as [|a u IH]; intros [|b rest]; cbn [map map2 length]; try discriminate; intros L F R; [split; reflexivity|].
  injection L as L. inversion F as [|? ? Pa F']; inversion R as [|? ? Rb R']; subst.
  destruct (IH rest L F' R') as [E1 E2]. rewrite E1, E2.
  destruct Pa as [-> | ->]; [rewrite bit_p | rewrite bit_m]; split; f_equal.
  - destruct (Z.leb_spec P (1 * P + b)); [reflexivity | lia].
  - replace (1 * P + b) with (b + 1 * P) by lia. rewrite Z.mod_add by lia. apply Z.mod_small. lia.
  - destruct (Z.leb_spec P (0 * P + b)); [lia | reflexivity].
  - rewrite Z.mul_0_l, Z.add_0_l. apply Z.mod_small. lia.
Qed.

Theorem uncell_cell ds : forall s, In s (all_states n) -> Forall (okd n) ds ->
  uncell s (length ds) (cell n s ds) = ds.
Proof.
  induction ds as [|d ds IH]; intros s Hs Hd; [reflexivity|].
  inversion Hd as [|? ? Hd1 Hd2]; subst. rewrite cell_cons. cbn [length uncell].
  destruct (loc_shape s d Hs Hd1) as [L F].
  assert (HP : 0 < 2 ^ Z.of_nat (length ds)) by (apply Z.pow_pos_nonneg; lia).
  assert (Hlen : length (snd (step n s d)) = length (cell n (fst (step n s d)) ds)).
  { rewrite L. symmetry. apply (cell_len n Hall); [apply loc_closed; assumption | assumption]. }
  destruct (split_sign _ _ _ HP Hlen F (cell_range ds _ (loc_closed s d Hs Hd1) Hd2)) as [E1 E2].
  rewrite E1, E2, inv_fwd by assumption. f_equal. apply IH; [apply loc_closed; assumption | assumption].
Qed.

Lemma zeros_eq c : length c = n -> inrange 1 c -> c = repeat 0 n.
Proof.
  intros L F. rewrite <- L. clear L. unfold inrange in F. induction c as [|a c IH]; [reflexivity|].
  inversion F; subst. cbn [length repeat]. f_equal; [lia | apply IH; assumption].
Qed.

Lemma sign_shape P c : length c = n -> In (map (fun z => if P <=? z then 1 else -1) c) (signvecs n).
Proof.
  intros L. apply signvecs_spec. split; [rewrite map_length; exact L|].
  apply Forall_forall. intros z Hz. apply in_map_iff in Hz as [x [<- _]]. unfold pm. destruct (P <=? x); auto.
Qed.

Lemma rejoin P c : 0 < P -> inrange (2 * P) c ->
  vadd (map (fun x => bit x * P) (map (fun z => if P <=? z then 1 else -1) c)) (map (fun z => z mod P) c) = c.
Proof.
  unfold vadd, inrange. intros HP. induction c as [|a c IH]; intros R; [reflexivity|].
  inversion R as [|? ? Ra R']; subst. cbn [map map2]. rewrite IH by assumption. f_equal.
  destruct (Z.leb_spec P a).
  - rewrite bit_p. replace a with ((a - P) + 1 * P) at 1 by lia. rewrite Z.mod_add by lia. rewrite Z.mod_small by lia. lia.
  - rewrite bit_m. rewrite Z.mod_small by lia. lia.
Qed.

Lemma mod_range P c : 0 < P -> inrange P (map (fun z => z mod P) c).
Proof. intros HP. unfold inrange. apply Forall_forall. intros z Hz. apply in_map_iff in Hz as [x [<- _]]. apply Z.mod_pos_bound. lia. Qed.

Theorem cell_uncell k : forall s c, In s (all_states n) -> length c = n -> inrange (2 ^ Z.of_nat k) c ->
  Forall (okd n) (uncell s k c) /\ length (uncell s k c) = k /\ cell n s (uncell s k c) = c.
Proof.
  induction k as [|k IH]; intros s c Hs L R.
  - cbn. repeat split; [constructor | symmetry; apply zeros_eq; assumption].
  - cbn [uncell]. set (P := 2 ^ Z.of_nat k). set (sgn := map (fun z => if P <=? z then 1 else -1) c).
    assert (HP : 0 < P) by (apply Z.pow_pos_nonneg; lia).
    assert (Hsgn : In sgn (signvecs n)) by (apply sign_shape; exact L).
    destruct (inv_bwd s sgn Hs Hsgn) as [Hd Hu]. pose proof (inv_bwd_state s sgn Hs Hsgn) as Hst.
    destruct (inv_step n s sgn) as [s' d] eqn:E. cbn [fst snd] in *.
    assert (Hs' : In s' (all_states n)) by (rewrite Hst; apply loc_closed; assumption).
    destruct (IH s' (map (fun z => z mod P) c) Hs') as [I1 [I2 I3]].
    { rewrite map_length. exact L. }
    { apply mod_range. exact HP. }
    repeat split.
    + constructor; assumption.
    + cbn. f_equal. exact I2.
    + rewrite cell_cons, I2. rewrite <- Hst, I3, Hu. apply rejoin; [exact HP|].
      rewrite Nat2Z.inj_succ, Z.pow_succ_r in R by lia. exact R.
Qed.

Corollary cell_injective ds ds' s : In s (all_states n) -> Forall (okd n) ds -> Forall (okd n) ds' ->
  length ds = length ds' -> cell n s ds = cell n s ds' -> ds = ds'.
Proof.
  intros Hs F F' L E. rewrite <- (uncell_cell ds s Hs F), <- (uncell_cell ds' s Hs F'). rewrite L, E. reflexivity.
Qed.

Corollary cell_surjective k s c : In s (all_states n) -> length c = n -> inrange (2 ^ Z.of_nat k) c ->
  exists ds, Forall (okd n) ds /\ length ds = k /\ cell n s ds = c.
Proof. intros Hs L R. exists (uncell s k c). apply cell_uncell; assumption. Qed.

End Dim.
