(* Hoelder continuity of the evolvent at cell level: points closer than 2^(-n k) on the curve have cells whose
   squared distance is below (n+3) 4^(m-k) cell widths - from adjacency at depth k and nesting of the grids. *)
From Coq Require Import ZArith List Lia Bool.
From IOptV Require Import Evolvent.Ev Evolvent.Adj Evolvent.Bij Evolvent.Curve.
Import ListNotations.
Open Scope Z_scope.

Fixpoint sumsq (a b : list Z) : Z :=
  match a, b with
  | x :: a', y :: b' => (x - y) * (x - y) + sumsq a' b'
  | _, _ => 0
  end.

Lemma dcount_refl a : dcount a a = Some 0%nat.
Proof. induction a as [|x a IH]; cbn [dcount]; [reflexivity|]. rewrite IH, Z.eqb_refl. reflexivity. Qed.

Lemma dcount_sym a : forall b, dcount a b = dcount b a.
Proof.
  induction a as [|x a IH]; intros [|y b]; cbn [dcount]; try reflexivity.
  rewrite (IH b). rewrite (Z.eqb_sym y x). replace (y - x) with (- (x - y)) by lia. rewrite Z.abs_opp. reflexivity.
Qed.

Lemma same_quot P x y : 0 < P -> x / P = y / P -> (x - y) * (x - y) <= (P - 1) * (P - 1).
Proof.
  intros HP E. pose proof (Z.div_mod x P ltac:(lia)) as Ex. pose proof (Z.div_mod y P ltac:(lia)) as Ey.
  pose proof (Z.mod_pos_bound x P HP). pose proof (Z.mod_pos_bound y P HP).
  rewrite E in Ex. assert (D : x - y = x mod P - y mod P) by lia. rewrite D.
  set (t := x mod P - y mod P). assert (- (P - 1) <= t <= P - 1) by (subst t; lia). nia.
Qed.

Lemma adj_quot P x y : 0 < P -> Z.abs (x / P - y / P) = 1 -> (x - y) * (x - y) <= (2 * P - 1) * (2 * P - 1).
Proof.
  intros HP E. pose proof (Z.div_mod x P ltac:(lia)) as Ex. pose proof (Z.div_mod y P ltac:(lia)) as Ey.
  pose proof (Z.mod_pos_bound x P HP). pose proof (Z.mod_pos_bound y P HP).
  set (qx := x / P) in *. set (qy := y / P) in *. set (rx := x mod P) in *. set (ry := y mod P) in *.
  assert (D : x - y = P * (qx - qy) + (rx - ry)) by lia. rewrite D.
  assert (C : qx - qy = 1 \/ qx - qy = -1) by lia.
  set (t := P * (qx - qy) + (rx - ry)). assert (- (2 * P - 1) <= t <= 2 * P - 1) by (subst t; destruct C as [-> | ->]; lia). nia.
Qed.

Lemma sumsq_bound P : 0 < P -> forall a b d, length a = length b ->
  dcount (map (fun z => z / P) a) (map (fun z => z / P) b) = Some d ->
  sumsq a b <= (Z.of_nat (length a) - Z.of_nat d) * ((P - 1) * (P - 1)) + Z.of_nat d * ((2 * P - 1) * (2 * P - 1)).
Proof.
  intros HP. induction a as [|x a IH]; intros [|y b] d L; cbn [map dcount sumsq length] in *; try discriminate.
  - intros [= <-]. lia.
  - injection L as L. destruct (dcount (map (fun z => z / P) a) (map (fun z => z / P) b)) as [k|] eqn:E; [|discriminate].
    specialize (IH b k L E).
    destruct (Z.eqb_spec (x / P) (y / P)) as [Q|Q].
    + intros [= <-]. pose proof (same_quot P x y HP Q). rewrite Nat2Z.inj_succ. lia.
    + destruct (Z.eqb_spec (Z.abs (x / P - y / P)) 1) as [Q1|Q1]; [|discriminate].
      intros [= <-]. pose proof (adj_quot P x y HP Q1). rewrite !Nat2Z.inj_succ.
      assert ((P - 1) * (P - 1) >= 0) by nia. nia.
Qed.

Lemma dcount_le_len a : forall b d, dcount a b = Some d -> (d <= length a)%nat.
Proof.
  induction a as [|x a IH]; intros [|y b] d; cbn [dcount length]; try discriminate.
  - intros [= <-]. lia.
  - destruct (dcount a b) as [k|] eqn:E; [|discriminate]. specialize (IH b k E).
    destruct (x =? y); [intros [= <-]; lia|]. destruct (Z.abs (x - y) =? 1); [intros [= <-]; lia | discriminate].
Qed.

Section Dim.
Variable n : nat.
Hypothesis Hall : all_ok n = true.
Hypothesis Hn : (1 <= n)%nat.

Lemma B_mul m k : B n (m + k) = B n m * B n k.
Proof. unfold B. rewrite <- Z.pow_add_r by lia. f_equal. lia. Qed.

(* general form: the depth-k ancestors of the two subintervals are equal or consecutive *)
Theorem holder_cells_close m k i j : (k <= m)%nat -> 0 <= i < B n m -> 0 <= j < B n m ->
  Z.abs (i / B n (m - k) - j / B n (m - k)) <= 1 ->
  sumsq (cellI n m i) (cellI n m j) < (Z.of_nat n + 3) * 4 ^ Z.of_nat (m - k).
Proof.
  intros Hk Hi Hj Hd.
  set (e := (m - k)%nat) in *. assert (Em : m = (k + e)%nat) by (subst e; lia).
  set (P := 2 ^ Z.of_nat e). assert (HP : 0 < P) by (apply Z.pow_pos_nonneg; lia).
  assert (E4 : 4 ^ Z.of_nat e = P * P).
  { subst P. rewrite <- Z.pow_mul_l. reflexivity. }
  pose proof (B_pos n e) as Be.
  rewrite Em in Hi, Hj.
  pose proof (cellI_nested n Hall k e i Hi) as Ni. pose proof (cellI_nested n Hall k e j Hj) as Nj.
  fold P in Ni, Nj.
  destruct (cellI_in_grid n Hall (k + e) i Hi) as [Li _]. destruct (cellI_in_grid n Hall (k + e) j Hj) as [Lj _].
  set (I := i / B n e) in *. set (J := j / B n e) in *.
  assert (RI : 0 <= I < B n k).
  { subst I. rewrite B_mul in Hi. split; [apply Z.div_pos; lia | apply Z.div_lt_upper_bound; lia]. }
  assert (RJ : 0 <= J < B n k).
  { subst J. rewrite B_mul in Hj. split; [apply Z.div_pos; lia | apply Z.div_lt_upper_bound; lia]. }
  assert (Close : I = J \/ J = I + 1 \/ I = J + 1) by lia.
  assert (DC : exists d, (d <= 1)%nat /\ dcount (map (fun z => z / P) (cellI n (k + e) i)) (map (fun z => z / P) (cellI n (k + e) j)) = Some d).
  { rewrite Ni, Nj. destruct Close as [-> | [-> | ->]].
    - exists 0%nat. split; [lia | apply dcount_refl].
    - exists 1%nat. split; [lia | apply (cellI_adjacent n Hall k I); lia].
    - exists 1%nat. split; [lia|].
      rewrite dcount_sym. apply (cellI_adjacent n Hall k J); lia. }
  destruct DC as [d [Hd1 DC]].
  assert (LL : length (cellI n (k + e) i) = length (cellI n (k + e) j)) by congruence.
  pose proof (sumsq_bound P HP _ _ d LL DC) as Bd. rewrite Li in Bd. rewrite Em.
  rewrite E4. assert (P >= 1) by lia.
  destruct d as [|[|d]]; [| |lia]; cbn [Z.of_nat] in Bd; nia.
Qed.

Theorem holder_cells m k i j : (k <= m)%nat -> 0 <= i < B n m -> 0 <= j < B n m -> Z.abs (i - j) < B n (m - k) ->
  sumsq (cellI n m i) (cellI n m j) < (Z.of_nat n + 3) * 4 ^ Z.of_nat (m - k).
Proof.
  intros Hk Hi Hj Hd. apply holder_cells_close; try assumption.
  pose proof (B_pos n (m - k)) as Be.
  pose proof (Z.div_mod i (B n (m - k)) ltac:(lia)). pose proof (Z.div_mod j (B n (m - k)) ltac:(lia)).
  pose proof (Z.mod_pos_bound i (B n (m - k)) Be). pose proof (Z.mod_pos_bound j (B n (m - k)) Be).
  set (I := i / B n (m - k)) in *. set (J := j / B n (m - k)) in *. nia.
Qed.

End Dim.
