(* The real-valued Hoelder inequality of the evolvent, from the cell-level bound of Holder.v:
     ||y(x') - y(x'')||_2 <= 2 sqrt(N+3) |x' - x''|^(1/N)      whenever |x' - x''| >= 2^(-N m)    (unit cube)
   Points are real numbers; the only thing used about the map x |-> subinterval index is i <= x * 2^(N m) <= i + 1. *)
From Coq Require Import ZArith Reals List Lia Lra Psatz.
From IOptV Require Import Evolvent.Ev Evolvent.Adj Evolvent.Bij Evolvent.Curve Evolvent.Holder.
Import ListNotations.
Open Scope R_scope.

Lemma IZR_B n k : IZR (B n k) = 2 ^ (n * k).
Proof. unfold B. rewrite <- pow_IZR. reflexivity. Qed.

Lemma B_add n m k : B n (m + k) = (B n m * B n k)%Z.
Proof. unfold B. rewrite <- Z.pow_add_r by lia. f_equal. lia. Qed.

Lemma RB_pos n k : 0 < IZR (B n k).
Proof. apply IZR_lt. apply B_pos. Qed.

Lemma pow_lt_strict x y n : 0 <= x -> x < y -> (0 < n)%nat -> x ^ n < y ^ n.
Proof.
  intros Hx Hxy Hn. induction n as [|n IH]; [lia|].
  destruct n as [|n]; [simpl; lra|].
  assert (IH' : x ^ S n < y ^ S n) by (apply IH; lia).
  assert (0 <= x ^ S n) by (apply pow_le; assumption).
  change (x * x ^ S n < y * y ^ S n). nra.
Qed.

(* the depth-k ancestor of subinterval i brackets x * 2^(N k) *)
Lemma ancestor_brackets n k e i x : (0 <= i)%Z ->
  IZR i <= x * IZR (B n (k + e)) <= IZR i + 1 ->
  IZR (i / B n e) <= x * IZR (B n k) <= IZR (i / B n e) + 1.
Proof.
  intros Hi [H1 H2]. pose proof (B_pos n e) as Be. pose proof (RB_pos n e) as RBe.
  rewrite (B_add n k e) in H1, H2. rewrite mult_IZR in H1, H2.
  set (I := (i / B n e)%Z).
  assert (Z1 : (I * B n e <= i)%Z) by (subst I; rewrite Z.mul_comm; apply Z.mul_div_le; lia).
  assert (Z2 : (i + 1 <= (I + 1) * B n e)%Z).
  { subst I. pose proof (Z.div_mod i (B n e) ltac:(lia)). pose proof (Z.mod_pos_bound i (B n e) Be). nia. }
  apply IZR_le in Z1, Z2. rewrite mult_IZR in Z1. rewrite mult_IZR, !plus_IZR in Z2.
  set (b := IZR (B n e)) in *. generalize dependent (IZR (B n k)). intros bk H1 H2.
  split.
  - apply (Rmult_le_reg_r b); [assumption|]. nra.
  - apply (Rmult_le_reg_r b); [assumption|]. nra.
Qed.

(* choose the depth: the largest k < m with |dx| * 2^(N k) < 1 (or k = 0) *)
Lemma pick_depth n m q : (1 <= m)%nat -> 0 <= q <= 1 -> 1 <= q * IZR (B n m) ->
  exists k, (k < m)%nat /\ (q * IZR (B n k) < 1 \/ k = 0%nat) /\ 1 <= q * IZR (B n (S k)).
Proof.
  intros Hm Hq. induction m as [|m IH]; [lia|]. intros Hb.
  destruct m as [|m].
  - exists 0%nat. repeat split; [lia | right; reflexivity | assumption].
  - destruct (Rlt_or_le (q * IZR (B n (S m))) 1) as [Lt | Ge].
    + exists (S m). repeat split; [lia | left; assumption | assumption].
    + destruct (IH ltac:(lia) Ge) as (k & Hk & Hc & Hs). exists k. repeat split; [lia | assumption | assumption].
Qed.

Section Dim.
Variable n : nat.
Hypothesis Hall : all_ok n = true.
Hypothesis Hn : (1 <= n)%nat.

(* powered form, no roots: (||dy||^2)^N <= (4 (N+3))^N |dx|^2, with ||dy||^2 = sumsq / 4^m in cube units *)
Theorem holder_powered m i j x x' : (1 <= m)%nat -> (0 <= i < B n m)%Z -> (0 <= j < B n m)%Z ->
  0 <= x <= 1 -> 0 <= x' <= 1 ->
  IZR i <= x * IZR (B n m) <= IZR i + 1 -> IZR j <= x' * IZR (B n m) <= IZR j + 1 ->
  1 <= Rabs (x - x') * IZR (B n m) ->
  (IZR (sumsq (cellI n m i) (cellI n m j)) / 4 ^ m) ^ n <= (4 * (INR n + 3)) ^ n * (Rabs (x - x')) ^ 2.
Proof.
  intros Hm Hi Hj Hx Hx' Bi Bj Hq.
  set (q := Rabs (x - x')) in *.
  assert (Hq01 : 0 <= q <= 1) by (subst q; split; [apply Rabs_pos | apply Rabs_le; lra]).
  destruct (pick_depth n m q Hm Hq01 Hq) as (k & Hk & Hc & Hs).
  set (e := (m - k)%nat). assert (Em : m = (k + e)%nat) by (subst e; lia).
  (* ancestors at depth k coincide or are consecutive *)
  assert (Close : (Z.abs (i / B n e - j / B n e) <= 1)%Z).
  { destruct Hc as [Hc | ->].
    - rewrite Em in Bi, Bj.
      pose proof (ancestor_brackets n k e i x ltac:(lia) Bi) as [A1 A2].
      pose proof (ancestor_brackets n k e j x' ltac:(lia) Bj) as [A3 A4].
      set (I := (i / B n e)%Z) in *. set (J := (j / B n e)%Z) in *.
      pose proof (RB_pos n k) as Bk.
      assert (Hd : Rabs (x * IZR (B n k) - x' * IZR (B n k)) < 1).
      { replace (x * IZR (B n k) - x' * IZR (B n k)) with ((x - x') * IZR (B n k)) by ring.
        rewrite Rabs_mult, (Rabs_right (IZR (B n k))) by lra. exact Hc. }
      apply Rabs_def2 in Hd. destruct Hd as [Hd1 Hd2].
      assert (L1 : IZR (I - J) < 2) by (rewrite minus_IZR; lra).
      assert (L2 : IZR (J - I) < 2) by (rewrite minus_IZR; lra).
      apply lt_IZR in L1, L2. lia.
    - subst e. rewrite Nat.sub_0_r. rewrite !Z.div_small by lia. simpl. lia. }
  pose proof (holder_cells_close n Hall Hn m k i j ltac:(lia) Hi Hj Close) as HD. fold e in HD.
  set (D := sumsq (cellI n m i) (cellI n m j)) in *.
  assert (D0 : (0 <= D)%Z).
  { subst D. generalize (cellI n m i) (cellI n m j). induction l as [|a l IH]; intros [|b l']; cbn [sumsq]; try lia. specialize (IH l'). pose proof (Z.square_nonneg (a - b)). lia. }
  (* to the reals *)
  assert (RD : IZR D <= (INR n + 3) * 4 ^ e).
  { apply Z.lt_le_incl in HD. apply IZR_le in HD. rewrite mult_IZR, plus_IZR, <- INR_IZR_INZ, <- pow_IZR in HD. exact HD. }
  assert (P4m : 4 ^ m = 4 ^ k * 4 ^ e) by (rewrite Em; apply pow_add).
  assert (P4k : 0 < 4 ^ k) by (apply pow_lt; lra). assert (P4e : 0 < 4 ^ e) by (apply pow_lt; lra).
  assert (N3 : 0 < INR n + 3) by (pose proof (pos_INR n); lra).
  assert (Step1 : IZR D / 4 ^ m <= (INR n + 3) / 4 ^ k).
  { rewrite P4m. apply (Rmult_le_reg_r (4 ^ k * 4 ^ e)); [nra|]. field_simplify; [|lra|lra]. nra. }
  assert (Pos1 : 0 <= IZR D / 4 ^ m).
  { apply Rmult_le_pos; [apply IZR_le; assumption | left; apply Rinv_0_lt_compat; rewrite P4m; nra]. }
  apply Rle_trans with (((INR n + 3) / 4 ^ k) ^ n); [apply pow_incr; split; assumption|].
  (* lower bound for q^2 *)
  rewrite IZR_B in Hs.
  assert (P2 : 0 < 2 ^ (n * S k)) by (apply pow_lt; lra).
  assert (Q1 : / 2 ^ (n * S k) <= q).
  { apply (Rmult_le_reg_r (2 ^ (n * S k))); [assumption|]. rewrite Rinv_l by lra. exact Hs. }
  assert (Q2 : (/ 2 ^ (n * S k)) ^ 2 <= q ^ 2).
  { apply pow_incr. split; [left; apply Rinv_0_lt_compat; assumption | assumption]. }
  assert (E1 : (/ 2 ^ (n * S k)) ^ 2 = / (4 ^ n * (4 ^ k) ^ n)).
  { rewrite pow_inv. f_equal. rewrite <- pow_mult. replace (n * S k * 2)%nat with (2 * (n + k * n))%nat by lia.
    rewrite pow_mult. replace (2 ^ 2) with 4 by (simpl; lra). rewrite pow_add, pow_mult. reflexivity. }
  rewrite E1 in Q2.
  assert (Pkn : 0 < (4 ^ k) ^ n) by (apply pow_lt; assumption).
  assert (P4n : 0 < 4 ^ n) by (apply pow_lt; lra).
  assert (PN : 0 < (INR n + 3) ^ n) by (apply pow_lt; assumption).
  unfold Rdiv. rewrite !Rpow_mult_distr. rewrite pow_inv.
  apply Rle_trans with (4 ^ n * (INR n + 3) ^ n * / (4 ^ n * (4 ^ k) ^ n)).
  - right. field. lra.
  - apply Rmult_le_compat_l; [nra | assumption].
Qed.

(* with roots *)
Theorem holder_real m i j x x' : (1 <= m)%nat -> (0 <= i < B n m)%Z -> (0 <= j < B n m)%Z ->
  0 <= x <= 1 -> 0 <= x' <= 1 ->
  IZR i <= x * IZR (B n m) <= IZR i + 1 -> IZR j <= x' * IZR (B n m) <= IZR j + 1 ->
  1 <= Rabs (x - x') * IZR (B n m) ->
  sqrt (IZR (sumsq (cellI n m i) (cellI n m j)) / 4 ^ m) <= 2 * sqrt (INR n + 3) * Rpower (Rabs (x - x')) (/ INR n).
Proof.
  intros Hm Hi Hj Hx Hx' Bi Bj Hq.
  pose proof (holder_powered m i j x x' Hm Hi Hj Hx Hx' Bi Bj Hq) as HP.
  set (q := Rabs (x - x')) in *. set (t := IZR (sumsq (cellI n m i) (cellI n m j)) / 4 ^ m) in *.
  assert (Hq0 : 0 < q).
  { pose proof (RB_pos n m). destruct (Rle_lt_dec q 0) as [Le|]; [|assumption]. exfalso. nra. }
  assert (N3 : 0 < INR n + 3) by (pose proof (pos_INR n); lra).
  assert (Nn : 0 < INR n) by (apply lt_0_INR; lia).
  set (a := sqrt t). set (b := 2 * sqrt (INR n + 3) * Rpower q (/ INR n)).
  assert (Ha : 0 <= a) by apply sqrt_pos.
  assert (Hb : 0 < b).
  { subst b. apply Rmult_lt_0_compat; [apply Rmult_lt_0_compat; [lra | apply sqrt_lt_R0; assumption] | unfold Rpower; apply exp_pos]. }
  destruct (Rle_lt_dec a b) as [Le | Lt]; [assumption|]. exfalso.
  assert (St : b ^ (2 * n) < a ^ (2 * n)) by (apply pow_lt_strict; [lra | assumption | lia]).
  destruct (Rle_lt_dec 0 t) as [T0 | T0].
  - assert (Ea : a ^ (2 * n) = t ^ n).
    { rewrite pow_mult. f_equal. subst a. simpl. rewrite Rmult_1_r. apply sqrt_sqrt. assumption. }
    assert (Eb : b ^ (2 * n) = (4 * (INR n + 3)) ^ n * q ^ 2).
    { subst b. rewrite !Rpow_mult_distr. rewrite (pow_mult 2 2 n), (pow_mult (sqrt _) 2 n).
      replace (sqrt (INR n + 3) ^ 2) with (INR n + 3) by (simpl; rewrite Rmult_1_r, sqrt_sqrt; lra).
      replace (2 ^ 2) with 4 by (simpl; lra).
      replace (Rpower q (/ INR n) ^ (2 * n)) with (q ^ 2); [reflexivity|].
      rewrite (Nat.mul_comm 2 n), pow_mult. f_equal.
      rewrite <- Rpower_pow by (unfold Rpower; apply exp_pos). rewrite Rpower_mult, Rinv_l by lra. symmetry. apply Rpower_1. assumption. }
    lra.
  - subst a. rewrite sqrt_neg_0 in Lt by lra. lra.
Qed.

End Dim.
