(* Ties between the model GENERATED from iOpt/evolvent/evolvent.py (gen/EvolventGen.v, regenerated on every run)
   and the hand-written clean model the theorems are about. All statements are complete enumerations of finite
   domains evaluated by the kernel. A change to evolvent.py that alters the digit machine breaks one of them. *)
From Coq Require Import ZArith QArith Qround List Bool Lia.
From IOptV Require Import gen.EvolventGen Evolvent.Ev Evolvent.Adj Evolvent.Bij Evolvent.Curve Evolvent.Image.
Import ListNotations.
Open Scope Z_scope.

Definition zl_eqb (a b : list Z) : bool := if list_eq_dec Z.eq_dec a b then true else false.
Fixpoint ql_eqb (a b : list Q) : bool :=
  match a, b with
  | [], [] => true
  | x :: a', y :: b' => Qeq_bool x y && ql_eqb a' b'
  | _, _ => false
  end.

Definition nexpQ (n : nat) : Q := inject_Z (2 ^ Z.of_nat n).
Definition zerosZ (n : nat) := repeat 0 n.

(* __CalculateNode: generated code on the digit d (as the float the code sees) = clean node, all digits *)
Definition node_agrees (n : nat) : bool :=
  forallb (fun d =>
    let '(l, u, v) := gen_Evolvent__CalculateNode n 10%nat (nexpQ n) [] [] [] 0 (inject_Z d) n (zerosZ n) (zerosZ n) in
    let '(l', u', v') := node n d in
    Nat.eqb l l' && zl_eqb u u' && zl_eqb v v') (digits n).

(* __CalculateNumbr: generated code = clean numbr on all sign vectors *)
Definition numbr_agrees (n : nat) : bool :=
  forallb (fun u =>
    let '(s, l, v, _) := gen_Evolvent__CalculateNumbr n 10%nat (nexpQ n) [] [] [] 0 u (zerosZ n) in
    let '(s', l', v') := numbr n u in
    Qeq_bool s (inject_Z s') && Nat.eqb l l' && zl_eqb v v') (signvecs n).

Lemma gen_node_is_node : forallb node_agrees [2; 3; 4; 5]%nat = true.
Proof. vm_compute. reflexivity. Qed.
Lemma gen_numbr_is_numbr : forallb numbr_agrees [2; 3; 4; 5]%nat = true.
Proof. vm_compute. reflexivity. Qed.

(* the constructor computes nexpExtended = 2^N and stores bounds / density unchanged *)
Definition new_ok (n m : nat) : bool :=
  let lo := map (fun k => inject_Z (Z.of_nat k) - 1)%Q (seq 0 n) in
  let hi := map (fun k => 2 * inject_Z (Z.of_nat k) + 1)%Q (seq 0 n) in
  let o := gen_new lo hi n m in
  Nat.eqb (eN o) n && Nat.eqb (em o) m && Qeq_bool (enexp o) (nexpQ n) && ql_eqb (elo o) lo && ql_eqb (ehi o) hi &&
  Nat.eqb (length (ey o)) n.
Lemma gen_new_ok : forallb (fun n => forallb (new_ok n) (seq 0 13)) [1; 2; 3; 4; 5]%nat = true.
Proof. vm_compute. reflexivity. Qed.

(* whole queries, exhaustively over all subintervals of small grids, on an asymmetric box:
   GetImage(midpoint of subinterval i) = centre of the clean model's cell i mapped to the box,
   GetInverseImage / GetPreimages of that point = i / 2^(N m); x = 1 -> last cell *)
Definition box_lo (n : nat) : list Q := map (fun k => inject_Z (Z.of_nat k) - 1)%Q (seq 0 n).
Definition box_hi (n : nat) : list Q := map (fun k => 2 * inject_Z (Z.of_nat k) + 1)%Q (seq 0 n).

Definition query_agrees (n m : nat) : bool :=
  let lo := box_lo n in let hi := box_hi n in
  let o := gen_new lo hi n m in
  let K := B n m in
  forallb (fun k =>
    let i := Z.of_nat k in
    let x := (inject_Z (2 * i + 1) / inject_Z (2 * K))%Q in
    let '(y, o1) := gen_image o x in
    let expect := box_point m lo hi (cellI n m i) in
    let '(xi, o2) := gen_inverse o1 y in
    let '(xp, _) := gen_preimages o2 y in
    ql_eqb y expect && Qeq_bool xi (inject_Z i / inject_Z K) && Qeq_bool xp xi) (seq 0 (Z.to_nat K)) &&
  ql_eqb (fst (gen_image o 1%Q)) (box_point m lo hi (cellI n m (K - 1))) &&
  ql_eqb (fst (gen_image o 0%Q)) (box_point m lo hi (cellI n m 0)).

Lemma gen_queries_agree_small :
  forallb (fun nm => query_agrees (fst nm) (snd nm))
    [(2, 1); (2, 2); (2, 3); (2, 4); (3, 1); (3, 2); (3, 3); (4, 1); (4, 2); (5, 1); (5, 2)]%nat = true.
Proof. vm_compute. reflexivity. Qed.

(* N = 1 is the affine pair *)
Definition affine_agrees (x : Q) : bool :=
  let o := gen_new [(-3 # 2)%Q] [(5 # 2)%Q] 1 10 in
  let '(y, o1) := gen_image o x in
  let '(xi, _) := gen_inverse o1 y in
  ql_eqb y [image1 (-3 # 2) (5 # 2) x] && Qeq_bool xi x.
Lemma gen_affine_1d : forallb affine_agrees [0; 1; 1 # 2; 1 # 3; 7 # 8; 123 # 1000]%Q = true.
Proof. vm_compute. reflexivity. Qed.
