(* Executable checkers used by the run-time correspondence: each case carries what the IMPLEMENTATION returned
   (binary64 values as exact rationals); the clean model and the generated model are evaluated here. *)
From Coq Require Import ZArith QArith Qabs Qround List Bool.
From IOptV Require Import gen.EvolventGen Evolvent.Ev Evolvent.Adj Evolvent.Bij Evolvent.Curve Evolvent.Image Evolvent.Bridge.
Import ListNotations.

Definition clean_image (n m : nat) (lo hi : list Q) (x : Q) : list Q :=
  if Nat.eqb n 1 then [image1 (nthQ lo 0) (nthQ hi 0) x] else image n m lo hi x.

Fixpoint close_list (a b : list Q) (tol : Q) : bool :=
  match a, b with
  | [], [] => true
  | x :: a', y :: b' => Qle_bool (Qabs (x - y)) tol && close_list a' b' tol
  | _, _ => false
  end.

(* result codes: 0 = agree; 1 = generated model differs from clean model; 2 = implementation differs from clean model *)
Definition chk_image (c : nat * nat * list Q * list Q * Q * list Q * Q) : nat :=
  let '(n, m, lo, hi, x, y_impl, tol) := c in
  let clean := clean_image n m lo hi x in
  let g := fst (gen_image (gen_new lo hi n m) x) in
  if negb (ql_eqb g clean) then 1%nat
  else if negb (close_list y_impl clean tol) then 2%nat else 0%nat.

Definition clean_inverse (n m : nat) (lo hi y : list Q) : Q :=
  if Nat.eqb n 1 then inverse1 (nthQ lo 0) (nthQ hi 0) (nthQ y 0)
  else (inject_Z (inverse_index n m lo hi y) / inject_Z (B n m))%Q.

Definition chk_inverse (c : nat * nat * list Q * list Q * list Q * Q * Q) : nat :=
  let '(n, m, lo, hi, y, x_impl, tol) := c in
  let clean := clean_inverse n m lo hi y in
  let o := gen_new lo hi n m in
  let g := fst (gen_inverse o y) in
  let gp := fst (gen_preimages o y) in
  if negb (Qeq_bool g clean && Qeq_bool gp clean) then 1%nat
  else if negb (Qle_bool (Qabs (x_impl - clean)) tol) then 2%nat else 0%nat.

(* cell index lists, for exhaustive grids: the implementation's cell (integer coordinates) of every subinterval *)
Definition chk_cells (n m : nat) (cells : list (list Z)) : list nat :=
  let K := Z.to_nat (B n m) in
  filter (fun k => negb (zl_eqb (nth k cells []) (cellI n m (Z.of_nat k)))) (seq 0 K).

Fixpoint bad_indices {A} (f : A -> nat) (l : list A) (k : nat) : list (nat * nat) :=
  match l with
  | [] => []
  | c :: t => let r := f c in if Nat.eqb r 0 then bad_indices f t (S k) else (k, r) :: bad_indices f t (S k)
  end.
