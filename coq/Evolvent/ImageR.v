(* The evolvent on real arguments, in real box coordinates: the three facts C01 needs for N >= 2.
   (1) Hoelder with slack: ||image x - image x'|| <= 2 sqrt(N+3) S |x - x'|^(1/N) + sqrt(N+3) S 2^(-m)   for all x, x' in [0,1]
   (2) images lie in the box
   (3) every point of the box is within S (sqrt N / 2) 2^(-m) of some image. *)
From Coq Require Import ZArith Reals List Lia Lra Psatz.
From IOptV Require Import Evolvent.Ev Evolvent.Adj Evolvent.Bij Evolvent.Curve Evolvent.Holder Evolvent.HolderReal.
Import ListNotations.
Open Scope R_scope.

Definition sub_index_R (n m : nat) (x : R) : Z := Z.max 0 (Z.min (Int_part (x * IZR (B n m))) (B n m - 1)).
Definition tcoordR (m : nat) (c : Z) : R := IZR (2 * c + 1) / 2 ^ (m + 1).

Fixpoint box_pointR (m : nat) (lo hi : list R) (c : list Z) : list R :=
  match lo, hi, c with
  | l :: lo', h :: hi', z :: c' => (l + (h - l) * tcoordR m z) :: box_pointR m lo' hi' c'
  | _, _, _ => []
  end.

Definition imageR (n m : nat) (lo hi : list R) (x : R) : list R := box_pointR m lo hi (cellI n m (sub_index_R n m x)).

Fixpoint dist2R (a b : list R) : R :=
  match a, b with
  | x :: a', y :: b' => (x - y) * (x - y) + dist2R a' b'
  | _, _ => 0
  end.

Fixpoint in_boxR (lo hi y : list R) : Prop :=
  match lo, hi, y with
  | l :: lo', h :: hi', v :: y' => l <= v <= h /\ in_boxR lo' hi' y'
  | [], [], [] => True
  | _, _, _ => False
  end.

(* sides of the box: positive and bounded by S *)
Definition sides_ok (S : R) (lo hi : list R) : Prop := Forall2 (fun l h => l < h /\ h - l <= S) lo hi.

Lemma Rabs_le_inv' x a : Rabs x <= a -> - a <= x <= a.
Proof. unfold Rabs; destruct (Rcase_abs x); lra. Qed.

Lemma dist2R_nonneg : forall a b, 0 <= dist2R a b.
Proof. induction a as [|x a IH]; intros [|y b]; cbn [dist2R]; try lra. specialize (IH b). pose proof (Rle_0_sqr (x - y)) as Q. unfold Rsqr in Q. lra. Qed.

Lemma sub_index_R_range n m x : (0 <= sub_index_R n m x < B n m)%Z.
Proof. unfold sub_index_R. pose proof (B_pos n m). lia. Qed.

Lemma sub_index_R_brackets n m x : 0 <= x <= 1 ->
  IZR (sub_index_R n m x) <= x * IZR (B n m) <= IZR (sub_index_R n m x) + 1.
Proof.
  intros Hx. pose proof (RB_pos n m) as BP. pose proof (B_pos n m) as BZ.
  set (t := x * IZR (B n m)).
  destruct (base_Int_part t) as [F1 F2].
  assert (T0 : 0 <= t) by (subst t; nra). assert (T1 : t <= IZR (B n m)) by (subst t; nra).
  assert (G0 : (0 <= Int_part t)%Z).
  { assert (L : IZR (-1) < IZR (Int_part t)) by (simpl; lra). apply lt_IZR in L. lia. }
  assert (G1 : (Int_part t <= B n m)%Z) by (apply le_IZR; lra).
  unfold sub_index_R. fold t.
  destruct (Z.eq_dec (Int_part t) (B n m)) as [E | NE].
  - rewrite E in *. replace (Z.max 0 (Z.min (B n m) (B n m - 1))) with (B n m - 1)%Z by lia. rewrite minus_IZR. lra.
  - replace (Z.max 0 (Z.min (Int_part t) (B n m - 1))) with (Int_part t) by lia. lra.
Qed.

(* the point (i + 1/2) / 2^(N m) belongs to subinterval i *)
Lemma sub_index_R_mid n m i : (0 <= i < B n m)%Z -> sub_index_R n m ((IZR i + / 2) / IZR (B n m)) = i /\ 0 <= (IZR i + / 2) / IZR (B n m) <= 1.
Proof.
  intros Hi. pose proof (RB_pos n m) as BP.
  assert (E : (IZR i + / 2) / IZR (B n m) * IZR (B n m) = IZR i + / 2) by (field; lra).
  split.
  - unfold sub_index_R. rewrite E.
    assert (I : Int_part (IZR i + / 2) = i).
    { unfold Int_part. rewrite <- (up_tech (IZR i + / 2) i); [lia | lra | rewrite plus_IZR; lra]. }
    rewrite I. lia.
  - assert (0 <= IZR i) by (apply IZR_le; lia). assert (IZR i <= IZR (B n m) - 1) by (rewrite <- minus_IZR; apply IZR_le; lia).
    split.
    + apply Rmult_le_pos; [lra | left; apply Rinv_0_lt_compat; lra].
    + apply (Rmult_le_reg_r (IZR (B n m))); [lra|]. rewrite E. lra.
Qed.

Lemma tcoordR_diff m c c' : tcoordR m c - tcoordR m c' = IZR (c - c') / 2 ^ m.
Proof.
  unfold tcoordR. rewrite pow_add. rewrite !plus_IZR, !mult_IZR, minus_IZR. assert (0 < 2 ^ m) by (apply pow_lt; lra).
  simpl. field. lra.
Qed.

Lemma tcoordR_range m c : (0 <= c < 2 ^ Z.of_nat m)%Z -> 0 < tcoordR m c < 1.
Proof.
  intros Hc. unfold tcoordR. assert (P : 0 < 2 ^ (m + 1)) by (apply pow_lt; lra).
  assert (E : IZR (2 ^ Z.of_nat (m + 1)) = 2 ^ (m + 1)) by (rewrite <- pow_IZR; reflexivity).
  assert (L : (0 < 2 * c + 1 < 2 ^ Z.of_nat (m + 1))%Z).
  { replace (Z.of_nat (m + 1)) with (Z.of_nat m + 1)%Z by lia. rewrite Z.pow_add_r by lia. lia. }
  destruct L as [L1 L2]. apply IZR_lt in L1, L2. rewrite E in L2.
  split.
  - apply Rmult_lt_0_compat; [exact L1 | apply Rinv_0_lt_compat; exact P].
  - apply (Rmult_lt_reg_r (2 ^ (m + 1))); [exact P|]. unfold Rdiv. rewrite Rmult_assoc, Rinv_l, Rmult_1_r by lra. lra.
Qed.

(* distance of two cell centres in box coordinates against the integer cell distance *)
Lemma dist2R_box m S : 0 <= S -> forall lo hi c c', length lo = length c -> length hi = length c -> length c' = length c ->
  sides_ok S lo hi ->
  dist2R (box_pointR m lo hi c) (box_pointR m lo hi c') <= S * S * (IZR (sumsq c c') / 4 ^ m).
Proof.
  intros HS lo. induction lo as [|l lo IH]; intros hi c c' L1 L2 L3 F.
  - destruct c; [|discriminate]. destruct c'; [|discriminate]. simpl. lra.
  - destruct c as [|z c]; [discriminate|]. destruct hi as [|h hi]; [discriminate|]. destruct c' as [|z' c']; [discriminate|].
    inversion F as [|? ? ? ? [Hlh Hs] F']; subst.
    cbn [box_pointR dist2R sumsq].
    specialize (IH hi c c' ltac:(simpl in L1; lia) ltac:(simpl in L2; lia) ltac:(simpl in L3; lia) F').
    replace (l + (h - l) * tcoordR m z - (l + (h - l) * tcoordR m z')) with ((h - l) * (tcoordR m z - tcoordR m z')) by ring.
    rewrite tcoordR_diff. rewrite plus_IZR, mult_IZR.
    assert (P2 : 0 < 2 ^ m) by (apply pow_lt; lra).
    assert (P4 : 4 ^ m = 2 ^ m * 2 ^ m) by (rewrite <- Rpow_mult_distr; f_equal; lra).
    rewrite P4 in *. set (w := 2 ^ m) in *. set (d := IZR (z - z')) in *. set (r := IZR (sumsq c c')) in *.
    set (X := dist2R (box_pointR m lo hi c) (box_pointR m lo hi c')) in *.
    assert (Sq : (h - l) * (h - l) <= S * S) by nra.
    assert (DW : 0 <= d / w * (d / w)) by nra.
    assert (T1 : (h - l) * (d / w) * ((h - l) * (d / w)) <= S * S * (d / w * (d / w))).
    { replace ((h - l) * (d / w) * ((h - l) * (d / w))) with ((h - l) * (h - l) * (d / w * (d / w))) by ring.
      apply Rmult_le_compat_r; assumption. }
    replace (S * S * ((d * d + r) / (w * w))) with (S * S * (d / w * (d / w)) + S * S * (r / (w * w))) by (field; lra).
    lra.
Qed.

Lemma box_pointR_in_box m : forall lo hi c S, length lo = length c -> length hi = length c -> sides_ok S lo hi ->
  inrange (2 ^ Z.of_nat m) c -> in_boxR lo hi (box_pointR m lo hi c).
Proof.
  induction lo as [|l lo IH]; intros hi c S L1 L2 F R.
  - destruct c; [|discriminate]. destruct hi; [|discriminate]. exact I.
  - destruct c as [|z c]; [discriminate|]. destruct hi as [|h hi]; [discriminate|].
    inversion F as [|? ? ? ? [Hlh Hs] F']; subst. inversion R as [|? ? Rz R']; subst.
    cbn [box_pointR in_boxR]. pose proof (tcoordR_range m z Rz) as [T0 T1]. split; [nra|].
    apply (IH hi c S); simpl in *; try lia; assumption.
Qed.

(* the cell of a real coordinate: its centre is within half a cell width *)
Lemma clamp_floor (P : Z) (t : R) : (0 < P)%Z -> 0 <= t <= IZR P ->
  let c := Z.max 0 (Z.min (Int_part t) (P - 1)) in (0 <= c < P)%Z /\ IZR c <= t <= IZR c + 1.
Proof.
  intros HP [T0 T1] c. destruct (base_Int_part t) as [F1 F2].
  assert (G0 : (0 <= Int_part t)%Z).
  { assert (L : IZR (-1) < IZR (Int_part t)) by (simpl; lra). apply lt_IZR in L. lia. }
  assert (G1 : (Int_part t <= P)%Z) by (apply le_IZR; lra).
  split; [subst c; lia|]. subst c.
  destruct (Z.eq_dec (Int_part t) P) as [E | NE].
  - rewrite E in *. replace (Z.max 0 (Z.min P (P - 1))) with (P - 1)%Z by lia. rewrite minus_IZR. lra.
  - replace (Z.max 0 (Z.min (Int_part t) (P - 1))) with (Int_part t) by lia. lra.
Qed.

Lemma coord_cell m l h v : l < h -> l <= v <= h ->
  exists c, (0 <= c < 2 ^ Z.of_nat m)%Z /\ Rabs (v - (l + (h - l) * tcoordR m c)) <= (h - l) / 2 ^ (m + 1).
Proof.
  intros Hlh Hv. assert (P2 : 0 < 2 ^ m) by (apply pow_lt; lra).
  set (t := (v - l) / (h - l)).
  assert (T : 0 <= t <= 1).
  { subst t. split; [apply Rmult_le_pos; [lra | left; apply Rinv_0_lt_compat; lra]|].
    apply (Rmult_le_reg_r (h - l)); [lra|]. unfold Rdiv. rewrite Rmult_assoc, Rinv_l by lra. lra. }
  assert (EP : IZR (2 ^ Z.of_nat m) = 2 ^ m) by (rewrite <- pow_IZR; reflexivity).
  destruct (clamp_floor (2 ^ Z.of_nat m) (t * 2 ^ m) ltac:(apply Z.pow_pos_nonneg; lia) ltac:(rewrite EP; nra)) as [Rc Bc].
  set (c := Z.max 0 (Z.min (Int_part (t * 2 ^ m)) (2 ^ Z.of_nat m - 1))) in *.
  exists c. split; [exact Rc|].
  assert (Ev : v = l + (h - l) * t) by (subst t; field; lra).
  assert (Et : tcoordR m c = (IZR c + / 2) / 2 ^ m).
  { unfold tcoordR. rewrite pow_add, plus_IZR, mult_IZR. simpl. field. lra. }
  rewrite Ev at 1. replace (l + (h - l) * t - (l + (h - l) * tcoordR m c)) with ((h - l) * (t - tcoordR m c)) by ring.
  rewrite Rabs_mult, (Rabs_right (h - l)) by lra.
  assert (D : Rabs (t - tcoordR m c) <= / 2 ^ (m + 1)).
  { rewrite Et. replace (t - (IZR c + / 2) / 2 ^ m) with ((t * 2 ^ m - IZR c - / 2) / 2 ^ m) by (field; lra).
    unfold Rdiv. rewrite Rabs_mult, (Rabs_right (/ 2 ^ m)) by (left; apply Rinv_0_lt_compat; exact P2).
    rewrite pow_add. simpl. rewrite Rinv_mult.
    assert (Rabs (t * 2 ^ m - IZR c - / 2) <= / 2) by (apply Rabs_le; lra).
    assert (0 < / 2 ^ m) by (apply Rinv_0_lt_compat; exact P2). nra. }
  unfold Rdiv. apply Rmult_le_compat_l; [lra | exact D].
Qed.

Lemma box_cell m S : 0 <= S -> forall lo hi Y, sides_ok S lo hi -> in_boxR lo hi Y ->
  exists c, length c = length lo /\ inrange (2 ^ Z.of_nat m) c /\
            dist2R Y (box_pointR m lo hi c) <= INR (length lo) * (S * S / 4 ^ (m + 1)).
Proof.
  intros HS lo. induction lo as [|l lo IH]; intros hi Y F IB.
  - destruct hi; [|inversion F]. destruct Y; [|destruct IB]. exists []. split; [reflexivity|]. split; [constructor|]. simpl. lra.
  - destruct hi as [|h hi]; [inversion F|]. destruct Y as [|v Y]; [destruct IB|].
    inversion F as [|? ? ? ? [Hlh Hs] F']; subst. destruct IB as [Hv IB].
    destruct (IH hi Y F' IB) as (c & Lc & Rc & Dc).
    destruct (coord_cell m l h v Hlh Hv) as (z & Rz & Dz).
    exists (z :: c). split; [simpl; lia|]. split; [constructor; assumption|].
    cbn [box_pointR dist2R length]. rewrite S_INR.
    assert (P : 0 < 2 ^ (m + 1)) by (apply pow_lt; lra).
    assert (E4 : 4 ^ (m + 1) = 2 ^ (m + 1) * 2 ^ (m + 1)) by (rewrite <- Rpow_mult_distr; f_equal; lra).
    set (e := v - (l + (h - l) * tcoordR m z)) in *.
    assert (Sq : e * e <= S * S / 4 ^ (m + 1)).
    { apply Rabs_le_inv' in Dz.
      assert (B1 : (h - l) / 2 ^ (m + 1) <= S / 2 ^ (m + 1)) by (apply Rmult_le_compat_r; [left; apply Rinv_0_lt_compat; exact P | lra]).
      assert (B0 : 0 <= (h - l) / 2 ^ (m + 1)) by (apply Rmult_le_pos; [lra | left; apply Rinv_0_lt_compat; exact P]).
      rewrite E4. replace (S * S / (2 ^ (m + 1) * 2 ^ (m + 1))) with (S / 2 ^ (m + 1) * (S / 2 ^ (m + 1))) by (field; lra).
      set (q := S / 2 ^ (m + 1)) in *. set (q0 := (h - l) / 2 ^ (m + 1)) in *. nra. }
    lra.
Qed.

Section Dim.
Variable n : nat.
Hypothesis Hall : all_ok n = true.
Hypothesis Hn : (1 <= n)%nat.

Lemma sqrt_scale s t : 0 <= s -> 0 <= t -> sqrt (s * s * t) = s * sqrt t.
Proof. intros Hs Ht. rewrite sqrt_mult_alt by nra. rewrite sqrt_square by assumption. reflexivity. Qed.

(* (1a) at least one subinterval apart: the Hoelder inequality *)
Lemma imageR_far m lo hi S x x' : (1 <= m)%nat -> length lo = n -> length hi = n -> 0 <= S -> sides_ok S lo hi ->
  0 <= x <= 1 -> 0 <= x' <= 1 -> 1 <= Rabs (x - x') * IZR (B n m) ->
  sqrt (dist2R (imageR n m lo hi x) (imageR n m lo hi x')) <= 2 * sqrt (INR n + 3) * Rpower (Rabs (x - x')) (/ INR n) * S.
Proof.
  intros Hm Llo Lhi HS F Hx Hx' Hq.
  set (i := sub_index_R n m x). set (j := sub_index_R n m x').
  pose proof (sub_index_R_range n m x) as Ri. pose proof (sub_index_R_range n m x') as Rj. fold i in Ri. fold j in Rj.
  pose proof (sub_index_R_brackets n m x Hx) as Bi. pose proof (sub_index_R_brackets n m x' Hx') as Bj. fold i in Bi. fold j in Bj.
  pose proof (holder_real n Hall Hn m i j x x' Hm Ri Rj Hx Hx' Bi Bj Hq) as HR.
  destruct (cellI_in_grid n Hall m i Ri) as [Li _]. destruct (cellI_in_grid n Hall m j Rj) as [Lj _].
  pose proof (dist2R_box m S HS lo hi (cellI n m i) (cellI n m j) ltac:(congruence) ltac:(congruence) ltac:(congruence) F) as HB.
  unfold imageR. fold i j. set (t := IZR (sumsq (cellI n m i) (cellI n m j)) / 4 ^ m) in *.
  apply Rle_trans with (sqrt (S * S * t)); [apply sqrt_le_1_alt; exact HB|].
  destruct (Rle_lt_dec 0 t) as [T0 | T0].
  - rewrite sqrt_scale by assumption. rewrite Rmult_comm. apply Rmult_le_compat_r; assumption.
  - rewrite sqrt_neg_0 by nra. apply Rmult_le_pos; [|assumption].
    apply Rmult_le_pos; [apply Rmult_le_pos; [lra | apply sqrt_pos] | left; unfold Rpower; apply exp_pos].
Qed.

(* (1b) closer than one subinterval: same or neighbouring subintervals *)
Lemma imageR_near m lo hi S x x' : length lo = n -> length hi = n -> 0 <= S -> sides_ok S lo hi ->
  0 <= x <= 1 -> 0 <= x' <= 1 -> Rabs (x - x') * IZR (B n m) < 1 ->
  sqrt (dist2R (imageR n m lo hi x) (imageR n m lo hi x')) <= sqrt (INR n + 3) * S / 2 ^ m.
Proof.
  intros Llo Lhi HS F Hx Hx' Hq.
  set (i := sub_index_R n m x). set (j := sub_index_R n m x').
  pose proof (sub_index_R_range n m x) as Ri. pose proof (sub_index_R_range n m x') as Rj. fold i in Ri. fold j in Rj.
  pose proof (sub_index_R_brackets n m x Hx) as Bi. pose proof (sub_index_R_brackets n m x' Hx') as Bj. fold i in Bi. fold j in Bj.
  pose proof (RB_pos n m) as BP.
  assert (Close : (Z.abs (i - j) <= 1)%Z).
  { assert (Hd : Rabs (x * IZR (B n m) - x' * IZR (B n m)) < 1).
    { replace (x * IZR (B n m) - x' * IZR (B n m)) with ((x - x') * IZR (B n m)) by ring.
      rewrite Rabs_mult, (Rabs_right (IZR (B n m))) by lra. exact Hq. }
    apply Rabs_def2 in Hd. destruct Hd as [Hd1 Hd2].
    assert (L1 : IZR (i - j) < 2) by (rewrite minus_IZR; lra).
    assert (L2 : IZR (j - i) < 2) by (rewrite minus_IZR; lra).
    apply lt_IZR in L1, L2. lia. }
  assert (HD : (sumsq (cellI n m i) (cellI n m j) < (Z.of_nat n + 3) * 4 ^ Z.of_nat (m - m))%Z).
  { apply (holder_cells_close n Hall Hn m m i j ltac:(lia) Ri Rj). rewrite Nat.sub_diag. unfold B. rewrite Nat.mul_0_r. simpl. rewrite !Z.div_1_r. exact Close. }
  rewrite Nat.sub_diag in HD. simpl in HD.
  destruct (cellI_in_grid n Hall m i Ri) as [Li _]. destruct (cellI_in_grid n Hall m j Rj) as [Lj _].
  pose proof (dist2R_box m S HS lo hi (cellI n m i) (cellI n m j) ltac:(congruence) ltac:(congruence) ltac:(congruence) F) as HB.
  unfold imageR. fold i j. set (D := sumsq (cellI n m i) (cellI n m j)) in *.
  assert (RD : IZR D <= INR n + 3).
  { apply Z.lt_le_incl in HD. apply IZR_le in HD. rewrite Z.mul_1_r, plus_IZR, <- INR_IZR_INZ in HD. exact HD. }
  assert (P4 : 0 < 4 ^ m) by (apply pow_lt; lra). assert (P2 : 0 < 2 ^ m) by (apply pow_lt; lra).
  assert (E4 : 4 ^ m = 2 ^ m * 2 ^ m) by (rewrite <- Rpow_mult_distr; f_equal; lra).
  assert (N3 : 0 < INR n + 3) by (pose proof (pos_INR n); lra).
  apply Rle_trans with (sqrt (S * S * ((INR n + 3) / 4 ^ m))).
  - apply sqrt_le_1_alt. apply Rle_trans with (1 := HB). apply Rmult_le_compat_l; [nra|].
    apply Rmult_le_compat_r; [left; apply Rinv_0_lt_compat; exact P4 | exact RD].
  - rewrite sqrt_scale; [|assumption | apply Rmult_le_pos; [lra | left; apply Rinv_0_lt_compat; exact P4]].
    assert (Eq : sqrt ((INR n + 3) / 4 ^ m) = sqrt (INR n + 3) / 2 ^ m).
    { apply sqrt_lem_1.
      - apply Rmult_le_pos; [lra | left; apply Rinv_0_lt_compat; exact P4].
      - apply Rmult_le_pos; [apply sqrt_pos | left; apply Rinv_0_lt_compat; exact P2].
      - rewrite E4. replace (sqrt (INR n + 3) / 2 ^ m * (sqrt (INR n + 3) / 2 ^ m)) with (sqrt (INR n + 3) * sqrt (INR n + 3) / (2 ^ m * 2 ^ m)) by (field; lra).
        rewrite sqrt_sqrt by lra. reflexivity. }
    rewrite Eq. right. unfold Rdiv. ring.
Qed.

(* (1) for all pairs *)
Theorem imageR_holder_slack m lo hi S x x' : (1 <= m)%nat -> length lo = n -> length hi = n -> 0 <= S -> sides_ok S lo hi ->
  0 <= x -> x < x' -> x' <= 1 ->
  sqrt (dist2R (imageR n m lo hi x) (imageR n m lo hi x')) <=
  2 * sqrt (INR n + 3) * S * Rpower (x' - x) (/ INR n) + sqrt (INR n + 3) * S / 2 ^ m.
Proof.
  intros Hm Llo Lhi HS F H0 Hlt H1.
  assert (E : Rabs (x - x') = x' - x) by (rewrite Rabs_left; lra).
  assert (P2 : 0 < 2 ^ m) by (apply pow_lt; lra).
  assert (A : 0 <= sqrt (INR n + 3) * S / 2 ^ m).
  { apply Rmult_le_pos; [apply Rmult_le_pos; [apply sqrt_pos | assumption] | left; apply Rinv_0_lt_compat; exact P2]. }
  assert (Bq : 0 <= 2 * sqrt (INR n + 3) * S * Rpower (x' - x) (/ INR n)).
  { apply Rmult_le_pos; [apply Rmult_le_pos; [apply Rmult_le_pos; [lra | apply sqrt_pos] | assumption] | left; unfold Rpower; apply exp_pos]. }
  destruct (Rle_lt_dec 1 (Rabs (x - x') * IZR (B n m))) as [Far | Near].
  - pose proof (imageR_far m lo hi S x x' Hm Llo Lhi HS F ltac:(lra) ltac:(lra) Far) as Q. rewrite E in Q. lra.
  - pose proof (imageR_near m lo hi S x x' Llo Lhi HS F ltac:(lra) ltac:(lra) Near) as Q. lra.
Qed.

(* (2) *)
Theorem imageR_in_box m lo hi S x : length lo = n -> length hi = n -> sides_ok S lo hi -> in_boxR lo hi (imageR n m lo hi x).
Proof.
  intros Llo Lhi F. unfold imageR. destruct (cellI_in_grid n Hall m _ (sub_index_R_range n m x)) as [L R].
  apply (box_pointR_in_box m lo hi _ S); try congruence; assumption.
Qed.

(* (3) every point of the box is within S (sqrt N / 2) 2^(-m) of the image of some x in [0,1] *)
Theorem imageR_dense m lo hi S Y : length lo = n -> length hi = n -> 0 <= S -> sides_ok S lo hi -> in_boxR lo hi Y ->
  exists x, 0 <= x <= 1 /\ sqrt (dist2R Y (imageR n m lo hi x)) <= S * sqrt (INR n) / 2 ^ (m + 1).
Proof.
  intros Llo Lhi HS F IB.
  destruct (box_cell m S HS lo hi Y F IB) as (c & Lc & Rc & Dc).
  destruct (cellI_surjective n Hall m c ltac:(congruence) Rc) as (i & Ri & Ei).
  destruct (sub_index_R_mid n m i Ri) as [Ex Hx].
  exists ((IZR i + / 2) / IZR (B n m)). split; [exact Hx|].
  unfold imageR. rewrite Ex, Ei. rewrite Llo in Dc.
  assert (P : 0 < 2 ^ (m + 1)) by (apply pow_lt; lra).
  assert (E4 : 4 ^ (m + 1) = 2 ^ (m + 1) * 2 ^ (m + 1)) by (rewrite <- Rpow_mult_distr; f_equal; lra).
  apply Rle_trans with (sqrt (INR n * (S * S / 4 ^ (m + 1)))); [apply sqrt_le_1_alt; exact Dc|].
  right. apply sqrt_lem_1.
  - apply Rmult_le_pos; [apply pos_INR|]. apply Rmult_le_pos; [nra | left; apply Rinv_0_lt_compat; rewrite E4; nra].
  - apply Rmult_le_pos; [apply Rmult_le_pos; [assumption | apply sqrt_pos] | left; apply Rinv_0_lt_compat; exact P].
  - rewrite E4. replace (S * sqrt (INR n) / 2 ^ (m + 1) * (S * sqrt (INR n) / 2 ^ (m + 1))) with (sqrt (INR n) * sqrt (INR n) * (S * S / (2 ^ (m + 1) * 2 ^ (m + 1)))) by (field; lra).
    rewrite sqrt_sqrt by apply pos_INR. reflexivity.
Qed.

End Dim.
