(* C01 for every dimension: the epsilon-optimality certificate of the AGP stop rule for an objective along the curve that is
   Hoelder-continuous up to a slack g:   |phi x - phi y| <= H * root |x - y| + g,   root = the N-th root used by the method
   (abstract here: positive on positive arguments, monotone, and root u + root v <= 2 c root (u + v) with c in [1/2, 1];
   N = 1: root = id, c = 1/2, g = 0;  N >= 2: root = d^(1/N), c = 2^(-1/N), g = the grid slack of the evolvent).
   If r * M >= 4 c H for the estimate in force when the last interval was selected, and that interval is shorter than eps
   (in Hoelder length), then for EVERY x in [0,1]   z* - phi(x) < (r M / 2) eps + g. *)
From Coq Require Import Reals ZArith List Bool Lra Lia.
From IOptV Require Import AGP.Ops gen.MethodGen AGP.Impl AGP.Laws AGP.Termination AGP.Invariant AGP.Preserve AGP.Step AGP.RealOps AGP.Optimality.
Import ListNotations.
Open Scope R_scope.

Section Root.
Variable root : R -> R.
Variable pw : R -> R.
Variable c : R.
Hypothesis c_lo : / 2 <= c.
Hypothesis c_hi : c <= 1.
Hypothesis root_pos : forall d, 0 < d -> 0 < root d.
Hypothesis root_mono : forall u d, 0 < u -> u <= d -> root u <= root d.
Hypothesis root_split : forall u v, 0 < u -> 0 < v -> root u + root v <= 2 * c * root (u + v).

(* the real instance with that root *)
Definition g_ops : Ops R :=
  {| add := Rplus; sub := Rminus; mul := Rmult; div := Rdiv; absv := Rabs; ltb := rltb; leb := rleb; of_Z := IZR; half := / 2;
     pinf := BIG; ninf := - BIG; fmax := BIG; hroot := root; hpow := pw |}.

Lemma g_ord_laws : OrdLaws g_ops.
Proof.
  constructor; cbn [leb ltb g_ops].
  - intros a. apply rleb_true. lra.
  - intros a b c0 H1 H2. apply rleb_true in H1, H2. apply rleb_true. lra.
  - intros a b. destruct (Rle_or_lt a b); [left | right]; apply rleb_true; lra.
  - intros a b. unfold rltb, rleb. destruct (Rlt_dec a b), (Rle_dec b a); cbn; try reflexivity; lra.
Qed.
Lemma g_zero_lt_half : ltb g_ops (of_Z g_ops 0%Z) (half g_ops) = true.
Proof. cbn. apply rltb_true. lra. Qed.
Lemma g_half_lt_one : ltb g_ops (half g_ops) (of_Z g_ops 1%Z) = true.
Proof. cbn. apply rltb_true. lra. Qed.

Lemma gR_interior zl zr r D M Zs i :
  gen_CalculateGlobalR g_ops false zl zr r D i i M Zs = D + (zr - zl) * (zr - zl) / (D * M * M * r * r) - 2 * (zr + zl - 2 * Zs) / (r * M).
Proof. unfold gen_CalculateGlobalR. rewrite Z.eqb_refl. reflexivity. Qed.
Lemma gR_left_end zl zr r D M Zs :
  gen_CalculateGlobalR g_ops false zl zr r D (-2)%Z 0%Z M Zs = 2 * D - 4 * (zr - Zs) / (r * M).
Proof. reflexivity. Qed.
Lemma gR_right_end zl zr r D M Zs :
  gen_CalculateGlobalR g_ops false zl zr r D 0%Z (-2)%Z M Zs = 2 * D - 4 * (zl - Zs) / (r * M).
Proof. reflexivity. Qed.

(* the interior lower bound with Hoelder lengths: a = root u, b = root v, a + b <= 2 c D *)
Lemma interior_lb_n (mu H D zl zr zs f a b g : R) :
  0 < mu -> 0 < D -> 0 <= H -> 4 * c * H <= mu -> 0 <= a -> 0 <= b -> a + b <= 2 * c * D ->
  zl - H * a - g <= f -> zr - H * b - g <= f ->
  zs - f <= mu / 4 * (D + (zr - zl) * (zr - zl) / (mu * mu * D) - 2 * (zr + zl - 2 * zs) / mu) + g.
Proof.
  intros Hmu HD HH Hc Ha Hb Hs H1 H2.
  assert (Hq : 0 <= (zr - zl) * (zr - zl) / (mu * mu * D)).
  { apply Rmult_le_pos; [pose proof (Rle_0_sqr (zr - zl)) as Q; unfold Rsqr in Q; lra|]. apply Rlt_le, Rinv_0_lt_compat. repeat apply Rmult_lt_0_compat; lra. }
  assert (E : mu / 4 * (D + (zr - zl) * (zr - zl) / (mu * mu * D) - 2 * (zr + zl - 2 * zs) / mu)
            = mu * D / 4 + mu / 4 * ((zr - zl) * (zr - zl) / (mu * mu * D)) - (zr + zl) / 2 + zs).
  { field. split; lra. }
  rewrite E. set (q := (zr - zl) * (zr - zl) / (mu * mu * D)) in *.
  assert (0 <= mu / 4 * q) by (apply Rmult_le_pos; lra).
  assert (H * a + H * b <= mu * D / 2).
  { assert (H * (a + b) <= H * (2 * c * D)) by (apply Rmult_le_compat_l; lra). assert (H * (2 * c * D) <= mu * D / 2) by nra. lra. }
  lra.
Qed.

Notation gitem := (item (T := R)).
Notation gst := (st (T := R)).

Section Certificate.
Variable p : params (T := R).
Hypothesis Hr : 1 < p_r p.
Variable phi : R -> R.                 (* the objective along the curve *)
Variables H g : R.
Hypothesis HH : 0 <= H.
Hypothesis Hg : 0 <= g.
Hypothesis Hoelder : forall x y, 0 <= x -> x < y -> y <= 1 -> Rabs (phi x - phi y) <= H * root (y - x) + g.

Lemma interval_bound_n (M Zs : R) (a b : gitem) (x : R) :
  1 <= M -> 4 * c * H <= p_r p * M ->
  pair_shape3 a b ->
  xlt g_ops a b -> delta_ok g_ops a b ->
  (evaluated a -> iz a = phi (ix a)) -> (evaluated b -> iz b = phi (ix b)) ->
  0 <= ix a -> ix b <= 1 -> ix a <= x <= ix b ->
  Zs - phi x <= p_r p * M / 4 * calcR g_ops (p_r p) M Zs b (Some a) + g.
Proof.
  intros HM Hmu Sh Hlt Hd Fa Fb H0 H1 Hx.
  unfold xlt in Hlt. cbn [ltb g_ops] in Hlt. apply rltb_true in Hlt.
  unfold delta_ok, delta_of in Hd. cbn in Hd.
  set (mu := p_r p * M) in *. assert (Hmu0 : 0 < mu) by (subst mu; nra).
  assert (Hd0 : 0 < ix b - ix a) by lra.
  set (D := root (ix b - ix a)) in *. assert (HD : 0 < D) by (subst D; apply root_pos; exact Hd0).
  unfold calcR. rewrite Hd.
  (* one-sided Hoelder cones; at the end points themselves the value is exact *)
  assert (La : evaluated a -> exists ra, 0 <= ra /\ ra <= D /\ iz a - H * ra - g <= phi x /\ (ix a < x -> ra = root (x - ix a)) /\ (x = ix a -> ra = 0)).
  { intros Ea. destruct (Req_dec x (ix a)) as [E|NE].
    - exists 0. rewrite (Fa Ea), E. split; [lra|]. split; [lra|]. split; [lra|]. split; [intros C; lra | reflexivity].
    - exists (root (x - ix a)). assert (0 < x - ix a) by lra.
      split; [left; apply root_pos; assumption|]. split; [apply root_mono; lra|]. split; [|split; [reflexivity | intros C; lra]].
      rewrite (Fa Ea). pose proof (Hoelder (ix a) x H0 ltac:(lra) ltac:(lra)) as Q. apply Rabs_le_inv' in Q. lra. }
  assert (Lb : evaluated b -> exists rb, 0 <= rb /\ rb <= D /\ iz b - H * rb - g <= phi x /\ (x < ix b -> rb = root (ix b - x)) /\ (x = ix b -> rb = 0)).
  { intros Eb. destruct (Req_dec x (ix b)) as [E|NE].
    - exists 0. rewrite (Fb Eb), E. split; [lra|]. split; [lra|]. split; [lra|]. split; [intros C; lra | reflexivity].
    - exists (root (ix b - x)). assert (0 < ix b - x) by lra.
      split; [left; apply root_pos; assumption|]. split; [apply root_mono; lra|]. split; [|split; [reflexivity | intros C; lra]].
      rewrite (Fb Eb). pose proof (Hoelder x (ix b) ltac:(lra) ltac:(lra) H1) as Q. apply Rabs_le_inv' in Q. lra. }
  assert (Hc2 : 2 * H <= mu) by nra.
  destruct Sh as [[Ea Eb]|[[Ea Eb]|[Ea Eb]]].
  - (* left end interval *)
    unfold xi in Ea. injection Ea as Ea1 Ea2. rewrite Ea2, Eb, gR_left_end.
    destruct (Lb Eb) as (rb & B0 & B1 & B2 & _ & _).
    assert (E : mu / 4 * (2 * D - 4 * (iz b - Zs) / mu) = mu * D / 2 - (iz b - Zs)) by (field; lra).
    fold mu. rewrite E. assert (H * rb <= mu * D / 2) by nra. lra.
  - (* interior interval *)
    rewrite Ea, Eb, gR_interior.
    destruct (La Ea) as (ra & A0 & A1 & A2 & A3 & A4). destruct (Lb Eb) as (rb & B0 & B1 & B2 & B3 & B4).
    assert (Sum : ra + rb <= 2 * c * D).
    { destruct (Req_dec x (ix a)) as [E1|N1]; [|destruct (Req_dec x (ix b)) as [E2|N2]].
      - rewrite (A4 E1). nra.
      - rewrite (B4 E2). nra.
      - rewrite (A3 ltac:(lra)), (B3 ltac:(lra)). unfold D. replace (ix b - ix a) with ((x - ix a) + (ix b - x)) by ring.
        apply root_split; lra. }
    pose proof (interior_lb_n mu H D (iz a) (iz b) Zs (phi x) ra rb g Hmu0 HD HH Hmu A0 B0 Sum A2 B2) as Q.
    replace (D * M * M * p_r p * p_r p) with (mu * mu * D) by (subst mu; ring). replace (p_r p * M) with mu by reflexivity. exact Q.
  - (* right end interval *)
    unfold xi in Eb. injection Eb as Eb1 Eb2. rewrite Ea, Eb2, gR_right_end.
    destruct (La Ea) as (ra & A0 & A1 & A2 & _ & _).
    assert (E : mu / 4 * (2 * D - 4 * (iz a - Zs) / mu) = mu * D / 2 - (iz a - Zs)) by (field; lra).
    fold mu. rewrite E. assert (H * ra <= mu * D / 2) by nra. lra.
Qed.
End Certificate.
Section Final.
Variable p : params (T := R).
Hypothesis Hr : 1 < p_r p.
Variable phi : R -> R.
Variable H : R.
Hypothesis HH : 0 <= H.
Variable g : R.
Hypothesis Hg : 0 <= g.
Hypothesis Hoelder : forall x y, 0 <= x -> x < y -> y <= 1 -> Rabs (phi x - phi y) <= H * root (y - x) + g.

(* The certificate. s: any state satisfying the invariants (every reachable state does, AGP/Main.v); the iteration
   from s subdivides an interval shorter than eps (so Solve stops by accuracy right after it); the reliability
   condition r * M >= 2 H holds for the estimate M in force when that interval was selected. Then the best value
   found exceeds phi nowhere by (r M / 2) * eps or more. *)
Theorem certificate_n s z s' x eps :
  AllInv g_ops p s -> iteration g_ops p s (Value z) = (s', Done x) ->
  Faithful phi (recalc_all g_ops p s) ->
  4 * c * H <= p_r p * sM s ->
  ltb g_ops (mind s) eps = false -> ltb g_ops (mind s') eps = true ->
  forall y, 0 <= y <= 1 -> sZ s - phi y < p_r p * sM s / 2 * eps + g.
Proof.
  intros A It Fa Hmu Hbefore Hafter y Hy.
  destruct (iteration_inv g_ops g_ord_laws p g_zero_lt_half g_half_lt_one s z s' x A It) as [_ Sel].
  destruct (recalc_all_inv g_ops g_ord_laws p g_zero_lt_half g_half_lt_one s A) as (A1 & _ & _ & _ & _).
  destruct Sel as [Ctx RC (EM & EZ & _)].
  destruct Ctx as (A0 & l & old & after & new2 & old2 & Ho & _ & _ & _ & _ & _ & _ & _ & _ & _ & Amax & Emind).
  set (s1 := recalc_all g_ops p s) in *. rewrite <- EM, <- EZ in *. clear EM EZ.
  destruct A1 as (_ & R1 & B1 & M1 & _).
  destruct R1 as [Rshape Rsorted Rdelta _ _]. destruct M1 as [Mfloor _ Mbound Mcur].
  destruct B1 as (ub & xb & zb & _ & BZ & (itb & Hib & _ & _ & _ & Eb) & Ball).
  set (M := sM s1) in *. set (Zs := sZ s1) in *.
  assert (HM : 1 <= M) by (cbn [leb g_ops of_Z] in Mfloor; apply rleb_true in Mfloor; exact Mfloor).
  assert (Hmu0 : 0 < p_r p * M) by nra.
  (* the selected interval is shorter than eps *)
  assert (Dold : idelta old < eps).
  { rewrite Emind, (min_delta_update_spec g_ops) in Hafter. cbn [ltb g_ops] in Hafter, Hbefore. apply rltb_true in Hafter. apply rltb_false in Hbefore.
    destruct (pymin_is_one g_ops (idelta old) (mind s)) as [E|E]; rewrite E in Hafter; lra. }
  destruct (ends_shape3 (order s1) Rshape (ex_intro _ itb (conj Hib Eb))) as (Sh & Hhd & Hlast & Hlen).
  (* z* is a lower bound of the evaluated values *)
  assert (Zle : forall it, In it (order s1) -> idx it = 0%Z -> Zs <= iz it).
  { intros it Hi Ei. specialize (Ball it Hi Ei). cbn [ltb g_ops] in Ball. apply rltb_false in Ball. subst Zs. rewrite BZ. exact Ball. }
  assert (Xrange : forall a b, In (a, b) (adj (order s1)) -> 0 <= ix a /\ ix b <= 1).
  { assert (G : forall (l0 : list ritem), chain (xlt g_ops) l0 -> forall a b, In (a, b) (adj l0) ->
                  ix (hd (mkItem 0%nat 0 0 0%Z 0 0) l0) <= ix a /\ ix b <= ix (List.last l0 (mkItem 0%nat 0 0 0%Z 0 0))).
    { induction l0 as [|u t IH]; intros Ch a b Hin; [destruct Hin|]. destruct t as [|v t]; [destruct Hin|].
      cbn [chain] in Ch. destruct Ch as [Huv Ch]. unfold xlt in Huv. cbn [ltb g_ops] in Huv. apply rltb_true in Huv.
      destruct Hin as [E|Hin].
      - injection E as <- <-. cbn [hd]. split; [lra|].
        clear - Ch. revert v Ch. induction t as [|w t IHt]; intros v Ch; [cbn; lra|]. cbn [chain] in Ch. destruct Ch as [Hvw Ch].
        unfold xlt in Hvw. cbn [ltb g_ops] in Hvw. apply rltb_true in Hvw. specialize (IHt w Ch). cbn [List.last] in *. destruct t; cbn in *; lra.
      - destruct (IH Ch a b Hin) as [P1 P2]. cbn [hd] in *. split; [lra|]. cbn [List.last] in *. exact P2. }
    intros a b Hin. destruct (G (order s1) Rsorted a b Hin) as [P1 P2]. rewrite Hhd in P1. rewrite Hlast in P2. lra. }
  (* the interval containing y *)
  destruct (covering y (order s1) ltac:(intros C; rewrite C in Hlen; cbn in Hlen; lia) Rsorted ltac:(rewrite Hhd; lra) ltac:(rewrite Hlast; lra) ltac:(lia))
    as (a & b & Hab & Hyab).
  pose proof (chain_adj _ _ Sh a b Hab) as Sab. pose proof (chain_adj _ _ Rsorted a b Hab) as Lab. pose proof (chain_adj _ _ Rdelta a b Hab) as Dab.
  destruct RC as [_ RCc]. pose proof (chain_adj _ _ RCc a b Hab) as Rab.
  destruct (adj_in _ _ _ Hab) as [Ina Inb]. destruct (Xrange a b Hab) as [Xa Xb].
  assert (Inb' : In b (order s1)) by (destruct (order s1); [destruct Inb | right; exact Inb]).
  assert (B1 : Zs - phi y <= p_r p * M / 4 * iR b + g).
  { rewrite Rab. apply (interval_bound_n p Hr phi H g HH Hg Hoelder M Zs a b y HM Hmu); try assumption.
    - intros Ea. apply Fa; assumption.
    - intros Eb'. apply Fa; assumption. }
  (* the selected interval has the largest characteristic, and that is below twice its length *)
  assert (Hlo : In (l, old) (adj (order s1))).
  { rewrite Ho. clear. induction A0 as [|u A0 IH]; [left; reflexivity|]. cbn [app]. destruct A0 as [|v A1]; cbn [app adj] in *; right; exact IH. }
  pose proof (Amax b Inb) as Mx. cbn [leb g_ops] in Mx. apply rleb_true in Mx.
  pose proof (chain_adj _ _ RCc l old Hlo) as Rold. pose proof (chain_adj _ _ Sh l old Hlo) as Sold.
  pose proof (chain_adj _ _ Rsorted l old Hlo) as Lold. pose proof (chain_adj _ _ Rdelta l old Hlo) as Dlo. pose proof (chain_adj _ _ Mcur l old Hlo) as Slo.
  destruct (adj_in _ _ _ Hlo) as [Inl Inold]. assert (Inold' : In old (order s1)) by (destruct (order s1); [destruct Inold | right; exact Inold]).
  unfold xlt in Lold. cbn [ltb g_ops] in Lold. apply rltb_true in Lold. unfold delta_ok, delta_of in Dlo. cbn in Dlo.
  assert (Dpos : 0 < idelta old) by (rewrite Dlo; apply root_pos; lra).
  assert (Rsmall : iR old <= 2 * idelta old).
  { rewrite Rold. unfold calcR.
    destruct Sold as [[E1 E2]|[[E1 E2]|[E1 E2]]].
    - unfold xi in E1. injection E1 as _ E1. rewrite E1, E2, gR_left_end. pose proof (Zle old Inold' E2).
      assert (0 <= 4 * (iz old - Zs) / (p_r p * M)) by (apply Rmult_le_pos; [lra | apply Rlt_le, Rinv_0_lt_compat; lra]). fold M Zs. lra.
    - rewrite E1, E2, gR_interior. fold M Zs.
      assert (Sl : Rabs (iz old - iz l) <= M * idelta old).
      { unfold slope_seen in Slo. specialize (Slo ltac:(congruence)). specialize (Mbound _ Slo). cbn [leb g_ops] in Mbound. apply rleb_true in Mbound.
        unfold slope in Mbound. cbn [div absv sub g_ops] in Mbound. fold M in Mbound.
        rewrite Rabs_minus_sym. apply (Rmult_le_compat_r (idelta old)) in Mbound; [|lra].
        unfold Rdiv in Mbound. rewrite Rmult_assoc, Rinv_l, Rmult_1_r in Mbound by lra. exact Mbound. }
      pose proof (chosen_small (p_r p) M (idelta old) (iz l) (iz old) Zs Hr HM Dpos Sl (Zle l Inl E1) (Zle old Inold' E2)). lra.
    - unfold xi in E2. injection E2 as _ E2. rewrite E1, E2, gR_right_end. pose proof (Zle l Inl E1).
      assert (0 <= 4 * (iz l - Zs) / (p_r p * M)) by (apply Rmult_le_pos; [lra | apply Rlt_le, Rinv_0_lt_compat; lra]). fold M Zs. lra. }
  assert (p_r p * M / 4 * iR b <= p_r p * M / 4 * (2 * idelta old)) by (apply Rmult_le_compat_l; lra).
  assert (p_r p * M / 4 * (2 * idelta old) < p_r p * M / 2 * eps) by nra.
  lra.
Qed.

End Final.
(* ---------- runs driven by an objective ---------- *)
Section Run.
Variable p : params (T := R).
Variable phi : R -> R.

(* the objective answers phi(x) at the point x the method chose *)
Inductive PhiRunN : nat -> rst -> Prop :=
| PRN0 : PhiRunN 0 (init_st g_ops)
| PRNS k s s' x : PhiRunN k s -> step g_ops p s (Value (phi x)) = (s', Done x) -> PhiRunN (S k) s'.

Lemma SC_faithful_n (l l' : list ritem) : SC l l' -> (forall it, In it l -> evaluated it -> iz it = phi (ix it)) ->
  forall it, In it l' -> evaluated it -> iz it = phi (ix it).
Proof.
  intros HSC F it' Hi Ev. destruct (SC_In _ _ HSC it' Hi) as (it & Hin & Hs). unfold sc, core, evaluated in *.
  assert (E : iz it' = iz it /\ ix it' = ix it /\ idx it' = idx it) by (repeat split; congruence). destruct E as (E1 & E2 & E3).
  rewrite E1, E2. apply F; [exact Hin | congruence].
Qed.

Lemma phirun_inv_n k s : PhiRunN k s -> (k = 0%nat /\ s = init_st g_ops) \/ (AllInv g_ops p s /\ Faithful phi s).
Proof.
  induction 1 as [|k s s' x Hrun IH St]; [left; auto|]. right.
  destruct IH as [[-> ->]|[A F]].
  - (* first iteration *)
    unfold step in St. cbn [firstflag init_st] in St.
    destruct (first_iteration_inv g_ops g_ord_laws p g_zero_lt_half g_half_lt_one (init_st g_ops) (phi x) s' x (init_like g_ops) St) as [A Ex].
    split; [exact A|]. unfold first_iteration in St. cbn [best init_st] in St. unfold upd_opt in St. cbn [set_eval idx iz] in St.
    rewrite (updopt_spec g_ops) in St. cbn [orb] in St. injection St as <- _. unfold Faithful. cbn [order].
    intros it [<-|[<-|[<-|[]]]]; unfold evaluated; cbn; try discriminate. intros _. rewrite Ex. reflexivity.
  - destruct A as (Ff & A'). unfold step in St. rewrite Ff in St.
    destruct (iteration_inv g_ops g_ord_laws p g_zero_lt_half g_half_lt_one s (phi x) s' x (conj Ff A') St) as [A2 _].
    split; [exact A2|].
    destruct (recalc_all_inv g_ops g_ord_laws p g_zero_lt_half g_half_lt_one s (conj Ff A')) as (_ & _ & _ & _ & HSC).
    pose proof (SC_faithful_n _ _ HSC F) as F1.
    apply iteration_done_inv in St. cbn zeta in St.
    destruct St as (pr & u & q2 & before & l & old & after & _ & Ho & _ & _ & b & rc & Zs & M1 & rc1 & M2 & rc2 & _ & _ & _ & ->).
    unfold Faithful. cbn [order]. intros it Hi Ev.
    assert (Old : forall it0, In it0 (order (recalc_all g_ops p s)) -> evaluated it0 -> iz it0 = phi (ix it0)) by exact F1.
    rewrite Ho in Old. rewrite in_app_iff in Hi. cbn [In] in Hi.
    destruct Hi as [Hi|[<-|[<-|[<-|Hi]]]].
    + apply Old; [apply in_or_app; left; exact Hi | exact Ev].
    + apply Old; [apply in_or_app; right; left; reflexivity | exact Ev].
    + reflexivity.
    + cbn [iz ix set_R set_delta]. apply Old; [apply in_or_app; right; right; left; reflexivity | exact Ev].
    + apply Old; [apply in_or_app; right; right; right; exact Hi | exact Ev].
Qed.

End Run.


(* the best value never increases: after the last trial the reported best is at most the best before it *)
Lemma iteration_best_le (p : params (T := R)) s z s' x :
  AllInv g_ops p s -> iteration g_ops p s (Value z) = (s', Done x) -> sZ s' <= sZ s.
Proof.
  intros A It.
  destruct (recalc_all_inv g_ops g_ord_laws p g_zero_lt_half g_half_lt_one s A) as (A1 & _ & _ & _ & _).
  destruct A1 as (_ & _ & B1 & _ & _).
  destruct B1 as (ub & xb & zb & Eb & BZ & _ & _).
  assert (EZ : sZ (recalc_all g_ops p s) = sZ s) by (unfold recalc_all; destruct (recalc s); reflexivity).
  apply iteration_done_inv in It. cbn zeta in It.
  destruct It as (pr & u & q2 & before & l & old & after & _ & _ & _ & _ & b & rc & Zs & M1 & rc1 & M2 & rc2 & Hu & _ & _ & ->).
  cbn [sZ]. unfold upd_opt in Hu. rewrite Eb in Hu. cbn [iz] in Hu. rewrite (updopt_spec g_ops) in Hu. cbn [orb] in Hu.
  rewrite <- EZ, BZ.
  destruct (ltb g_ops z zb) eqn:L; injection Hu as _ _ <-.
  - cbn [ltb g_ops] in L. apply rltb_true in L. lra.
  - rewrite BZ. lra.
Qed.

(* end to end *)
Theorem agp_certificate_n (p : params (T := R)) (phi : R -> R) (H g : R) :
  1 < p_r p -> 0 <= H -> 0 <= g -> (forall x y, 0 <= x -> x < y -> y <= 1 -> Rabs (phi x - phi y) <= H * root (y - x) + g) ->
  forall k s s' x eps, (1 <= k)%nat -> PhiRunN p phi k s -> step g_ops p s (Value (phi x)) = (s', Done x) ->
  4 * c * H <= p_r p * sM s -> ltb g_ops (mind s) eps = false -> ltb g_ops (mind s') eps = true ->
  forall y, 0 <= y <= 1 -> sZ s - phi y < p_r p * sM s / 2 * eps + g.
Proof.
  intros Hr HH Hg Hoe k s s' x eps Hk Hrun St Hmu Hb Ha y Hy.
  destruct (phirun_inv_n p phi k s Hrun) as [[C _]|[A F]]; [lia|].
  pose proof A as (Ff & _). unfold step in St. rewrite Ff in St.
  destruct (recalc_all_inv g_ops g_ord_laws p g_zero_lt_half g_half_lt_one s A) as (_ & _ & _ & _ & HSC).
  apply (certificate_n p Hr phi H HH g Hg Hoe s (phi x) s' x eps A St); try assumption.
  unfold Faithful. apply (SC_faithful_n phi _ _ HSC). exact F.
Qed.

(* ... and so does the best value REPORTED after that last trial *)
Theorem agp_certificate_n_final (p : params (T := R)) (phi : R -> R) (H g : R) :
  1 < p_r p -> 0 <= H -> 0 <= g -> (forall x y, 0 <= x -> x < y -> y <= 1 -> Rabs (phi x - phi y) <= H * root (y - x) + g) ->
  forall k s s' x eps, (1 <= k)%nat -> PhiRunN p phi k s -> step g_ops p s (Value (phi x)) = (s', Done x) ->
  4 * c * H <= p_r p * sM s -> ltb g_ops (mind s) eps = false -> ltb g_ops (mind s') eps = true ->
  forall y, 0 <= y <= 1 -> sZ s' - phi y < p_r p * sM s / 2 * eps + g.
Proof.
  intros Hr HH Hg Hoe k s s' x eps Hk Hrun St Hmu Hb Ha y Hy.
  pose proof (agp_certificate_n p phi H g Hr HH Hg Hoe k s s' x eps Hk Hrun St Hmu Hb Ha y Hy) as Q.
  destruct (phirun_inv_n p phi k s Hrun) as [[C _]|[A F]]; [lia|].
  pose proof A as (Ff & _). unfold step in St. rewrite Ff in St.
  pose proof (iteration_best_le p s (phi x) s' x A St). lra.
Qed.

(* ---------- in terms of Solve itself ---------- *)
Section SolveLevel.
Variable p : params (T := R).
Variable phi : R -> R.
Variable ans : nat -> answer R.

(* the answer stream is the objective: along the run from the initial state, the answer to the trial at x is phi x *)
Definition Driven : Prop := forall k s xs s' x, steps g_ops p ans k (init_st g_ops) = Some (s, xs) ->
  step g_ops p s (ans (calls s)) = (s', Done x) -> ans (calls s) = Value (phi x).

Lemma steps_snoc k s0 s xs : steps g_ops p ans (S k) s0 = Some (s, xs) ->
  exists s1 xs1 x, steps g_ops p ans k s0 = Some (s1, xs1) /\ step g_ops p s1 (ans (calls s1)) = (s, Done x) /\ xs = xs1 ++ [x].
Proof.
  replace (S k) with (k + 1)%nat by lia. rewrite steps_compose.
  destruct (steps g_ops p ans k s0) as [[s1 xs1]|]; [|discriminate]. cbn [steps].
  destruct (step g_ops p s1 (ans (calls s1))) as [s2 oc] eqn:E. destruct oc as [x| |]; try discriminate.
  intros [= <- <-]. exists s1, xs1, x. auto.
Qed.

Lemma steps_phirun : Driven -> forall k s xs, steps g_ops p ans k (init_st g_ops) = Some (s, xs) -> PhiRunN p phi k s.
Proof.
  intros D. induction k as [|k IH]; intros s xs St.
  - cbn [steps] in St. injection St as <- _. constructor.
  - destruct (steps_snoc k _ s xs St) as (s1 & xs1 & x & S1 & E & _).
    pose proof (D k s1 xs1 s x S1 E) as A. rewrite A in E.
    eapply PRNS; [apply (IH s1 xs1 S1) | exact E].
Qed.

Lemma solves_steps s s' xs e : Solves g_ops p ans s s' xs e -> e = false ->
  exists j, steps g_ops p ans j s = Some (s', xs) /\ stop g_ops p s' = true /\
            forall i si xsi, (i < j)%nat -> steps g_ops p ans i s = Some (si, xsi) -> stop g_ops p si = false.
Proof.
  intros So. induction So as [s Hs | s s' oc Hs E Hd | s s1 x s' xs e Hs E So IH]; intros He; try discriminate He.
  - exists 0%nat. split; [reflexivity|]. split; [exact Hs|]. intros i si xsi Hi. lia.
  - destruct (IH He) as (j & St & Hstop & Hbefore). exists (S j). split.
    + cbn [steps]. rewrite E, St. reflexivity.
    + split; [exact Hstop|]. intros i si xsi Hi Sti. destruct i as [|i].
      * cbn [steps] in Sti. injection Sti as <- _. exact Hs.
      * cbn [steps] in Sti. rewrite E in Sti. destruct (steps g_ops p ans i s1) as [[sa xa]|] eqn:Ei; [|discriminate Sti].
        injection Sti as <- _. apply (Hbefore i sa xa); [lia | exact Ei].
Qed.

(* When Solve, started on a fresh solver, ends without an exception and the accuracy test is what holds at the end (the requested
   accuracy was reached), the state s in which the last interval was selected exists, and with the estimate M of THAT state
   satisfying r M >= 4 c H the returned best value is within (r M / 2) eps + g of phi everywhere *)
Theorem solve_certificate_n (H g : R) :
  1 < p_r p -> 0 <= H -> 0 <= g -> (forall x y, 0 <= x -> x < y -> y <= 1 -> Rabs (phi x - phi y) <= H * root (y - x) + g) ->
  Driven -> ltb g_ops (pinf g_ops) (p_eps p) = false ->
  forall s_f xs, Solves g_ops p ans (init_st g_ops) s_f xs false -> ltb g_ops (mind s_f) (p_eps p) = true ->
  exists s x, (exists k xs0, steps g_ops p ans k (init_st g_ops) = Some (s, xs0)) /\
              step g_ops p s (Value (phi x)) = (s_f, Done x) /\ ltb g_ops (mind s) (p_eps p) = false /\
              (4 * c * H <= p_r p * sM s -> forall y, 0 <= y <= 1 -> sZ s_f - phi y < p_r p * sM s / 2 * p_eps p + g).
Proof.
  intros Hr HH Hg Hoe D Hinf s_f xs So Hacc.
  destruct (solves_steps _ _ _ _ So eq_refl) as (j & St & Hstop & Hbefore).
  destruct j as [|j].
  - cbn [steps] in St. injection St as <- _. cbn [mind init_st] in Hacc. congruence.
  - destruct (steps_snoc j _ s_f xs St) as (s & xs1 & x & S1 & E & _).
    pose proof (D j s xs1 s_f x S1 E) as A. rewrite A in E.
    assert (Hs : stop g_ops p s = false) by (apply (Hbefore j s xs1); [lia | exact S1]).
    assert (Hm : ltb g_ops (mind s) (p_eps p) = false).
    { unfold stop in Hs. rewrite (stop_spec g_ops) in Hs. apply orb_false_iff in Hs. tauto. }
    exists s, x. split; [exists j, xs1; exact S1|]. split; [exact E|]. split; [exact Hm|].
    intros Hmu y Hy.
    pose proof (steps_phirun D j s xs1 S1) as Run.
    destruct j as [|j].
    + (* the very first iteration subdivides nothing: the accuracy cannot have been reached by it *)
      exfalso. cbn [steps] in S1. injection S1 as <- _. unfold step in E. cbn [firstflag init_st] in E.
      destruct (first_iteration_done g_ops p _ _ _ _ E) as (z & _ & _ & _ & _ & _ & Em & _). rewrite Em in Hacc. cbn [mind init_st] in Hacc. congruence.
    + apply (agp_certificate_n_final p phi H g Hr HH Hg Hoe (S j) s s_f x (p_eps p) ltac:(lia) Run E Hmu Hm Hacc y Hy).
Qed.

End SolveLevel.

End Root.
