(* Top-level statements about every reachable state of the model. *)
From Coq Require Import ZArith List Bool Lia.
From IOptV Require Import AGP.Ops gen.MethodGen AGP.Impl AGP.Laws AGP.Termination AGP.Invariant AGP.Preserve AGP.Step.
Import ListNotations.

Section Main.
Context {T : Type} (o : Ops T) (L : OrdLaws o).
Variable p : params (T := T).
Variable ans : nat -> answer T.
Notation st := (st (T := T)).
Hypothesis zero_lt_half : ltb o (of_Z o 0%Z) (half o) = true.
Hypothesis half_lt_one : ltb o (half o) (of_Z o 1%Z) = true.

Lemma step_inv s s' x : AllInv o p s \/ InitLike o s -> step o p s (ans (calls s)) = (s', Done x) -> AllInv o p s'.
Proof.
  intros [A|I] H; unfold step in H.
  - destruct A as (F & A'). rewrite F in H. pose proof (iteration_done o p s _ s' x H) as (z & E & _). rewrite E in H.
    apply (iteration_inv o L p zero_lt_half half_lt_one s z s' x (conj F A') H).
  - destruct I as (Ho & Hq & Hb & HM & Hs & Hn & Hf). rewrite Hf in H.
    pose proof (first_iteration_done o p s _ s' x H) as (z & E & _). rewrite E in H.
    apply (first_iteration_inv o L p zero_lt_half half_lt_one s z s' x); [repeat split; assumption | exact H].
Qed.

Lemma steps_inv k : forall s s' xs, AllInv o p s \/ InitLike o s -> steps o p ans k s = Some (s', xs) ->
  (k = 0%nat /\ s' = s) \/ AllInv o p s'.
Proof.
  induction k as [|k IH]; intros s s' xs H E; cbn [steps] in E.
  - injection E as <- _. left. auto.
  - destruct (step o p s (ans (calls s))) as [s1 oc] eqn:St. destruct oc as [x| |]; try discriminate E.
    destruct (steps o p ans k s1) as [[s2 ys]|] eqn:Ek; [|discriminate E]. injection E as <- _.
    pose proof (step_inv s s1 x H St) as A1. right.
    destruct (IH s1 s2 ys (or_introl A1) Ek) as [[_ ->]|A2]; assumption.
Qed.

(* every state reached from the initial one by at least one successful iteration satisfies all invariants *)
Theorem reachable_inv k s xs : (1 <= k)%nat -> steps o p ans k (init_st o) = Some (s, xs) -> AllInv o p s.
Proof.
  intros Hk E. destruct (steps_inv k (init_st o) s xs (or_intror (init_like o)) E) as [[C _]|A]; [lia | exact A].
Qed.

(* C02: the decision rule at every iteration index *)
Theorem selection_rule k s xs s' x : (1 <= k)%nat -> steps o p ans k (init_st o) = Some (s, xs) ->
  step o p s (ans (calls s)) = (s', Done x) -> Selected o p s s' x.
Proof.
  intros Hk E St. pose proof (reachable_inv k s xs Hk E) as A. destruct A as (F & A'). unfold step in St. rewrite F in St.
  pose proof (iteration_done o p s _ s' x St) as (z & Ez & _). rewrite Ez in St.
  apply (iteration_inv o L p zero_lt_half half_lt_one s z s' x (conj F A') St).
Qed.

Theorem first_trial_is_half s' x : step o p (init_st o) (ans 0%nat) = (s', Done x) -> x = half o.
Proof.
  unfold step. cbn [firstflag init_st calls]. intros H.
  pose proof (first_iteration_done o p (init_st o) _ s' x H) as (z & E & _). rewrite E in H.
  apply (first_iteration_inv o L p zero_lt_half half_lt_one (init_st o) z s' x (init_like o) H).
Qed.

(* C16: a failing evaluation leaves the record, the optimum, the estimate and the trial count of the last completed trial *)
Lemma iteration_raised s s' oc : AllInv o p s -> iteration o p s Raised = (s', oc) ->
  RecInv o s' /\ BestInv o s' /\ MInv o s' /\ ntr s' = ntr s /\ best s' = best s /\ sM s' = sM s /\ sZ s' = sZ s /\
  SC (order s) (order s') /\ firstflag s' = false /\ is_done oc = false.
Proof.
  intros A H. destruct (recalc_all_inv o L p zero_lt_half half_lt_one s A) as (A1 & _ & _ & _ & HSC). destruct A1 as (F1 & R1 & B1 & M1 & _).
  assert (Same : sM (recalc_all o p s) = sM s /\ sZ (recalc_all o p s) = sZ s /\ ntr (recalc_all o p s) = ntr s /\ best (recalc_all o p s) = best s).
  { unfold recalc_all. destruct (recalc s); cbn; auto. }
  destruct Same as (E1 & E2 & E3 & E4).
  assert (G : order s' = order (recalc_all o p s) /\ best s' = best (recalc_all o p s) /\ sM s' = sM (recalc_all o p s) /\ sZ s' = sZ (recalc_all o p s) /\
              ntr s' = ntr (recalc_all o p s) /\ nextuid s' = nextuid (recalc_all o p s) /\ seen s' = seen (recalc_all o p s) /\
              firstflag s' = firstflag (recalc_all o p s) /\ is_done oc = false).
  { unfold iteration in H.
    repeat match type of H with
           | context [match ?e with _ => _ end] => let E := fresh "E" in destruct e eqn:E; try discriminate H
           end; injection H as <- <-; cbn; repeat split; reflexivity. }
  destruct G as (G1 & G2 & G3 & G4 & G5 & G6 & G7 & G8 & G9).
  assert (HSC' : SC (order (recalc_all o p s)) (order s')) by (rewrite G1; apply SC_refl).
  split; [eapply RecInv_SC; [eassumption .. | exact R1 | exact HSC' | exact G5 | exact G6]|].
  split; [eapply BestInv_SC; [eassumption .. | exact B1 | exact HSC' | exact G2 | exact G4]|].
  split; [eapply MInv_SC; [eassumption .. | exact M1 | exact HSC' | exact G3 | exact G7]|].
  split; [congruence|]. split; [congruence|]. split; [congruence|]. split; [congruence|].
  split; [rewrite G1; exact HSC|]. split; [congruence | exact G9].
Qed.

(* ... and the search can go on: after a failed evaluation the state still satisfies the whole invariant (the recalculation flag is
   raised, so the queue is rebuilt from all intervals before the next selection); hence every later trial is again placed by the
   decision rule (iteration_inv applies to the state after the failure) *)
Lemma iteration_raised_recalc s s' x : iteration o p s Raised = (s', ObjectiveRaised x) -> recalc s' = true.
Proof.
  unfold iteration. intros H.
  repeat match type of H with
         | context [match ?e with _ => _ end] => let E := fresh "E" in destruct e eqn:E; try discriminate H
         end; injection H as <- _; reflexivity.
Qed.

(* a failed evaluation leaves the accuracy estimate of the completed trials (the interval it had selected was not subdivided) *)
Lemma iteration_raised_mind s s' x : iteration o p s Raised = (s', ObjectiveRaised x) -> mind s' = mind s.
Proof.
  unfold iteration. intros H.
  assert (E : mind (recalc_all o p s) = mind s) by (unfold recalc_all; destruct (recalc s); reflexivity).
  repeat match type of H with
         | context [match ?e with _ => _ end] => let E' := fresh "E" in destruct e eqn:E'; try discriminate H
         end; injection H as <- _; cbn [mind]; exact E.
Qed.

Theorem failure_keeps_invariant s s' x : AllInv o p s -> iteration o p s Raised = (s', ObjectiveRaised x) -> AllInv o p s'.
Proof.
  intros A H. destruct (iteration_raised s s' _ A H) as (R & B & M & _ & _ & _ & _ & _ & F & _).
  split; [exact F|]. split; [exact R|]. split; [exact B|]. split; [exact M|].
  intros C. rewrite (iteration_raised_recalc s s' x H) in C. discriminate C.
Qed.

Theorem failure_contained k s xs : (1 <= k)%nat -> steps o p ans k (init_st o) = Some (s, xs) ->
  stop o p s = false -> ans (calls s) = Raised ->
  exists s', Solves o p ans s s' [] true /\
             ntr s' = ntr s /\ best s' = best s /\ SC (order s) (order s') /\ RecInv o s' /\ BestInv o s' /\ MInv o s'.
Proof.
  intros Hk E Hs Ha. pose proof (reachable_inv k s xs Hk E) as A.
  destruct (step o p s (ans (calls s))) as [s' oc] eqn:St.
  assert (It : iteration o p s Raised = (s', oc)).
  { unfold step in St. destruct A as (F & _). rewrite F, Ha in St. exact St. }
  destruct (iteration_raised s s' oc A It) as (R & B & M & N & Bs & _ & _ & HSC & _ & D).
  exists s'. split; [eapply S_fail; [exact Hs | exact St | exact D]|].
  split; [exact N|split; [exact Bs|split; [exact HSC|split; [exact R|split; [exact B|exact M]]]]].
Qed.

End Main.
