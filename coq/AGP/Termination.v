(* C03 / C11: the Solve loop terminates without running out of fuel, ends exactly at the first state satisfying the
   stop rule (or at the first failing step), counts one trial per successful step, and batching of iterations
   through DoGlobalIteration composes. Generic in the numeric type; needs the order laws only for stop_monotone. *)
From Coq Require Import ZArith List Bool Lia.
From IOptV Require Import AGP.Ops gen.MethodGen AGP.Impl AGP.Laws.
Import ListNotations.

Section Term.
Context {T : Type} (o : Ops T).
Variable p : params (T := T).
Variable ans : nat -> answer T.

Notation st := (st (T := T)).

(* ---- inversion of one step ---- *)
Ltac destruct_matches H :=
  repeat match type of H with
         | context [match ?e with _ => _ end] => let E := fresh "E" in destruct e eqn:E; try discriminate H
         end.

Lemma find_split_len (l : list (item (T := T))) : forall u acc b it a,
  find_split l u acc = Some (b, it, a) -> (length b + S (length a) = length acc + length l)%nat.
Proof.
  induction l as [|h t IH]; intros u acc b it a; cbn; [discriminate|].
  destruct (Nat.eqb (uid h) u); [intros [= <- <- <-]; lia|]. intros H. apply IH in H. cbn in H. lia.
Qed.

Lemma first_iteration_done s a s' x : first_iteration o p s a = (s', Done x) ->
  exists z, a = Value z /\ iters s' = 1%Z /\ ntr s' = (ntr s + 1)%Z /\ firstflag s' = false /\ calls s' = S (calls s) /\
            mind s' = mind s /\ length (order s') = 3%nat /\ seen s' = seen s /\ sM s' = sM s.
Proof.
  unfold first_iteration. intros H. destruct a as [z|]; [|discriminate H].
  destruct_matches H. injection H as <- <-. exists z. cbn. repeat split; reflexivity.
Qed.

Lemma first_iteration_fail s a s' oc : first_iteration o p s a = (s', oc) -> is_done oc = false ->
  a = Raised /\ iters s' = 1%Z /\ ntr s' = ntr s /\ firstflag s' = firstflag s /\ order s' = order s /\ best s' = best s /\
  sM s' = sM s /\ sZ s' = sZ s /\ calls s' = S (calls s) /\ mind s' = mind s.
Proof.
  unfold first_iteration. intros H D. destruct a as [z|].
  - destruct_matches H. injection H as <- <-. discriminate D.
  - injection H as <- <-. cbn. repeat split; reflexivity.
Qed.

Lemma iteration_done s a s' x : iteration o p s a = (s', Done x) ->
  exists z, a = Value z /\ iters s' = (iters s + 1)%Z /\ ntr s' = (ntr s + 1)%Z /\ firstflag s' = firstflag s /\
            calls s' = S (calls s) /\ length (order s') = S (length (order s)) /\
            exists d, mind s' = gen_min_delta_update o d (mind s).
Proof.
  unfold iteration. intros H.
  assert (RA : forall s0, iters (recalc_all o p s0) = iters s0 /\ ntr (recalc_all o p s0) = ntr s0 /\ firstflag (recalc_all o p s0) = firstflag s0 /\
                          calls (recalc_all o p s0) = calls s0 /\ mind (recalc_all o p s0) = mind s0 /\
                          length (order (recalc_all o p s0)) = length (order s0)).
  { intros s0. unfold recalc_all. destruct (recalc s0); cbn; repeat split; try reflexivity.
    generalize (@None (item (T := T))). induction (order s0) as [|it l IH]; intros pr; cbn; [reflexivity | f_equal; apply IH]. }
  destruct (RA s) as (R1 & R2 & R3 & R4 & R5 & R6).
  destruct_matches H. injection H as <- <-. cbn [iters ntr firstflag calls mind order].
  match goal with E : find_split _ _ _ = Some _ |- _ => rename E into FS end.
  apply find_split_len in FS. cbn in FS.
  eexists. split; [reflexivity|]. rewrite R1, R2, R3, R4, R5. repeat split; try reflexivity.
  - rewrite rev_append_rev, app_length, rev_length. cbn. rewrite <- R6. lia.
  - eexists. reflexivity.
Qed.

Lemma iteration_fail s a s' oc : iteration o p s a = (s', oc) -> is_done oc = false ->
  iters s' = iters s /\ ntr s' = ntr s /\ firstflag s' = firstflag s /\ best s' = best s /\ sM s' = sM s /\ sZ s' = sZ s /\
  order s' = order (recalc_all o p s) /\ (oc <> MethodRaised -> a = Raised /\ calls s' = S (calls s)).
Proof.
  unfold iteration. intros H D.
  assert (RA : forall s0, iters (recalc_all o p s0) = iters s0 /\ ntr (recalc_all o p s0) = ntr s0 /\ firstflag (recalc_all o p s0) = firstflag s0 /\
                          calls (recalc_all o p s0) = calls s0 /\ best (recalc_all o p s0) = best s0 /\ sM (recalc_all o p s0) = sM s0 /\
                          sZ (recalc_all o p s0) = sZ s0).
  { intros s0. unfold recalc_all. destruct (recalc s0); cbn; repeat split; reflexivity. }
  destruct (RA s) as (R1 & R2 & R3 & R4 & R5 & R6 & R7).
  destruct_matches H; injection H as <- <-; try discriminate D; cbn [iters ntr firstflag calls best sM sZ order];
    rewrite ?R1, ?R2, ?R3, ?R4, ?R5, ?R6, ?R7; repeat split; try reflexivity; try (intros C; exfalso; apply C; reflexivity);
    try (intros _; split; reflexivity);
    try (exfalso; match goal with Hx : ?x <> ?x |- _ => apply Hx; reflexivity end).
Qed.

(* ---- well-formedness used by the termination measure ---- *)
Definition WF (s : st) : Prop := firstflag s = true -> (0 <= iters s <= 1)%Z.

Lemma WF_init : WF (init_st o).
Proof. intros _. cbn. lia. Qed.

Lemma step_done s s' x : step o p s (ans (calls s)) = (s', Done x) ->
  ntr s' = (ntr s + 1)%Z /\ calls s' = S (calls s) /\ firstflag s' = false /\
  (firstflag s = true -> iters s' = 1%Z) /\ (firstflag s = false -> iters s' = (iters s + 1)%Z).
Proof.
  unfold step. destruct (firstflag s) eqn:F; intros H.
  - apply first_iteration_done in H as (z & _ & I & N & Fl & C & _). repeat split; auto; try congruence; try discriminate.
  - apply iteration_done in H as (z & _ & I & N & Fl & C & _). repeat split; auto; try congruence; try discriminate.
Qed.

Lemma step_WF s s' oc : WF s -> step o p s (ans (calls s)) = (s', oc) -> WF s'.
Proof.
  unfold WF, step. intros W H. destruct (firstflag s) eqn:F.
  - destruct (is_done oc) eqn:D.
    + destruct oc; try discriminate D. apply first_iteration_done in H as (z & _ & I & _ & Fl & _). rewrite I. lia.
    + apply first_iteration_fail in H as (_ & I & _); [|exact D]. rewrite I. lia.
  - destruct (is_done oc) eqn:D.
    + destruct oc; try discriminate D. apply iteration_done in H as (z & _ & _ & _ & Fl & _). congruence.
    + apply iteration_fail in H as (_ & _ & Fl & _); [|exact D]. congruence.
Qed.

Definition mu (s : st) : nat := (Z.to_nat (p_lim p - iters s) + (if firstflag s then 1 else 0))%nat.

Lemma stop_false s : stop o p s = false -> (iters s < p_lim p)%Z.
Proof. unfold stop. unfold gen_CheckStopCondition. destruct (ltb o _ _); cbn; [discriminate|]. destruct (Z.leb_spec (p_lim p) (iters s)); [discriminate | lia]. Qed.

Lemma step_mu s s' x : WF s -> stop o p s = false -> step o p s (ans (calls s)) = (s', Done x) -> (mu s' < mu s)%nat.
Proof.
  intros W Hs H. pose proof (stop_false s Hs) as Lt. apply step_done in H as (_ & _ & Fl & I1 & I2).
  unfold mu. rewrite Fl. destruct (firstflag s) eqn:F.
  - rewrite (I1 eq_refl). specialize (W F). lia.
  - rewrite (I2 eq_refl). lia.
Qed.

(* ---- relational description of Process.Solve's loop ---- *)
Inductive Solves : st -> st -> list T -> bool -> Prop :=
| S_stop s : stop o p s = true -> Solves s s [] false
| S_fail s s' oc : stop o p s = false -> step o p s (ans (calls s)) = (s', oc) -> is_done oc = false -> Solves s s' [] true
| S_step s s1 x s' xs e : stop o p s = false -> step o p s (ans (calls s)) = (s1, Done x) -> Solves s1 s' xs e -> Solves s s' (x :: xs) e.

Lemma solve_loop_sound fuel : forall s acc, WF s -> (mu s <= fuel)%nat ->
  exists s' bs e, solve_loop o fuel p s ans acc = (s', rev acc ++ bs, e, false) /\ Solves s s' (concat bs) e /\ Forall (fun l => length l = 1%nat) bs.
Proof.
  induction fuel as [|f IH]; intros s acc W Hm.
  - (* no fuel: mu = 0 forces the budget test of the stop rule *)
    cbn [solve_loop]. destruct (stop o p s) eqn:Hs.
    + exists s, [], false. rewrite app_nil_r. split; [reflexivity|]. split; [constructor; exact Hs | constructor].
    + exfalso. pose proof (stop_false s Hs). unfold mu in Hm. lia.
  - cbn [solve_loop]. destruct (stop o p s) eqn:Hs.
    + exists s, [], false. rewrite app_nil_r. split; [reflexivity|]. split; [constructor; exact Hs | constructor].
    + cbn [do_iterations]. destruct (step o p s (ans (calls s))) as [s1 oc] eqn:St. destruct oc as [x| x |].
      * cbn [rev app]. pose proof (step_mu s s1 x W Hs St) as Lt. pose proof (step_WF s s1 _ W St) as W1.
        destruct (IH s1 ([x] :: acc) W1 ltac:(lia)) as (s' & bs & e & E & So & Fa).
        exists s', ([x] :: bs), e. split; [|split].
        -- rewrite E. cbn [rev]. rewrite <- app_assoc. reflexivity.
        -- cbn [concat app]. eapply S_step; eassumption.
        -- constructor; [reflexivity | exact Fa].
      * exists s1, [], true. rewrite app_nil_r. split; [reflexivity|]. split; [|constructor]. eapply S_fail; [exact Hs | exact St | reflexivity].
      * exists s1, [], true. rewrite app_nil_r. split; [reflexivity|]. split; [|constructor]. eapply S_fail; [exact Hs | exact St | reflexivity].
Qed.

(* Solve always terminates within its fuel, and what it returns is described by Solves *)
Theorem solve_sound s : WF s ->
  exists s' bs e, solve o p s ans = (s', bs, e, false) /\ Solves s s' (concat bs) e /\ Forall (fun l => length l = 1%nat) bs.
Proof.
  intros W. unfold solve. destruct (solve_loop_sound (solve_fuel p s) s [] W) as (s' & bs & e & E & R).
  - unfold mu, solve_fuel. destruct (firstflag s); lia.
  - exists s', bs, e. split; [exact E | exact R].
Qed.

Lemma Solves_det s s1 xs1 e1 : Solves s s1 xs1 e1 -> forall s2 xs2 e2, Solves s s2 xs2 e2 -> s1 = s2 /\ xs1 = xs2 /\ e1 = e2.
Proof.
  induction 1 as [s Hs | s s' oc Hs St D | s sa x s' xs e Hs St So IH]; intros s2 xs2 e2 H2; inversion H2; subst; try congruence.
  - auto.
  - match goal with H : step o p s _ = (s2, _) |- _ => rewrite St in H; inversion H; subst end. auto.
  - match goal with H : step o p s _ = (_, Done _) |- _ => rewrite St in H; inversion H; subst end. discriminate D.
  - match goal with H : step o p s _ = (s2, _), D' : is_done _ = false |- _ => rewrite St in H; inversion H; subst; discriminate D' end.
  - match goal with H : step o p s _ = (_, Done _) |- _ => rewrite St in H; inversion H; subst end.
    match goal with H : Solves _ s2 _ _ |- _ => destruct (IH _ _ _ H) as (-> & -> & ->) end. auto.
Qed.

(* it stops only when the criterion holds (never earlier) ... *)
Lemma Solves_stops s s' xs e : Solves s s' xs e -> e = false -> stop o p s' = true.
Proof. induction 1; intros E; try discriminate; auto. Qed.

(* ... and one trial is counted per successful step, one answer consumed per step *)
Lemma Solves_counts s s' xs e : Solves s s' xs e -> ntr s' = (ntr s + Z.of_nat (length xs))%Z.
Proof.
  induction 1 as [s Hs | s s' oc Hs St D | s sa x s' xs e Hs St So IH].
  - cbn. lia.
  - cbn. unfold step in St. destruct (firstflag s).
    + apply first_iteration_fail in St as (_ & _ & N & _); [lia | exact D].
    + apply iteration_fail in St as (_ & N & _); [lia | exact D].
  - apply step_done in St as (N & _). cbn [length]. lia.
Qed.

(* k plain successful steps (DoGlobalIteration(k) without exception) *)
Fixpoint steps (k : nat) (s : st) : option (st * list T) :=
  match k with
  | O => Some (s, [])
  | S k' => match step o p s (ans (calls s)) with
            | (s', Done x) => match steps k' s' with Some (s'', xs) => Some (s'', x :: xs) | None => None end
            | _ => None
            end
  end.

Lemma do_iterations_steps k : forall s acc s' xs,
  do_iterations o k p s ans acc = (s', xs, false) <-> exists ys, steps k s = Some (s', ys) /\ xs = rev acc ++ ys.
Proof.
  induction k as [|k IH]; intros s acc s' xs; cbn [do_iterations steps].
  - split.
    + intros [= <- <-]. exists []. rewrite app_nil_r. auto.
    + intros (ys & [= <- <-] & ->). rewrite app_nil_r. reflexivity.
  - destruct (step o p s (ans (calls s))) as [s1 oc]. destruct oc as [x| x |].
    + rewrite IH. split.
      * intros (ys & E & ->). rewrite E. exists (x :: ys). cbn [rev]. rewrite <- app_assoc. auto.
      * intros (ys & E & ->). destruct (steps k s1) as [[s2 zs]|]; [|discriminate]. injection E as <- <-.
        exists zs. cbn [rev]. rewrite <- app_assoc. auto.
    + split; [intros [= _ _ C]; discriminate C | intros (ys & C & _); discriminate C].
    + split; [intros [= _ _ C]; discriminate C | intros (ys & C & _); discriminate C].
Qed.

(* C11: batches compose *)
Theorem steps_compose a : forall b s, steps (a + b) s =
  match steps a s with Some (s1, xs1) => match steps b s1 with Some (s2, xs2) => Some (s2, xs1 ++ xs2) | None => None end | None => None end.
Proof.
  induction a as [|a IH]; intros b s; cbn [Nat.add steps].
  - destruct (steps b s) as [[s2 xs2]|]; reflexivity.
  - destruct (step o p s (ans (calls s))) as [s1 oc]. destruct oc; try reflexivity.
    rewrite IH. destruct (steps a s1) as [[s2 xs2]|]; [|reflexivity]. destruct (steps b s2) as [[s3 xs3]|]; reflexivity.
Qed.

(* C11: iterations made through DoGlobalIteration before the stop point, then Solve = plain Solve *)
Theorem solve_after_batches k : forall s s1 xs1 s' xs e,
  steps k s = Some (s1, xs1) ->
  (forall j sj xsj, (j < k)%nat -> steps j s = Some (sj, xsj) -> stop o p sj = false) ->
  Solves s1 s' xs e -> Solves s s' (xs1 ++ xs) e.
Proof.
  induction k as [|k IH]; intros s s1 xs1 s' xs e St NS So; cbn [steps] in St.
  - injection St as <- <-. exact So.
  - destruct (step o p s (ans (calls s))) as [sa oc] eqn:E. destruct oc as [x| |]; try discriminate St.
    destruct (steps k sa) as [[sb ys]|] eqn:Ek; [|discriminate St]. injection St as <- <-.
    cbn [app]. eapply S_step; [apply (NS 0%nat s []); [lia | reflexivity] | exact E |].
    eapply IH; [exact Ek | | exact So].
    intros j sj xsj Hj Hst. apply (NS (S j) sj (x :: xsj)); [lia|]. cbn [steps]. rewrite E, Hst. reflexivity.
Qed.

(* C11: calling Solve on a finished solver performs no trial *)
Theorem solve_again_no_trials s : stop o p s = true -> solve o p s ans = (s, [], false, false).
Proof. intros H. unfold solve, solve_fuel. cbn [solve_loop]. rewrite H. reflexivity. Qed.

End Term.

Section Monotone.
Context {T : Type} (o : Ops T) (L : OrdLaws o).
Variable p : params (T := T).
Variable ans : nat -> answer T.

(* once the criterion holds it keeps holding: iterations made beyond the stop point do not re-open the search *)
Theorem stop_monotone s s' x : WF s -> stop o p s = true -> step o p s (ans (calls s)) = (s', Done x) -> stop o p s' = true.
Proof.
  unfold stop. rewrite !(stop_spec o). intros W Hs St. unfold step in St. destruct (firstflag s) eqn:F.
  - apply first_iteration_done in St as (z & _ & I & _ & _ & _ & Md & _). rewrite Md, I.
    apply orb_true_iff in Hs as [Hs|Hs]; [rewrite Hs; reflexivity|]. specialize (W F).
    apply orb_true_iff. right. apply Z.leb_le. apply Z.leb_le in Hs. lia.
  - apply iteration_done in St as (z & _ & I & _ & _ & _ & _ & d & Md). rewrite Md, I, (min_delta_update_spec o), (pymin_lt_iff o L).
    apply orb_true_iff in Hs as [Hs|Hs]; [rewrite Hs, orb_true_r; reflexivity|].
    apply orb_true_iff. right. apply Z.leb_le. apply Z.leb_le in Hs. lia.
Qed.
End Monotone.
