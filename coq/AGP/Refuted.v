(* The LITERAL reading of C01's reliability condition - "r times the largest slope seen by the time Solve returns is
   at least 2 L" - does not imply the bound: the slope revealed by the very last trial can raise M after the decision
   to stop was already determined. Witness over exact rationals, evaluated by the kernel on the model of AGP/Impl.v:
   phi = |x - 0.3| with a narrow spike (slope 50) exactly where the 12th trial lands (two symmetric spikes: the 11th state
   has two intervals with equal characteristics, exact arithmetic and binary64 break the tie differently) and a deep hole (slope 50) in the
   middle of the unexplored interval (3/4, 1); r = 3, eps = 1/100. The provable statement (AGP/Optimality.v) uses the
   estimate in force when the last interval was selected. *)
From Coq Require Import ZArith QArith Qabs List Bool.
From IOptV Require Import AGP.Ops gen.MethodGen AGP.Impl AGP.QOps.
Import ListNotations.
Open Scope Q_scope.

(* piecewise-linear interpolation through breakpoints (sorted by abscissa) *)
Fixpoint pwl (pts : list (Q * Q)) (x : Q) : Q :=
  match pts with
  | (x0, v0) :: (((x1, v1) :: _) as t) =>
    if Qle_bool x x1 then Qred (v0 + (v1 - v0) * (x - x0) / (x1 - x0)) else pwl t x
  | [(x0, v0)] => v0
  | [] => 0
  end.

Definition cex_pts : list (Q * Q) :=
  [(0, 3 # 10); ((161 # 540) - (1 # 600), (1 # 540) + (1 # 600)); (161 # 540, (1 # 540) - (1 # 12)); ((161 # 540) + (1 # 600), (1 # 540) - (1 # 600));
   (3 # 10, 0);
   ((163 # 540) - (1 # 600), (1 # 540) - (1 # 600)); (163 # 540, (1 # 540) - (1 # 12)); ((163 # 540) + (1 # 600), (1 # 540) + (1 # 600));
   (61 # 80, 37 # 80); (7 # 8, - (101 # 20)); (79 # 80, 55 # 80); (1, 7 # 10)].
Definition cex_phi : Q -> Q := pwl cex_pts.
Definition cex_L : Q := 51.

Fixpoint slopes_ok (L : Q) (pts : list (Q * Q)) : bool :=
  match pts with
  | (x0, v0) :: (((x1, v1) :: _) as t) => Qle_bool (Qabs ((v1 - v0) / (x1 - x0))) L && negb (Qle_bool x1 x0) && slopes_ok L t
  | _ => true
  end.

Definition cex_p : params (T := Q) := mkParams 3 (1 # 100) 10000%Z.

(* k iterations driven by the objective: the point is the one the method chooses, the answer is phi there *)
Fixpoint phi_steps (phi : Q -> Q) (k : nat) (s : st (T := Q)) : option (st (T := Q)) :=
  match k with
  | O => Some s
  | S k' =>
    if stop q_ops cex_p s then None else
    match step q_ops cex_p s (Value 0) with
    | (_, Done x) => match step q_ops cex_p s (Value (phi x)) with (s', Done _) => phi_steps phi k' s' | _ => None end
    | _ => None
    end
  end.

Definition best_value (s : st (T := Q)) : Q := match best s with Some (_, _, z) => z | None => 0 end.

(* after 12 objective-driven iterations Solve stops by accuracy (none of the first 11 states satisfies the stop rule:
   phi_steps returns None as soon as one does); phi is 51-Lipschitz (all segment slopes); r * M_final >= 2 L; yet the best
   value exceeds phi(7/8) - hence the global minimum - by more than (r * M_final / 2) * eps *)
Theorem final_M_reading_refuted :
  exists s, phi_steps cex_phi 12 (init_st q_ops) = Some s /\ stop q_ops cex_p s = true /\ Qle_bool (p_eps cex_p) (mind s) = false /\
            slopes_ok cex_L cex_pts = true /\
            Qle_bool (2 * cex_L) (p_r cex_p * sM s) = true /\
            Qle_bool ((p_r cex_p * sM s / 2) * p_eps cex_p) (best_value s - cex_phi (7 # 8)) = true.
Proof.
  destruct (phi_steps cex_phi 12 (init_st q_ops)) as [s|] eqn:E; [|vm_compute in E; discriminate].
  exists s. split; [reflexivity|]. vm_compute in E. injection E as <-. vm_compute. repeat split.
Qed.
