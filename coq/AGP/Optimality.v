(* C01 (dimension 1): the epsilon-optimality certificate of the AGP stop rule.
   Over the reals, for an objective phi on [0,1] with Lipschitz constant H: if, when the last interval was selected,
   r * M >= 2 H, and that interval is shorter than eps, then for EVERY x in [0,1]   z* - phi(x) < (r M / 2) eps.
   Built on the invariants of AGP/Step.v (arg-max selection, cache coherence, slope domination) instantiated with the
   real-number instance; the characteristic formulas are the gen_* functions translated from method.py. *)
From Coq Require Import Reals ZArith List Bool Lra Lia.
From IOptV Require Import AGP.Ops gen.MethodGen AGP.Impl AGP.Laws AGP.Termination AGP.Invariant AGP.Preserve AGP.Step AGP.RealOps.
Import ListNotations.
Open Scope R_scope.

Notation ritem := (item (T := R)).
Notation rst := (st (T := R)).

(* ---------- the characteristic, unfolded over the reals ---------- *)
Lemma R_interior zl zr r D M Zs i :
  gen_CalculateGlobalR r_ops false zl zr r D i i M Zs = D + (zr - zl) * (zr - zl) / (D * M * M * r * r) - 2 * (zr + zl - 2 * Zs) / (r * M).
Proof. unfold gen_CalculateGlobalR. rewrite Z.eqb_refl. reflexivity. Qed.
Lemma R_left_end zl zr r D M Zs :
  gen_CalculateGlobalR r_ops false zl zr r D (-2)%Z 0%Z M Zs = 2 * D - 4 * (zr - Zs) / (r * M).
Proof. reflexivity. Qed.
Lemma R_right_end zl zr r D M Zs :
  gen_CalculateGlobalR r_ops false zl zr r D 0%Z (-2)%Z M Zs = 2 * D - 4 * (zl - Zs) / (r * M).
Proof. reflexivity. Qed.

(* ---------- real-arithmetic cores ---------- *)
Lemma Rabs_le_inv' x a : Rabs x <= a -> - a <= x <= a.
Proof. unfold Rabs; destruct (Rcase_abs x); lra. Qed.

Lemma interior_lb (mu H D zl zr zs f dl dr : R) :
  0 < mu -> 0 < D -> 0 <= H -> 2 * H <= mu -> 0 <= dl -> 0 <= dr -> dl + dr = D ->
  zl - H * dl <= f -> zr - H * dr <= f ->
  zs - f <= mu / 4 * (D + (zr - zl) * (zr - zl) / (mu * mu * D) - 2 * (zr + zl - 2 * zs) / mu).
Proof.
  intros Hmu HD HH Hc Hdl Hdr Hs H1 H2.
  assert (Hq : 0 <= (zr - zl) * (zr - zl) / (mu * mu * D)).
  { apply Rmult_le_pos; [pose proof (Rle_0_sqr (zr - zl)) as Q; unfold Rsqr in Q; lra|]. apply Rlt_le, Rinv_0_lt_compat. repeat apply Rmult_lt_0_compat; lra. }
  assert (E : mu / 4 * (D + (zr - zl) * (zr - zl) / (mu * mu * D) - 2 * (zr + zl - 2 * zs) / mu)
            = mu * D / 4 + mu / 4 * ((zr - zl) * (zr - zl) / (mu * mu * D)) - (zr + zl) / 2 + zs).
  { field. split; lra. }
  rewrite E. set (q := (zr - zl) * (zr - zl) / (mu * mu * D)) in *.
  assert (0 <= mu / 4 * q) by (apply Rmult_le_pos; lra).
  assert (H * dl + H * dr <= mu * D / 2) by (subst D; nra).
  lra.
Qed.

Lemma chosen_small (r M D zl zr zs : R) :
  1 < r -> 1 <= M -> 0 < D -> Rabs (zr - zl) <= M * D -> zs <= zl -> zs <= zr ->
  D + (zr - zl) * (zr - zl) / (D * M * M * r * r) - 2 * (zr + zl - 2 * zs) / (r * M) < 2 * D.
Proof.
  intros Hr HM HD Hs Hl Hrr.
  set (dz := zr - zl) in *.
  assert (Hsq : dz * dz <= (M * D) * (M * D)).
  { apply Rabs_le_inv' in Hs. set (k := M * D) in *. nra. }
  assert (Hden : 0 < D * M * M * r * r) by (repeat apply Rmult_lt_0_compat; lra).
  assert (Hq : dz * dz / (D * M * M * r * r) < D).
  { apply Rmult_lt_reg_r with (D * M * M * r * r); [exact Hden|].
    unfold Rdiv. rewrite Rmult_assoc, Rinv_l by lra.
    assert (M * D * (M * D) < D * (D * M * M * r * r)).
    { assert (0 < D * D * M * M) by (repeat apply Rmult_lt_0_compat; lra).
      assert (1 < r * r) by nra.
      replace (D * (D * M * M * r * r)) with ((D * D * M * M) * (r * r)) by ring.
      replace (M * D * (M * D)) with (D * D * M * M) by ring.
      set (w := D * D * M * M) in *. set (rr := r * r) in *. nra. }
    lra. }
  assert (Hp : 0 <= 2 * (zr + zl - 2 * zs) / (r * M)).
  { apply Rmult_le_pos; [lra|]. apply Rlt_le, Rinv_0_lt_compat. apply Rmult_lt_0_compat; lra. }
  lra.
Qed.

(* ---------- adjacent pairs of the record ---------- *)
Fixpoint adj (l : list ritem) : list (ritem * ritem) :=
  match l with
  | a :: ((b :: _) as t) => (a, b) :: adj t
  | _ => []
  end.

Lemma chain_adj (P : ritem -> ritem -> Prop) l : chain P l -> forall a b, In (a, b) (adj l) -> P a b.
Proof.
  induction l as [|x [|y t] IH]; intros H a b Hin; try (destruct Hin).
  - cbn [chain] in H. destruct H as [H1 H2]. injection H0 as <- <-. exact H1.
  - cbn [chain] in H. destruct H as [H1 H2]. apply (IH H2 a b H0).
Qed.

Lemma adj_in : forall l a b, In (a, b) (adj l) -> In a l /\ In b (tl l).
Proof.
  induction l as [|x t IH]; intros a b Hin; [destruct Hin|].
  destruct t as [|y t']; [destruct Hin|]. cbn [adj] in Hin. destruct Hin as [E|Hin].
  - injection E as <- <-. split; [left; reflexivity | left; reflexivity].
  - destruct (IH a b Hin) as [H1 H2]. split; [right; exact H1|]. cbn [tl] in *. right. exact H2.
Qed.

(* sorted from a point <= x up to a last point >= x: some adjacent pair brackets x *)
Lemma covering (x : R) : forall l, l <> [] -> chain (xlt r_ops) l -> ix (hd (mkItem 0%nat 0 0 0%Z 0 0) l) <= x ->
  x <= ix (List.last l (mkItem 0%nat 0 0 0%Z 0 0)) -> (length l >= 2)%nat ->
  exists a b, In (a, b) (adj l) /\ ix a <= x <= ix b.
Proof.
  induction l as [|a [|b t] IH]; intros NE Ch Hh Hl Len; cbn in Len; try lia.
  cbn [hd] in Hh. destruct (Rle_or_lt x (ix b)) as [Le|Gt].
  - exists a, b. split; [left; reflexivity | lra].
  - destruct t as [|c t'].
    + cbn in Hl. lra.
    + cbn [chain] in Ch. destruct Ch as [_ Ch]. destruct (IH ltac:(discriminate) Ch ltac:(cbn; lra) Hl ltac:(cbn; lia)) as (a' & b' & Hin & Hx).
      exists a', b'. split; [right; exact Hin | exact Hx].
Qed.

Section Certificate.
Variable p : params (T := R).
Hypothesis Hr : 1 < p_r p.
Variable phi : R -> R.                 (* the objective along the curve *)
Variable H : R.
Hypothesis HH : 0 <= H.
Hypothesis Lip : forall x y, 0 <= x <= 1 -> 0 <= y <= 1 -> Rabs (phi x - phi y) <= H * Rabs (x - y).

(* the record holds the objective's values *)
Definition Faithful (s : rst) : Prop := forall it, In it (order s) -> evaluated it -> iz it = phi (ix it).

(* shape of adjacent pairs: (end 0, evaluated) | (evaluated, evaluated) | (evaluated, end 1) *)
Definition pair_shape (a b : ritem) : Prop :=
  (xi a = (0, (-2)%Z) \/ idx a = 0%Z) /\ (idx b = 0%Z \/ xi b = (1, (-2)%Z)).

Lemma tail_shape : forall (t : list ritem) (a : ritem), tail_ok r_ops (map xi (a :: t)) -> t <> [] -> idx a = 0%Z.
Proof. intros [|b t] a Hs NE; [contradiction|]. cbn [map] in Hs. change (snd (xi a) = 0%Z /\ tail_ok r_ops (map xi (b :: t))) in Hs. destruct Hs as [Hs _]. exact Hs. Qed.

Lemma ends_shape (l : list ritem) : ends_ok r_ops (map xi l) -> chain pair_shape l.
Proof.
  destruct l as [|f t]; [intros []|]. cbn [map ends_ok]. intros [Hf Ht].
  assert (G : forall (t : list ritem) (a : ritem), (xi a = (0, (-2)%Z) \/ idx a = 0%Z) -> tail_ok r_ops (map xi t) -> chain pair_shape (a :: t)).
  { induction t0 as [|b t0 IH]; intros a Ha Hs; [exact I|].
    cbn [chain]. destruct t0 as [|c t1].
    - cbn in Hs. split; [|exact I]. split; [exact Ha | right; exact Hs].
    - assert (Hb : idx b = 0%Z) by (apply (tail_shape (c :: t1) b Hs); discriminate).
      split; [split; [exact Ha | left; exact Hb]|]. apply IH; [right; exact Hb|].
      cbn [map] in Hs. change (snd (xi b) = 0%Z /\ tail_ok r_ops (map xi (c :: t1))) in Hs. destruct Hs as [_ Hs]. exact Hs. }
  apply G; [left; exact Hf | exact Ht].
Qed.

(* lower bound on one interval: z* - phi(x) <= (r M / 4) * characteristic of the interval containing x *)
Lemma interval_bound (M Zs : R) (a b : ritem) (x : R) :
  1 <= M -> 2 * H <= p_r p * M ->
  pair_shape a b -> ~ (xi a = (0, (-2)%Z) /\ xi b = (1, (-2)%Z)) ->
  xlt r_ops a b -> delta_ok r_ops a b ->
  (evaluated a -> iz a = phi (ix a)) -> (evaluated b -> iz b = phi (ix b)) ->
  0 <= ix a -> ix b <= 1 -> ix a <= x <= ix b ->
  Zs - phi x <= p_r p * M / 4 * calcR r_ops (p_r p) M Zs b (Some a).
Proof.
  intros HM Hmu [Sa Sb] Nboth Hlt Hd Fa Fb H0 H1 Hx.
  unfold xlt in Hlt. cbn [ltb r_ops] in Hlt. apply rltb_true in Hlt.
  unfold delta_ok, delta_of in Hd. cbn in Hd.
  set (mu := p_r p * M) in *. assert (Hmu0 : 0 < mu) by (subst mu; nra).
  set (D := ix b - ix a) in *. assert (HD : 0 < D) by (subst D; lra).
  unfold calcR. rewrite Hd. fold D.
  assert (La : forall y, 0 <= y <= 1 -> evaluated a -> iz a - H * Rabs (y - ix a) <= phi y).
  { intros y Hy Ea. rewrite (Fa Ea). pose proof (Lip (ix a) y ltac:(lra) Hy) as Q. apply Rabs_le_inv' in Q. rewrite (Rabs_minus_sym y (ix a)). lra. }
  assert (Lb : forall y, 0 <= y <= 1 -> evaluated b -> iz b - H * Rabs (y - ix b) <= phi y).
  { intros y Hy Eb. rewrite (Fb Eb). pose proof (Lip (ix b) y ltac:(lra) Hy) as Q. apply Rabs_le_inv' in Q. rewrite (Rabs_minus_sym y (ix b)). lra. }
  assert (Ax : Rabs (x - ix a) = x - ix a) by (apply Rabs_right; lra).
  assert (Bx : Rabs (x - ix b) = ix b - x) by (rewrite Rabs_left1; lra).
  destruct Sa as [Ea|Ea], Sb as [Eb|Eb].
  - (* left end interval *)
    unfold xi in Ea. injection Ea as Ea1 Ea2. rewrite Ea2, Eb, R_left_end.
    pose proof (Lb x ltac:(lra) Eb) as Q. rewrite Bx in Q.
    assert (E : mu / 4 * (2 * D - 4 * (iz b - Zs) / mu) = mu * D / 2 - (iz b - Zs)) by (field; lra).
    fold mu. rewrite E. assert (H * (ix b - x) <= mu * D / 2) by (subst D; nra). lra.
  - exfalso. apply Nboth. split; assumption.
  - (* interior interval *)
    rewrite Ea, Eb, R_interior.
    pose proof (La x ltac:(lra) Ea) as Qa. pose proof (Lb x ltac:(lra) Eb) as Qb. rewrite Ax in Qa. rewrite Bx in Qb.
    pose proof (interior_lb mu H D (iz a) (iz b) Zs (phi x) (x - ix a) (ix b - x) Hmu0 HD HH Hmu ltac:(lra) ltac:(lra) ltac:(subst D; lra) Qa Qb) as Q.
    replace (D * M * M * p_r p * p_r p) with (mu * mu * D) by (subst mu; ring). replace (p_r p * M) with mu by reflexivity. exact Q.
  - (* right end interval *)
    unfold xi in Eb. injection Eb as Eb1 Eb2. rewrite Ea, Eb2, R_right_end.
    pose proof (La x ltac:(lra) Ea) as Q. rewrite Ax in Q.
    assert (E : mu / 4 * (2 * D - 4 * (iz a - Zs) / mu) = mu * D / 2 - (iz a - Zs)) by (field; lra).
    fold mu. rewrite E. assert (H * (x - ix a) <= mu * D / 2) by (subst D; nra). lra.
Qed.

End Certificate.

(* ---------- shape of a record that contains at least one evaluated item ---------- *)
Definition pair_shape3 (a b : ritem) : Prop :=
  (xi a = (0, (-2)%Z) /\ idx b = 0%Z) \/ (idx a = 0%Z /\ idx b = 0%Z) \/ (idx a = 0%Z /\ xi b = (1, (-2)%Z)).

Lemma ends_shape3 (l : list ritem) : ends_ok r_ops (map xi l) -> (exists it, In it l /\ idx it = 0%Z) ->
  chain pair_shape3 l /\ ix (hd (mkItem 0%nat 0 0 0%Z 0 0) l) = 0 /\ ix (List.last l (mkItem 0%nat 0 0 0%Z 0 0)) = 1 /\ (length l >= 3)%nat.
Proof.
  destruct l as [|f t]; [intros []|]. cbn [map ends_ok]. intros [Hf Ht] (it & Hit & Eit).
  assert (If : idx f = (-2)%Z) by (unfold xi in Hf; injection Hf; auto).
  assert (Xf : ix f = 0) by (unfold xi in Hf; injection Hf; auto).
  (* the tail ends with the item (1, -2) and everything before it is evaluated *)
  assert (G : forall (t : list ritem), tail_ok r_ops (map xi t) ->
                ix (List.last t (mkItem 0%nat 0 0 0%Z 0 0)) = 1 /\ idx (List.last t (mkItem 0%nat 0 0 0%Z 0 0)) = (-2)%Z /\
                forall a, (idx a = 0%Z) -> chain pair_shape3 (a :: t)).
  { induction t0 as [|b t0 IH]; intros Hs; [destruct Hs|].
    destruct t0 as [|c t1].
    - cbn in Hs. unfold xi in Hs. injection Hs as Hb1 Hb2. cbn [List.last]. split; [exact Hb1|]. split; [exact Hb2|].
      intros a Ha. cbn [chain]. split; [|exact I]. right. right. split; [exact Ha | unfold xi; congruence].
    - cbn [map] in Hs. change (snd (xi b) = 0%Z /\ tail_ok r_ops (map xi (c :: t1))) in Hs. destruct Hs as [Hb Hs].
      destruct (IH Hs) as (L1 & L2 & L3). split; [exact L1|]. split; [exact L2|].
      intros a Ha. cbn [chain]. split; [right; left; split; [exact Ha | exact Hb] | apply L3; exact Hb]. }
  destruct (G t Ht) as (L1 & L2 & L3).
  destruct t as [|b t']; [destruct Ht|].
  destruct t' as [|c t''].
  - (* only two items: none is evaluated *)
    exfalso. cbn in Ht. unfold xi in Ht. injection Ht as _ Hb. destruct Hit as [<-|[<-|[]]]; congruence.
  - cbn [map] in Ht. change (snd (xi b) = 0%Z /\ tail_ok r_ops (map xi (c :: t''))) in Ht. destruct Ht as [Hb Ht].
    split; [|split; [exact Xf | split; [exact L1 | cbn; lia]]].
    cbn [chain]. split; [left; split; [exact Hf | exact Hb]|]. destruct (G (c :: t'') Ht) as (_ & _ & L3'). apply L3'. exact Hb.
Qed.

Section Final.
Variable p : params (T := R).
Hypothesis Hr : 1 < p_r p.
Variable phi : R -> R.
Variable H : R.
Hypothesis HH : 0 <= H.
Hypothesis Lip : forall x y, 0 <= x <= 1 -> 0 <= y <= 1 -> Rabs (phi x - phi y) <= H * Rabs (x - y).

(* The certificate. s: any state satisfying the invariants (every reachable state does, AGP/Main.v); the iteration
   from s subdivides an interval shorter than eps (so Solve stops by accuracy right after it); the reliability
   condition r * M >= 2 H holds for the estimate M in force when that interval was selected. Then the best value
   found exceeds phi nowhere by (r M / 2) * eps or more. *)
Theorem certificate_1d s z s' x eps :
  AllInv r_ops p s -> iteration r_ops p s (Value z) = (s', Done x) ->
  Faithful phi (recalc_all r_ops p s) ->
  2 * H <= p_r p * sM s ->
  ltb r_ops (mind s) eps = false -> ltb r_ops (mind s') eps = true ->
  forall y, 0 <= y <= 1 -> sZ s - phi y < p_r p * sM s / 2 * eps.
Proof.
  intros A It Fa Hmu Hbefore Hafter y Hy.
  destruct (iteration_inv r_ops r_ord_laws p r_zero_lt_half r_half_lt_one s z s' x A It) as [_ Sel].
  destruct (recalc_all_inv r_ops r_ord_laws p r_zero_lt_half r_half_lt_one s A) as (A1 & _ & _ & _ & _).
  destruct Sel as [Ctx RC (EM & EZ & _)].
  destruct Ctx as (A0 & l & old & after & new2 & old2 & Ho & _ & _ & _ & _ & _ & _ & _ & _ & _ & Amax & Emind).
  set (s1 := recalc_all r_ops p s) in *. rewrite <- EM, <- EZ in *. clear EM EZ.
  destruct A1 as (_ & R1 & B1 & M1 & _).
  destruct R1 as [Rshape Rsorted Rdelta _ _]. destruct M1 as [Mfloor _ Mbound Mcur].
  destruct B1 as (ub & xb & zb & _ & BZ & (itb & Hib & _ & _ & _ & Eb) & Ball).
  set (M := sM s1) in *. set (Zs := sZ s1) in *.
  assert (HM : 1 <= M) by (cbn [leb r_ops of_Z] in Mfloor; apply rleb_true in Mfloor; exact Mfloor).
  assert (Hmu0 : 0 < p_r p * M) by nra.
  (* the selected interval is shorter than eps *)
  assert (Dold : idelta old < eps).
  { rewrite Emind, (min_delta_update_spec r_ops) in Hafter. cbn [ltb r_ops] in Hafter, Hbefore. apply rltb_true in Hafter. apply rltb_false in Hbefore.
    destruct (pymin_is_one r_ops (idelta old) (mind s)) as [E|E]; rewrite E in Hafter; lra. }
  destruct (ends_shape3 (order s1) Rshape (ex_intro _ itb (conj Hib Eb))) as (Sh & Hhd & Hlast & Hlen).
  (* z* is a lower bound of the evaluated values *)
  assert (Zle : forall it, In it (order s1) -> idx it = 0%Z -> Zs <= iz it).
  { intros it Hi Ei. specialize (Ball it Hi Ei). cbn [ltb r_ops] in Ball. apply rltb_false in Ball. subst Zs. rewrite BZ. exact Ball. }
  assert (Xrange : forall a b, In (a, b) (adj (order s1)) -> 0 <= ix a /\ ix b <= 1).
  { assert (G : forall (l0 : list ritem), chain (xlt r_ops) l0 -> forall a b, In (a, b) (adj l0) ->
                  ix (hd (mkItem 0%nat 0 0 0%Z 0 0) l0) <= ix a /\ ix b <= ix (List.last l0 (mkItem 0%nat 0 0 0%Z 0 0))).
    { induction l0 as [|u t IH]; intros Ch a b Hin; [destruct Hin|]. destruct t as [|v t]; [destruct Hin|].
      cbn [chain] in Ch. destruct Ch as [Huv Ch]. unfold xlt in Huv. cbn [ltb r_ops] in Huv. apply rltb_true in Huv.
      destruct Hin as [E|Hin].
      - injection E as <- <-. cbn [hd]. split; [lra|].
        clear - Ch. revert v Ch. induction t as [|w t IHt]; intros v Ch; [cbn; lra|]. cbn [chain] in Ch. destruct Ch as [Hvw Ch].
        unfold xlt in Hvw. cbn [ltb r_ops] in Hvw. apply rltb_true in Hvw. specialize (IHt w Ch). cbn [List.last] in *. destruct t; cbn in *; lra.
      - destruct (IH Ch a b Hin) as [P1 P2]. cbn [hd] in *. split; [lra|]. cbn [List.last] in *. exact P2. }
    intros a b Hin. destruct (G (order s1) Rsorted a b Hin) as [P1 P2]. rewrite Hhd in P1. rewrite Hlast in P2. lra. }
  (* the interval containing y *)
  destruct (covering y (order s1) ltac:(intros C; rewrite C in Hlen; cbn in Hlen; lia) Rsorted ltac:(rewrite Hhd; lra) ltac:(rewrite Hlast; lra) ltac:(lia))
    as (a & b & Hab & Hyab).
  pose proof (chain_adj _ _ Sh a b Hab) as Sab. pose proof (chain_adj _ _ Rsorted a b Hab) as Lab. pose proof (chain_adj _ _ Rdelta a b Hab) as Dab.
  destruct RC as [_ RCc]. pose proof (chain_adj _ _ RCc a b Hab) as Rab.
  destruct (adj_in _ _ _ Hab) as [Ina Inb]. destruct (Xrange a b Hab) as [Xa Xb].
  assert (Inb' : In b (order s1)) by (destruct (order s1); [destruct Inb | right; exact Inb]).
  assert (B1 : Zs - phi y <= p_r p * M / 4 * iR b).
  { rewrite Rab. apply (interval_bound p Hr phi H HH Lip M Zs a b y HM Hmu); try assumption.
    - destruct Sab as [[E1 E2]|[[E1 E2]|[E1 E2]]]; split; auto.
    - intros [E1 E2]. destruct Sab as [[_ E]|[[E _]|[E _]]]; unfold xi in *; try (injection E2 as _ E2'; congruence); try (injection E1 as _ E1'; congruence).
    - intros Ea. apply Fa; assumption.
    - intros Eb'. apply Fa; assumption. }
  (* the selected interval has the largest characteristic, and that is below twice its length *)
  assert (Hlo : In (l, old) (adj (order s1))).
  { rewrite Ho. clear. induction A0 as [|u A0 IH]; [left; reflexivity|]. cbn [app]. destruct A0 as [|v A1]; cbn [app adj] in *; right; exact IH. }
  pose proof (Amax b Inb) as Mx. cbn [leb r_ops] in Mx. apply rleb_true in Mx.
  pose proof (chain_adj _ _ RCc l old Hlo) as Rold. pose proof (chain_adj _ _ Sh l old Hlo) as Sold.
  pose proof (chain_adj _ _ Rsorted l old Hlo) as Lold. pose proof (chain_adj _ _ Rdelta l old Hlo) as Dlo. pose proof (chain_adj _ _ Mcur l old Hlo) as Slo.
  destruct (adj_in _ _ _ Hlo) as [Inl Inold]. assert (Inold' : In old (order s1)) by (destruct (order s1); [destruct Inold | right; exact Inold]).
  unfold xlt in Lold. cbn [ltb r_ops] in Lold. apply rltb_true in Lold. unfold delta_ok, delta_of in Dlo. cbn in Dlo.
  assert (Dpos : 0 < idelta old) by (rewrite Dlo; lra).
  assert (Rsmall : iR old <= 2 * idelta old).
  { rewrite Rold. unfold calcR.
    destruct Sold as [[E1 E2]|[[E1 E2]|[E1 E2]]].
    - unfold xi in E1. injection E1 as _ E1. rewrite E1, E2, R_left_end. pose proof (Zle old Inold' E2).
      assert (0 <= 4 * (iz old - Zs) / (p_r p * M)) by (apply Rmult_le_pos; [lra | apply Rlt_le, Rinv_0_lt_compat; lra]). fold M Zs. lra.
    - rewrite E1, E2, R_interior. fold M Zs.
      assert (Sl : Rabs (iz old - iz l) <= M * idelta old).
      { unfold slope_seen in Slo. specialize (Slo ltac:(congruence)). specialize (Mbound _ Slo). cbn [leb r_ops] in Mbound. apply rleb_true in Mbound.
        unfold slope in Mbound. cbn [div absv sub r_ops] in Mbound. fold M in Mbound.
        rewrite Rabs_minus_sym. apply (Rmult_le_compat_r (idelta old)) in Mbound; [|lra].
        unfold Rdiv in Mbound. rewrite Rmult_assoc, Rinv_l, Rmult_1_r in Mbound by lra. exact Mbound. }
      pose proof (chosen_small (p_r p) M (idelta old) (iz l) (iz old) Zs Hr HM Dpos Sl (Zle l Inl E1) (Zle old Inold' E2)). lra.
    - unfold xi in E2. injection E2 as _ E2. rewrite E1, E2, R_right_end. pose proof (Zle l Inl E1).
      assert (0 <= 4 * (iz l - Zs) / (p_r p * M)) by (apply Rmult_le_pos; [lra | apply Rlt_le, Rinv_0_lt_compat; lra]). fold M Zs. lra. }
  assert (p_r p * M / 4 * iR b <= p_r p * M / 4 * (2 * idelta old)) by (apply Rmult_le_compat_l; lra).
  assert (p_r p * M / 4 * (2 * idelta old) < p_r p * M / 2 * eps) by nra.
  lra.
Qed.

End Final.

(* ---------- runs driven by an objective ---------- *)
Section Run.
Variable p : params (T := R).
Variable phi : R -> R.

(* the objective answers phi(x) at the point x the method chose *)
Inductive PhiRun : nat -> rst -> Prop :=
| PR0 : PhiRun 0 (init_st r_ops)
| PRS k s s' x : PhiRun k s -> step r_ops p s (Value (phi x)) = (s', Done x) -> PhiRun (S k) s'.

Lemma SC_faithful (l l' : list ritem) : SC l l' -> (forall it, In it l -> evaluated it -> iz it = phi (ix it)) ->
  forall it, In it l' -> evaluated it -> iz it = phi (ix it).
Proof.
  intros HSC F it' Hi Ev. destruct (SC_In _ _ HSC it' Hi) as (it & Hin & Hs). unfold sc, core, evaluated in *.
  assert (E : iz it' = iz it /\ ix it' = ix it /\ idx it' = idx it) by (repeat split; congruence). destruct E as (E1 & E2 & E3).
  rewrite E1, E2. apply F; [exact Hin | congruence].
Qed.

Lemma phirun_inv k s : PhiRun k s -> (k = 0%nat /\ s = init_st r_ops) \/ (AllInv r_ops p s /\ Faithful phi s).
Proof.
  induction 1 as [|k s s' x Hrun IH St]; [left; auto|]. right.
  destruct IH as [[-> ->]|[A F]].
  - (* first iteration *)
    unfold step in St. cbn [firstflag init_st] in St.
    destruct (first_iteration_inv r_ops r_ord_laws p r_zero_lt_half r_half_lt_one (init_st r_ops) (phi x) s' x (init_like r_ops) St) as [A Ex].
    split; [exact A|]. unfold first_iteration in St. cbn [best init_st] in St. unfold upd_opt in St. cbn [set_eval idx iz] in St.
    rewrite (updopt_spec r_ops) in St. cbn [orb] in St. injection St as <- _. unfold Faithful. cbn [order].
    intros it [<-|[<-|[<-|[]]]]; unfold evaluated; cbn; try discriminate. intros _. rewrite Ex. reflexivity.
  - destruct A as (Ff & A'). unfold step in St. rewrite Ff in St.
    destruct (iteration_inv r_ops r_ord_laws p r_zero_lt_half r_half_lt_one s (phi x) s' x (conj Ff A') St) as [A2 _].
    split; [exact A2|].
    destruct (recalc_all_inv r_ops r_ord_laws p r_zero_lt_half r_half_lt_one s (conj Ff A')) as (_ & _ & _ & _ & HSC).
    pose proof (SC_faithful _ _ HSC F) as F1.
    apply iteration_done_inv in St. cbn zeta in St.
    destruct St as (pr & u & q2 & before & l & old & after & _ & Ho & _ & _ & b & rc & Zs & M1 & rc1 & M2 & rc2 & _ & _ & _ & ->).
    unfold Faithful. cbn [order]. intros it Hi Ev.
    assert (Old : forall it0, In it0 (order (recalc_all r_ops p s)) -> evaluated it0 -> iz it0 = phi (ix it0)) by exact F1.
    rewrite Ho in Old. rewrite in_app_iff in Hi. cbn [In] in Hi.
    destruct Hi as [Hi|[<-|[<-|[<-|Hi]]]].
    + apply Old; [apply in_or_app; left; exact Hi | exact Ev].
    + apply Old; [apply in_or_app; right; left; reflexivity | exact Ev].
    + reflexivity.
    + cbn [iz ix set_R set_delta]. apply Old; [apply in_or_app; right; right; left; reflexivity | exact Ev].
    + apply Old; [apply in_or_app; right; right; right; exact Hi | exact Ev].
Qed.

End Run.

(* end to end: an objective with Lipschitz constant H, any number k >= 1 of iterations driven by it; if the next
   iteration subdivides an interval shorter than eps (accuracy stop) while r * M >= 2 H, the best value is within
   (r M / 2) eps of the global minimum of phi over [0,1] *)
Theorem agp_certificate_1d (p : params (T := R)) (phi : R -> R) (H : R) :
  1 < p_r p -> 0 <= H -> (forall x y, 0 <= x <= 1 -> 0 <= y <= 1 -> Rabs (phi x - phi y) <= H * Rabs (x - y)) ->
  forall k s s' x eps, (1 <= k)%nat -> PhiRun p phi k s -> step r_ops p s (Value (phi x)) = (s', Done x) ->
  2 * H <= p_r p * sM s -> ltb r_ops (mind s) eps = false -> ltb r_ops (mind s') eps = true ->
  forall y, 0 <= y <= 1 -> sZ s - phi y < p_r p * sM s / 2 * eps.
Proof.
  intros Hr HH Lip k s s' x eps Hk Hrun St Hmu Hb Ha y Hy.
  destruct (phirun_inv p phi k s Hrun) as [[C _]|[A F]]; [lia|].
  pose proof A as (Ff & _). unfold step in St. rewrite Ff in St.
  destruct (recalc_all_inv r_ops r_ord_laws p r_zero_lt_half r_half_lt_one s A) as (_ & _ & _ & _ & HSC).
  apply (certificate_1d p Hr phi H HH Lip s (phi x) s' x eps A St); try assumption.
  unfold Faithful. apply (SC_faithful phi _ _ HSC). exact F.
Qed.

(* the best value never increases: the value REPORTED after the last trial obeys the same bound *)
Lemma iteration_best_le_1d (p : params (T := R)) s z s' x :
  AllInv r_ops p s -> iteration r_ops p s (Value z) = (s', Done x) -> sZ s' <= sZ s.
Proof.
  intros A It.
  destruct (recalc_all_inv r_ops r_ord_laws p r_zero_lt_half r_half_lt_one s A) as (A1 & _ & _ & _ & _).
  destruct A1 as (_ & _ & B1 & _ & _).
  destruct B1 as (ub & xb & zb & Eb & BZ & _ & _).
  assert (EZ : sZ (recalc_all r_ops p s) = sZ s) by (unfold recalc_all; destruct (recalc s); reflexivity).
  apply iteration_done_inv in It. cbn zeta in It.
  destruct It as (pr & u & q2 & before & l & old & after & _ & _ & _ & _ & b & rc & Zs & M1 & rc1 & M2 & rc2 & Hu & _ & _ & ->).
  cbn [sZ]. unfold upd_opt in Hu. rewrite Eb in Hu. cbn [iz] in Hu. rewrite (updopt_spec r_ops) in Hu. cbn [orb] in Hu.
  rewrite <- EZ, BZ.
  destruct (ltb r_ops z zb) eqn:L; injection Hu as _ _ <-.
  - cbn [ltb r_ops] in L. apply rltb_true in L. lra.
  - rewrite BZ. lra.
Qed.

Theorem agp_certificate_1d_final (p : params (T := R)) (phi : R -> R) (H : R) :
  1 < p_r p -> 0 <= H -> (forall x y, 0 <= x <= 1 -> 0 <= y <= 1 -> Rabs (phi x - phi y) <= H * Rabs (x - y)) ->
  forall k s s' x eps, (1 <= k)%nat -> PhiRun p phi k s -> step r_ops p s (Value (phi x)) = (s', Done x) ->
  2 * H <= p_r p * sM s -> ltb r_ops (mind s) eps = false -> ltb r_ops (mind s') eps = true ->
  forall y, 0 <= y <= 1 -> sZ s' - phi y < p_r p * sM s / 2 * eps.
Proof.
  intros Hr HH Lip k s s' x eps Hk Hrun St Hmu Hb Ha y Hy.
  pose proof (agp_certificate_1d p phi H Hr HH Lip k s s' x eps Hk Hrun St Hmu Hb Ha y Hy) as Q.
  destruct (phirun_inv p phi k s Hrun) as [[C _]|[A F]]; [lia|].
  pose proof A as (Ff & _). unfold step in St. rewrite Ff in St.
  pose proof (iteration_best_le_1d p s (phi x) s' x A St). lra.
Qed.
