(* Order laws assumed of the numeric type where a theorem needs them (they hold for the reals and for binary64
   values that are not NaN), and the facts about the GENERATED decision functions that the invariants use.
   Every lemma here unfolds a gen_* definition: a change of the corresponding source expression re-opens it. *)
From Coq Require Import ZArith List Bool Lia.
From IOptV Require Import AGP.Ops gen.MethodGen AGP.Impl.
Import ListNotations.

Record OrdLaws {T} (o : Ops T) : Prop := {
  leb_refl : forall a, leb o a a = true;
  leb_trans : forall a b c, leb o a b = true -> leb o b c = true -> leb o a c = true;
  leb_total : forall a b, leb o a b = true \/ leb o b a = true;
  ltb_leb : forall a b, ltb o a b = negb (leb o b a)
}.

Section Laws.
Context {T : Type} (o : Ops T) (L : OrdLaws o).

Lemma ltb_irrefl a : ltb o a a = false.
Proof. rewrite (ltb_leb o L), (leb_refl o L). reflexivity. Qed.
Lemma ltb_trans a b c : ltb o a b = true -> ltb o b c = true -> ltb o a c = true.
Proof.
  rewrite !(ltb_leb o L), !negb_true_iff. intros H1 H2.
  destruct (leb o c a) eqn:E; [|reflexivity].
  destruct (leb_total o L a b) as [H|H]; [|congruence].
  pose proof (leb_trans o L c a b E H). congruence.
Qed.
Lemma ltb_leb_trans a b c : ltb o a b = true -> leb o b c = true -> ltb o a c = true.
Proof.
  rewrite !(ltb_leb o L), !negb_true_iff. intros H1 H2.
  destruct (leb o c a) eqn:E; [|reflexivity]. pose proof (leb_trans o L b c a H2 E). congruence.
Qed.
Lemma leb_ltb_trans a b c : leb o a b = true -> ltb o b c = true -> ltb o a c = true.
Proof.
  rewrite !(ltb_leb o L), !negb_true_iff. intros H1 H2.
  destruct (leb o c a) eqn:E; [|reflexivity]. pose proof (leb_trans o L c a b E H1). congruence.
Qed.
Lemma ltb_false_leb a b : ltb o a b = false -> leb o b a = true.
Proof. rewrite (ltb_leb o L), negb_false_iff. auto. Qed.
Lemma ltb_true_leb a b : ltb o a b = true -> leb o a b = true.
Proof.
  rewrite (ltb_leb o L), negb_true_iff. intros H. destruct (leb_total o L a b) as [E|E]; [exact E | congruence].
Qed.

(* pymin is the minimum *)
Lemma pymin_le_l a b : leb o (pymin o a b) a = true.
Proof. unfold pymin. destruct (ltb o b a) eqn:E; [apply ltb_true_leb; exact E | apply (leb_refl o L)]. Qed.
Lemma pymin_le_r a b : leb o (pymin o a b) b = true.
Proof. unfold pymin. destruct (ltb o b a) eqn:E; [apply (leb_refl o L) | apply ltb_false_leb; exact E]. Qed.
Lemma pymin_is_one a b : pymin o a b = a \/ pymin o a b = b.
Proof. unfold pymin. destruct (ltb o b a); auto. Qed.
Lemma pymin_lt_iff a b e : ltb o (pymin o a b) e = ltb o a e || ltb o b e.
Proof.
  unfold pymin. destruct (ltb o b a) eqn:E.
  - destruct (ltb o b e) eqn:E1; [rewrite orb_true_r; reflexivity|]. rewrite orb_false_r.
    destruct (ltb o a e) eqn:E2; [|reflexivity]. rewrite (ltb_trans b a e E E2) in E1. discriminate.
  - destruct (ltb o a e) eqn:E1; [reflexivity|]. cbn.
    destruct (ltb o b e) eqn:E2; [|reflexivity].
    rewrite (leb_ltb_trans a b e (ltb_false_leb _ _ E) E2) in E1. discriminate.
Qed.

(* ---- facts about the generated functions ---- *)
Lemma stop_spec mind eps it lim : gen_CheckStopCondition o mind eps it lim = ltb o mind eps || Z.leb lim it.
Proof. unfold gen_CheckStopCondition. destruct (ltb o mind eps || Z.leb lim it); reflexivity. Qed.

Lemma min_delta_update_spec d m : gen_min_delta_update o d m = pymin o d m.
Proof. reflexivity. Qed.

(* the guard of CalculateNextPointCoordinate: a returned point is strictly inside *)
Lemma next_point_inside xl xr idl idr zl zr M r x :
  gen_CalculateNextPointCoordinate o xl xr idl idr zl zr M r = Some x -> ltb o xl x = true /\ ltb o x xr = true.
Proof.
  unfold gen_CalculateNextPointCoordinate. intros H.
  assert (G : forall y, (if leb o y xl || leb o xr y then None else Some y) = Some x -> ltb o xl x = true /\ ltb o x xr = true).
  { intros y Hy. destruct (leb o y xl) eqn:E1; [discriminate|]. destruct (leb o xr y) eqn:E2; [discriminate|].
    cbn in Hy. injection Hy as <-. rewrite !(ltb_leb o L), E1, E2. auto. }
  destruct (Z.eqb idl idr); [destruct (ltb o _ _)|]; eapply G; exact H.
Qed.

(* CalculateM: the estimate never decreases; whenever it changes the recalc flag is raised;
   it dominates the slope when the two points carry the same index *)
Lemma calcM_spec il ic zl zc delta M rc M' rc' :
  gen_CalculateM o false il ic zl zc delta M rc = (M', rc') ->
  leb o M M' = true /\ ((M' = M /\ rc' = rc) \/ (rc' = true /\ M' = div o (absv o (sub o zl zc)) delta /\ il = ic)) /\
  (il = ic -> leb o (div o (absv o (sub o zl zc)) delta) M' = true).
Proof.
  unfold gen_CalculateM. destruct (Z.eqb_spec il ic) as [E|E].
  - destruct (ltb o M _) eqn:Lt; intros [= <- <-].
    + split; [apply ltb_true_leb; exact Lt|]. split; [right; auto|]. intros _. apply (leb_refl o L).
    + split; [apply (leb_refl o L)|]. split; [left; auto|]. intros _. apply ltb_false_leb. exact Lt.
  - intros [= <- <-]. split; [apply (leb_refl o L)|]. split; [left; auto | intros C; contradiction].
Qed.

(* UpdateOptimum: replace exactly when there is no best yet or the new value is strictly smaller (same index);
   whenever z* changes the recalc flag is raised *)
Lemma updopt_spec best_none zb zp rc Zs :
  gen_UpdateOptimum o best_none 0%Z 0%Z zb zp rc Zs =
  if best_none || ltb o zp zb then (true, true, zp) else (false, rc, Zs).
Proof. unfold gen_UpdateOptimum. cbn. destruct best_none; cbn; [reflexivity|]. destruct (ltb o zp zb); reflexivity. Qed.

End Laws.
