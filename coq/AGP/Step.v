(* The invariants hold in every state reachable from the initial one, and the subdivided interval is an arg-max. *)
From Coq Require Import ZArith List Bool Lia.
From IOptV Require Import AGP.Ops gen.MethodGen AGP.Impl AGP.Laws AGP.Termination AGP.Invariant AGP.Preserve.
Import ListNotations.

Section Step.
Context {T : Type} (o : Ops T) (L : OrdLaws o).
Variable p : params (T := T).
Notation st := (st (T := T)).
Notation item := (item (T := T)).
Hypothesis zero_lt_half : ltb o (of_Z o 0%Z) (half o) = true.
Hypothesis half_lt_one : ltb o (half o) (of_Z o 1%Z) = true.

Definition AllInv (s : st) : Prop :=
  firstflag s = false /\ RecInv o s /\ BestInv o s /\ MInv o s /\ CacheInv o p s.

(* ---------- transfer along "same items up to R" ---------- *)
Lemma sc_xi (a b : item) : sc a b -> xi a = xi b. Proof. unfold sc, core, xi. congruence. Qed.
Lemma SC_map_xi (l l' : list item) : SC l l' -> map xi l = map xi l'.
Proof. induction 1 as [|a b l l' H _ IH]; cbn; [reflexivity|]. f_equal; [apply sc_xi; exact H | exact IH]. Qed.

Lemma RecInv_SC s s' : RecInv o s -> SC (order s) (order s') -> ntr s' = ntr s -> nextuid s' = nextuid s -> RecInv o s'.
Proof.
  intros [R1 R2 R3 R4 [R5 R6]] H Hn Hu. constructor.
  - rewrite <- (SC_map_xi _ _ H). exact R1.
  - eapply SC_chain; [|exact H|exact R2]. unfold sc, core, xlt. intros a b a' b' E1 E2. congruence.
  - eapply SC_chain; [|exact H|exact R3]. unfold sc, core, delta_ok. intros a b a' b' E1 E2. congruence.
  - rewrite <- (SC_length _ _ H), Hn. exact R4.
  - split; [rewrite <- (SC_map_uid _ _ H); exact R5|]. rewrite Hu.
    eapply SC_Forall; [|exact H|exact R6]. unfold sc, core. intros a a' E. congruence.
Qed.

Lemma BestInv_SC s s' : BestInv o s -> SC (order s) (order s') -> best s' = best s -> sZ s' = sZ s -> BestInv o s'.
Proof.
  intros (u & x & z & B & Z & (it & Hi & E1 & E2 & E3 & E4) & All) H Hb Hz.
  exists u, x, z. split; [congruence|]. split; [congruence|]. split.
  - destruct (SC_In' _ _ H it Hi) as (it' & Hi' & Hs). exists it'. unfold sc, core, evaluated in *. split; [exact Hi'|]. repeat split; congruence.
  - intros it' Hi' Ev. destruct (SC_In _ _ H it' Hi') as (it0 & Hi0 & Hs). unfold sc, core, evaluated in *.
    replace (iz it') with (iz it0) by congruence. apply All; [exact Hi0 | congruence].
Qed.

Lemma MInv_SC s s' : MInv o s -> SC (order s) (order s') -> sM s' = sM s -> seen s' = seen s -> MInv o s'.
Proof.
  intros [M1 M2 M3 M4] H Hm Hs. constructor; rewrite ?Hm, ?Hs; auto.
  assert (M4' : chain (slope_seen o s') (order s)).
  { eapply chain_ext; [|exact M4]. unfold slope_seen. intros a b P I. rewrite Hs. apply P. exact I. }
  eapply SC_chain; [|exact H|exact M4']. unfold sc, core, slope_seen, slope. intros a b a' b' E1 E2 P I.
  replace (iz a') with (iz a) by congruence. replace (iz b') with (iz b) by congruence.
  replace (idelta b') with (idelta b) by congruence. apply P. congruence.
Qed.

(* ---------- recalc_all ---------- *)
Lemma recalc_all_inv s : AllInv s ->
  AllInv (recalc_all o p s) /\ recalc (recalc_all o p s) = false /\ R_current o p (recalc_all o p s) /\
  QInv o (order (recalc_all o p s)) (queue (recalc_all o p s)) /\ SC (order s) (order (recalc_all o p s)).
Proof.
  intros (F & R & B & M & C). unfold recalc_all. destruct (recalc s) eqn:E.
  - set (ord := recalc_items o (p_r p) (sM s) (sZ s) None (order s)).
    pose proof (recalc_items_SC o (p_r p) (sM s) (sZ s) (order s) None) as HSC. fold ord in HSC.
    assert (R' : RecInv o (with_order_queue s ord (refill o ord) false)) by (eapply RecInv_SC; [exact R | exact HSC | reflexivity | reflexivity]).
    assert (RC : R_current o p (with_order_queue s ord (refill o ord) false)).
    { unfold R_current. cbn [order with_order_queue sM sZ]. pose proof (recalc_items_current o (p_r p) (sM s) (sZ s) (order s) None) as [H1 H2].
      fold ord in H1, H2. split; [destruct ord; [exact I | exact H1] | exact H2]. }
    assert (Q : QInv o ord (refill o ord)).
    { apply (refill_QInv o L). destruct R' as [_ _ _ _ [N _]]. exact N. }
    split; [|split; [reflexivity|split; [exact RC | split; [exact Q | exact HSC]]]].
    split; [exact F|]. split; [exact R'|]. split; [eapply BestInv_SC; [exact B | exact HSC | reflexivity | reflexivity]|].
    split; [eapply MInv_SC; [exact M | exact HSC | reflexivity | reflexivity]|]. intros _. split; [exact RC | exact Q].
  - destruct (C E) as [RC Q]. split; [split; [exact F|split; [exact R|split; [exact B|split; [exact M|exact C]]]]|]. split; [exact E|]. split; [exact RC|]. split; [exact Q | apply SC_refl].
Qed.


(* ---------- the first iteration ---------- *)
Definition InitLike (s : st) : Prop :=
  order s = [] /\ queue s = [] /\ best s = None /\ sM s = of_Z o 1%Z /\ seen s = [] /\ ntr s = 0%Z /\ firstflag s = true.

Lemma init_like : InitLike (init_st o).
Proof. unfold InitLike, init_st. cbn. repeat split; reflexivity. Qed.

Lemma first_iteration_inv s z s' x : InitLike s -> first_iteration o p s (Value z) = (s', Done x) -> AllInv s' /\ x = half o.
Proof.
  intros (Ho & Hq & Hb & HM & Hs & Hn & Hf). unfold first_iteration. rewrite Hb. unfold upd_opt.
  cbn [set_eval idx iz]. rewrite (updopt_spec o). cbn [orb].
  intros [= <- <-]. split; [|reflexivity]. unfold AllInv. cbn [firstflag]. split; [reflexivity|]. split; [|split; [|split]].
  - constructor; cbn [order ntr nextuid].
    + cbn. split; [reflexivity|]. split; reflexivity.
    + cbn. unfold xlt. cbn. auto.
    + cbn. unfold delta_ok. cbn. auto.
    + cbn. rewrite Hn. reflexivity.
    + cbn. split; [repeat constructor; cbn; intuition congruence | repeat constructor].
  - unfold BestInv. cbn [best sZ order]. do 3 eexists. split; [reflexivity|]. split; [reflexivity|]. split.
    + eexists. split; [right; left; reflexivity|]. cbn. unfold evaluated. cbn. auto.
    + intros it [<-|[<-|[<-|[]]]]; unfold evaluated; cbn; try discriminate. intros _. apply (ltb_irrefl o L).
  - constructor; cbn [sM seen order].
    + rewrite HM. apply (leb_refl o L).
    + left. exact HM.
    + rewrite Hs. intros m [].
    + cbn. unfold slope_seen. cbn. split; [intros C; discriminate C|]. split; [intros C; discriminate C | exact I].
  - unfold CacheInv. cbn [recalc]. discriminate.
Qed.


(* ---------- one ordinary iteration ---------- *)
Lemma uid_inj (l : list item) a b : NoDup (map uid l) -> In a l -> In b l -> uid a = uid b -> a = b.
Proof.
  induction l as [|h t IH]; intros N Ha Hb E; [destruct Ha|]. cbn in N. inversion N as [|? ? Nh Nt]; subst.
  destruct Ha as [<-|Ha], Hb as [<-|Hb]; try reflexivity.
  - exfalso. apply Nh. rewrite E. apply in_map. exact Hb.
  - exfalso. apply Nh. rewrite <- E. apply in_map. exact Ha.
  - apply IH; assumption.
Qed.

Lemma calcR_left r M Zs c (l l' : item) : iz l = iz l' -> idx l = idx l' -> calcR o r M Zs c (Some l) = calcR o r M Zs c (Some l').
Proof. unfold calcR. intros -> ->. reflexivity. Qed.

(* what a successful iteration did, in terms of the state s1 = recalc_all s it started from *)
Record Selected (s s' : st) (x : T) : Prop := {
  sel_ctx : exists A l old after new2 old2,
    order (recalc_all o p s) = A ++ l :: old :: after /\ order s' = A ++ l :: new2 :: old2 :: after /\
    ix new2 = x /\ evaluated new2 /\ xi old2 = xi old /\ uid old2 = uid old /\ iz old2 = iz old /\
    (* the new point is strictly inside the subdivided interval and is given by the decision rule *)
    ltb o (ix l) x = true /\ ltb o x (ix old) = true /\
    gen_CalculateNextPointCoordinate o (ix l) (ix old) (idx l) (idx old) (iz l) (iz old) (sM (recalc_all o p s)) (p_r p) = Some x /\
    (* the subdivided interval has maximal characteristic among all intervals of the partition *)
    (forall it, In it (tl (order (recalc_all o p s))) -> leb o (iR it) (iR old) = true) /\
    (* the accuracy estimate takes the length of the subdivided interval into account *)
    mind s' = gen_min_delta_update o (idelta old) (mind s);
  (* ... where the stored characteristics are the characteristics under the current M and z* *)
  sel_current : R_current o p (recalc_all o p s);
  sel_same : sM (recalc_all o p s) = sM s /\ sZ (recalc_all o p s) = sZ s /\ SC (order s) (order (recalc_all o p s))
}.

Lemma iteration_inv s z s' x : AllInv s -> iteration o p s (Value z) = (s', Done x) -> AllInv s' /\ Selected s s' x.
Proof.
  intros A H. destruct (recalc_all_inv s A) as (A1 & RC0 & RC & Q1 & HSC).
  assert (Same : sM (recalc_all o p s) = sM s /\ sZ (recalc_all o p s) = sZ s /\ mind (recalc_all o p s) = mind s).
  { unfold recalc_all. destruct (recalc s); cbn; auto. }
  apply iteration_done_inv in H. cbn zeta in H. set (s1 := recalc_all o p s) in *.
  destruct H as (pr & u & q2 & before & l & old & after & Hq & Ho & Hu & Hx & b & rc & Zs & M1 & rc1 & M2 & rc2 & Hb & HM1 & HM2 & ->).
  destruct A1 as (F1 & R1 & B1 & MI1 & C1).
  set (A0 := rev before) in *.
  set (new0 := mkItem (nextuid s1) x z 0%Z (of_Z o (-1)%Z) (of_Z o (-1)%Z)) in *.
  set (old1 := set_delta old (delta_of o (ix new0) (ix old))) in *.
  set (new1 := set_delta new0 (delta_of o (ix l) (ix new0))) in *.
  set (new2 := set_R new1 (calcR o (p_r p) M2 Zs new1 (Some l))) in *.
  set (old2 := set_R old1 (calcR o (p_r p) M2 Zs old1 (Some new2))) in *.
  destruct R1 as [Rshape Rsorted Rdelta Rcount [Rnodup Rlt]].
  (* the queue the selection is made from *)
  assert (Qq : QInv o (order s1) ((pr, u) :: q2)).
  { rewrite <- Hq. destruct (queue s1) eqn:Eq; [apply (refill_QInv o L); exact Rnodup | first [exact Q1 | rewrite <- Eq; exact Q1]]. }
  destruct Qq as [Qsound Qcomplete Qsorted Qnodup].
  assert (InOld : In old (order s1)) by (rewrite Ho; apply in_or_app; right; right; left; reflexivity).
  assert (Rold : iR old = pr).
  { destruct (Qsound pr u (or_introl eq_refl)) as (it & Hi & E1 & E2). rewrite <- E2. f_equal.
    apply (uid_inj (order s1)); [exact Rnodup | exact InOld | exact Hi | congruence]. }
  destruct (next_point_inside o L _ _ _ _ _ _ _ _ _ Hx) as [In1 In2].
  (* membership in the old and the new list *)
  assert (Mem1 : forall it, In it (order s1) <-> it = old \/ In it (A0 ++ [l]) \/ In it after).
  { intros it. rewrite Ho. rewrite !in_app_iff. cbn [In]. split; intros HH; intuition (subst; auto). }
  assert (Mem2 : forall it, In it (A0 ++ l :: new2 :: old2 :: after) <-> it = new2 \/ it = old2 \/ In it (A0 ++ [l]) \/ In it after).
  { intros it. rewrite !in_app_iff. cbn [In]. split; intros; intuition (subst; auto). }
  assert (UidOther : forall it, In it (A0 ++ [l]) \/ In it after -> uid it <> uid old).
  { intros it Hi E. rewrite Ho in Rnodup. replace (A0 ++ l :: old :: after) with ((A0 ++ [l]) ++ old :: after) in Rnodup by (rewrite <- app_assoc; reflexivity).
    rewrite map_app in Rnodup. cbn [map] in Rnodup. apply NoDup_remove_2 in Rnodup. apply Rnodup. rewrite <- E.
    apply in_or_app. destruct Hi as [Hi|Hi]; [left | right]; apply in_map; exact Hi. }
  assert (LtAll : forall it, In it (order s1) -> (uid it < nextuid s1)%nat) by (apply Forall_forall; exact Rlt).
  split.
  { (* ================= AllInv s' ================= *)
    unfold AllInv. cbn [firstflag]. split; [exact F1|]. split; [|split; [|split]].
    - (* RecInv *)
      constructor; cbn [order ntr nextuid].
      + rewrite Ho in Rshape. rewrite map_app in *. cbn [map] in *. change (xi new2) with (x, 0%Z). change (xi old2) with (xi old).
        apply (ends_ok_insert o). exact Rshape.
      + rewrite Ho in Rsorted. apply chain_insert with (old := old); [exact Rsorted | exact In1 | exact In2 | intros y Hy; exact Hy].
      + rewrite Ho in Rdelta. apply chain_insert with (old := old); [exact Rdelta | reflexivity | reflexivity | intros y Hy; exact Hy].
      + rewrite Ho in Rcount. rewrite app_length in *. cbn [length] in *. lia.
      + split.
        * rewrite Ho in Rnodup. rewrite map_app in *. cbn [map] in *. change (uid new2) with (nextuid s1). change (uid old2) with (uid old).
          replace (map uid A0 ++ uid l :: nextuid s1 :: uid old :: map uid after) with ((map uid A0 ++ [uid l]) ++ nextuid s1 :: uid old :: map uid after)
            by (rewrite <- app_assoc; reflexivity).
          apply NoDup_insert; [rewrite <- app_assoc; exact Rnodup|].
          rewrite <- app_assoc. cbn [app]. intros C.
          assert (E : exists it, In it (order s1) /\ uid it = nextuid s1).
          { rewrite Ho. change (uid l :: uid old :: map uid after) with (map uid (l :: old :: after)) in C. rewrite <- map_app in C.
            apply in_map_iff in C as (it & E & Hi). exists it. auto. }
          destruct E as (it & Hi & E). specialize (LtAll it Hi). lia.
        * apply Forall_forall. intros it Hi. apply Mem2 in Hi as [->|[->|Hi]]; [cbn; lia | change (uid old2) with (uid old); specialize (LtAll old InOld); lia|].
          assert (In it (order s1)) by (apply Mem1; right; exact Hi). specialize (LtAll it H). lia.
    - (* BestInv *)
      destruct B1 as (ub & xb & zb & Bb & Bz & (itb & Hib & Eb1 & Eb2 & Eb3 & Eb4) & Ball).
      unfold upd_opt in Hb. rewrite Bb in Hb. change (idx new0) with 0%Z in Hb. change (iz new0) with z in Hb.
      rewrite (updopt_spec o) in Hb. cbn [orb] in Hb.
      unfold BestInv. cbn [best sZ order].
      destruct (ltb o z zb) eqn:Lz; injection Hb as <- <- <-.
      + exists (uid new0), x, z. split; [reflexivity|]. split; [reflexivity|]. split.
        * exists new2. split; [apply Mem2; left; reflexivity|]. cbn. unfold evaluated. cbn. auto.
        * intros it Hi Ev. apply Mem2 in Hi as [->|[->|Hi]].
          -- apply (ltb_irrefl o L).
          -- change (iz old2) with (iz old). destruct (ltb o (iz old) z) eqn:C; [|reflexivity].
             rewrite <- (Ball old InOld Ev). symmetry. apply (ltb_trans o L _ z); assumption.
          -- assert (Hi1 : In it (order s1)) by (apply Mem1; right; exact Hi).
             destruct (ltb o (iz it) z) eqn:C; [|reflexivity]. rewrite <- (Ball it Hi1 Ev). symmetry. apply (ltb_trans o L _ z); assumption.
      + exists ub, xb, zb. split; [first [exact Bb | reflexivity]|]. split; [exact Bz|]. split.
        * apply Mem1 in Hib as [->|Hib].
          -- exists old2. split; [apply Mem2; right; left; reflexivity|]. cbn. auto.
          -- exists itb. split; [apply Mem2; right; right; exact Hib | auto].
        * intros it Hi Ev. apply Mem2 in Hi as [->|[->|Hi]].
          -- exact Lz.
          -- change (iz old2) with (iz old). apply Ball; [exact InOld | exact Ev].
          -- apply Ball; [apply Mem1; right; exact Hi | exact Ev].
    - (* MInv *)
      destruct MI1 as [Mf Mm Mb Mc].
      unfold calcM in HM1, HM2.
      destruct (calcM_spec o L _ _ _ _ _ _ _ _ _ HM1) as (Le1 & Ch1 & Dom1).
      destruct (calcM_spec o L _ _ _ _ _ _ _ _ _ HM2) as (Le2 & Ch2 & Dom2).
      change (div o (absv o (sub o (iz l) (iz new1))) (idelta new1)) with (slope o l new1) in *.
      change (div o (absv o (sub o (iz new1) (iz old1))) (idelta old1)) with (slope o new1 old1) in *.
      assert (In1s : idx l = idx new1 -> In (slope o l new1) (slopes_of o l new1 old1)).
      { intros E. unfold slopes_of. apply in_or_app. right. rewrite E, Z.eqb_refl. left. reflexivity. }
      assert (In2s : idx new1 = idx old1 -> In (slope o new1 old1) (slopes_of o l new1 old1)).
      { intros E. unfold slopes_of. apply in_or_app. left. rewrite E, Z.eqb_refl. left. reflexivity. }
      constructor; cbn [sM seen order].
      + apply (leb_trans o L _ (sM s1)); [exact Mf|]. apply (leb_trans o L _ M1); assumption.
      + destruct Ch2 as [[-> _]|(_ & -> & E)]; [|right; apply in_or_app; left; apply In2s; exact E].
        destruct Ch1 as [[-> _]|(_ & -> & E)]; [|right; apply in_or_app; left; apply In1s; exact E].
        destruct Mm as [Mm|Mm]; [left; exact Mm | right; apply in_or_app; right; exact Mm].
      + intros m Hm. apply in_app_or in Hm as [Hm|Hm].
        * unfold slopes_of in Hm. apply in_app_or in Hm as [Hm|Hm].
          -- destruct (Z.eqb_spec (idx new1) (idx old1)) as [E|E]; [|destruct Hm]. destruct Hm as [<-|[]]. apply Dom2. exact E.
          -- destruct (Z.eqb_spec (idx l) (idx new1)) as [E|E]; [|destruct Hm]. destruct Hm as [<-|[]].
             apply (leb_trans o L _ M1); [apply Dom1; exact E | exact Le2].
        * apply (leb_trans o L _ (sM s1)); [apply Mb; exact Hm|]. apply (leb_trans o L _ M1); assumption.
      + set (seen' := slopes_of o l new1 old1 ++ seen s1).
        assert (Mc' : chain (fun a b => idx a = idx b -> In (slope o a b) seen') (order s1)).
        { eapply chain_ext; [|exact Mc]. unfold slope_seen. intros a c P E. apply in_or_app. right. apply P. exact E. }
        rewrite Ho in Mc'. unfold slope_seen. cbn [seen]. fold seen'.
        apply chain_insert with (old := old); [exact Mc' | | |].
        * intros E. apply in_or_app. left. apply In1s. exact E.
        * intros E. apply in_or_app. left. apply In2s. exact E.
        * intros y Hy E. apply Hy. exact E.
    - (* CacheInv *)
      unfold CacheInv. cbn [recalc order queue sM sZ]. intros Hrc2.
      unfold calcM in HM1, HM2.
      destruct (calcM_spec o L _ _ _ _ _ _ _ _ _ HM2) as (_ & Ch2 & _).
      destruct (calcM_spec o L _ _ _ _ _ _ _ _ _ HM1) as (_ & Ch1 & _).
      assert (E2 : M2 = M1 /\ rc1 = false) by (destruct Ch2 as [[E1 E2]|(C & _)]; [split; congruence | congruence]).
      destruct E2 as [-> Hrc1].
      assert (E1 : M1 = sM s1 /\ rc = false) by (destruct Ch1 as [[E1 E2]|(C & _)]; [split; congruence | congruence]).
      destruct E1 as [-> Hrc].
      destruct B1 as (ub & xb & zb & Bb & Bz & _).
      unfold upd_opt in Hb. rewrite Bb in Hb. change (idx new0) with 0%Z in Hb. change (iz new0) with z in Hb.
      rewrite (updopt_spec o) in Hb. cbn [orb] in Hb. destruct (ltb o z zb); injection Hb as <- E <-; [congruence|].
      clear E. destruct RC as [RCh RCc]. split.
      + unfold R_current. cbn [order sM sZ]. split.
        * rewrite Ho in RCh. destruct A0; cbn [app] in *; exact RCh.
        * rewrite Ho in RCc. apply chain_insert with (old := old); [exact RCc | | |].
          -- cbn [iR new2 set_R]. apply calcR_core; reflexivity.
          -- cbn [iR old2 set_R]. apply calcR_core; reflexivity.
          -- intros y Hy. rewrite Hy. apply calcR_left; reflexivity.
      + assert (NotIn : ~ In u (map snd q2)) by (cbn in Qnodup; inversion Qnodup; assumption).
        assert (Nq2 : NoDup (map snd q2)) by (cbn in Qnodup; inversion Qnodup; assumption).
        assert (Lt2 : forall v, In v (map snd q2) -> (v < nextuid s1)%nat).
        { intros v Hv. apply in_map_iff in Hv as ([pr' u'] & <- & Hv). destruct (Qsound pr' u' (or_intror Hv)) as (it & Hi & <- & _). apply LtAll. exact Hi. }
        constructor.
        * intros pr' u' Hin. apply (pq_insert_in o) in Hin as [[= -> ->]|Hin]; [exists old2; split; [apply Mem2; auto | auto]|].
          apply (pq_insert_in o) in Hin as [[= -> ->]|Hin]; [exists new2; split; [apply Mem2; auto | auto]|].
          destruct (Qsound pr' u' (or_intror Hin)) as (it & Hi & E1 & E2). apply Mem1 in Hi as [->|Hi].
          -- exfalso. apply NotIn. rewrite <- Hu, E1. apply in_map_iff. exists (pr', u'). auto.
          -- exists it. split; [apply Mem2; right; right; exact Hi | auto].
        * intros it Hi.
          assert (Hi' : it = new2 \/ it = old2 \/ ((In it (A0 ++ [l]) \/ In it after) /\ In it (tl (order s1)))).
          { rewrite Ho. destruct A0 as [|f A']; cbn [app tl] in *.
            - destruct Hi as [<-|[<-|Hi]]; auto. right. right. split; [right; exact Hi | right; exact Hi].
            - apply in_app_or in Hi as [Hi|[<-|[<-|[<-|Hi]]]]; auto.
              + right. right. split; [left; right; apply in_or_app; left; exact Hi | apply in_or_app; left; exact Hi].
              + right. right. split; [left; right; apply in_or_app; right; left; reflexivity | apply in_or_app; right; left; reflexivity].
              + right. right. split; [right; exact Hi | apply in_or_app; right; right; right; exact Hi]. }
          apply (pq_insert_in o). destruct Hi' as [->|[->|[Hi1 Hi2]]]; [right; apply (pq_insert_in o); left; reflexivity | left; reflexivity|].
          right. apply (pq_insert_in o). right.
          destruct (Qcomplete it Hi2) as [E|E]; [|exact E]. exfalso. injection E as _ E. apply (UidOther it Hi1). congruence.
        * apply (pq_insert_sorted o L). apply (pq_insert_sorted o L). apply (qsorted_tail o _ _ Qsorted).
        * apply (pq_insert_nodup o).
          -- apply (pq_insert_nodup o); [exact Nq2|]. intros C. specialize (Lt2 _ C). cbn in Lt2. lia.
          -- intros C. apply (proj2 (pq_insert_uids o q2 (iR new2) (uid new2))) in C as [C|C].
             ++ change (uid old2) with (uid old) in C. specialize (LtAll old InOld). cbn in C. lia.
             ++ apply NotIn. rewrite <- Hu. exact C.
  }
  { (* ================= Selected ================= *)
    constructor.
    - exists A0, l, old, after, new2, old2. cbn [order mind].
      split; [exact Ho|]. split; [reflexivity|]. split; [reflexivity|]. split; [reflexivity|]. split; [reflexivity|]. split; [reflexivity|].
      split; [reflexivity|]. split; [exact In1|]. split; [exact In2|]. split; [exact Hx|]. split.
      + intros it Hi. rewrite Rold. destruct (Qcomplete it Hi) as [E|E].
        * injection E as <- _. apply (leb_refl o L).
        * apply (qsorted_head o L _ _ Qsorted (iR it, uid it) E).
      + destruct Same as (_ & _ & ->). reflexivity.
    - exact RC.
    - destruct Same as (E1 & E2 & _). auto.
  }
Qed.

End Step.
