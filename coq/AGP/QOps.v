(* Exact rational instance of the numeric interface for dimension N = 1 (the two power functions are the identity).
   It satisfies the order laws, so every theorem of AGP/ applies to it, and it is executable: used for witnesses. *)
From Coq Require Import ZArith QArith Qabs Bool Lia Lqa.
From IOptV Require Import AGP.Ops AGP.Laws.

Definition qltb (a b : Q) : bool := negb (Qle_bool b a).
Definition q_big : Q := inject_Z (2 ^ 1024).

Definition q_ops : Ops Q :=
  {| add := fun a b => Qred (a + b); sub := fun a b => Qred (a - b); mul := fun a b => Qred (a * b); div := fun a b => Qred (a / b);
     absv := fun a => Qred (Qabs a); ltb := qltb; leb := Qle_bool; of_Z := inject_Z; half := 1 # 2;
     pinf := q_big; ninf := - q_big; fmax := q_big; hroot := fun d => d; hpow := fun a => a |}.

Lemma q_ord_laws : OrdLaws q_ops.
Proof.
  constructor; cbn [leb ltb q_ops]; unfold qltb.
  - intros a. apply Qle_bool_iff. apply Qle_refl.
  - intros a b c H1 H2. apply Qle_bool_iff in H1, H2. apply Qle_bool_iff. eapply Qle_trans; eassumption.
  - intros a b. destruct (Qlt_le_dec b a) as [H|H]; [right; apply Qle_bool_iff; apply Qlt_le_weak; exact H | left; apply Qle_bool_iff; exact H].
  - reflexivity.
Qed.

Lemma q_zero_lt_half : ltb q_ops (of_Z q_ops 0%Z) (half q_ops) = true. Proof. reflexivity. Qed.
Lemma q_half_lt_one : ltb q_ops (half q_ops) (of_Z q_ops 1%Z) = true. Proof. reflexivity. Qed.
