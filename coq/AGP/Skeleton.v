(* The control skeletons, call shapes and pass-through facts of the driver code that the hand-written state machine
   (AGP/Impl.v) and the driver model were written against. RECORDED BY HAND (copied from the generated
   gen/SourceFacts.v of the tree the model was validated on, tools/record_skeleton.py): each lemma compares the skeleton
   regenerated from the current source with the recorded one. A refactoring of one of these methods re-opens the lemma,
   and the lock-step correspondence then decides whether behaviour changed. *)
From Coq Require Import String List Bool.
From IOptV Require Import gen.SourceFacts.
Import ListNotations.
Open Scope string_scope.

Definition expected_solver_evolvent_args : list string := ["problem.lowerBoundOfFloatVariables"; "problem.upperBoundOfFloatVariables"; "problem.numberOfFloatVariables"; "parameters.evolventDensity"].
Lemma solver_evolvent_args_ok : solver_evolvent_args = expected_solver_evolvent_args. Proof. reflexivity. Qed.

Definition expected_solver_components : list (string * string) := [("searchData", "SearchData(problem)"); ("evolvent", "Evolvent(problem.lowerBoundOfFloatVariables, problem.upperBoundOfFloatVariables, problem.numberOfFloatVariables, parameters.evolventDensity)"); ("task", "OptimizationTask(problem)"); ("method", "Method(parameters, self.task, self.evolvent, self.searchData)"); ("process", "Process(parameters=parameters, task=self.task, evolvent=self.evolvent, searchData=self.searchData, method=self.method, listeners=self.__listeners)")].
Lemma solver_components_ok : solver_components = expected_solver_components. Proof. reflexivity. Qed.

Definition expected_solver_delegation : list (string * string) := [("Solve", "return self.process.Solve()"); ("DoGlobalIteration", "self.process.DoGlobalIteration(number)"); ("DoLocalRefinement", "self.process.DoLocalRefinement(number)"); ("GetResults", "return self.process.GetResults()")].
Lemma solver_delegation_ok : solver_delegation = expected_solver_delegation. Proof. reflexivity. Qed.

Definition expected_refine_minimize_positional : list string := ["self.problemCalculate"].
Lemma refine_minimize_positional_ok : refine_minimize_positional = expected_refine_minimize_positional. Proof. reflexivity. Qed.

Definition expected_refine_minimize_keywords : list (string * string) := [("x0", "startPoint"); ("method", "'Nelder-Mead'"); ("options", "{'maxiter': self.localMethodIterationCount}"); ("bounds", "bounds")].
Lemma refine_minimize_keywords_ok : refine_minimize_keywords = expected_refine_minimize_keywords. Proof. reflexivity. Qed.

Definition expected_refine_bounds_definition : list string := ["Bounds(self.task.problem.lowerBoundOfFloatVariables, self.task.problem.upperBoundOfFloatVariables)"].
Lemma refine_bounds_definition_ok : refine_bounds_definition = expected_refine_bounds_definition. Proof. reflexivity. Qed.

Definition expected_refine_writes_through_best_trial : list string := [].
Lemma refine_writes_through_best_trial_ok : refine_writes_through_best_trial = expected_refine_writes_through_best_trial. Proof. reflexivity. Qed.

Definition expected_refine_skeleton : list string := ["self.localMethodIterationCount = number"; "if number == -1: self.localMethodIterationCount = self.parameters.itersLimit * 0.05"; "result = self.GetResults()"; "startPoint = result.bestTrials[0].point.floatVariables"; "bounds = Bounds(self.task.problem.lowerBoundOfFloatVariables, self.task.problem.upperBoundOfFloatVariables)"; "nelder_mead = scipy.optimize.minimize(self.problemCalculate, x0=startPoint, method='Nelder-Mead', options={'maxiter': self.localMethodIterationCount}, bounds=bounds)"; "refinedValue = self.problemCalculate(nelder_mead.x)"; "if refinedValue <= result.bestTrials[0].functionValues[0].value: functionValue = FunctionValue() functionValue.value = refinedValue result.bestTrials[0] = Trial(Point(nelder_mead.x, result.bestTrials[0].point.discreteVariables), [functionValue])"; "result.numberOfLocalTrials = nelder_mead.nfev"].
Lemma refine_skeleton_ok : refine_skeleton = expected_refine_skeleton. Proof. reflexivity. Qed.

Definition expected_listener_calls : list (string * string * nat * list string) := [("Solve", "OnMethodStop", 3%nat, ["self.searchData"; "self.GetResults()"; "status"]); ("DoGlobalIteration", "OnEndIteration", 2%nat, ["savedNewPoints"; "self.GetResults()"]); ("DoGlobalIteration", "BeforeMethodStart", 1%nat, ["self.method"])].
Lemma listener_calls_ok : listener_calls = expected_listener_calls. Proof. reflexivity. Qed.

Definition expected_listener_base_arity : list (string * nat * nat) := [("BeforeMethodStart", 1%nat, 1%nat); ("OnEndIteration", 2%nat, 2%nat); ("OnMethodStop", 1%nat, 3%nat); ("OnRefrash", 1%nat, 1%nat)].
Lemma listener_base_arity_ok : listener_base_arity = expected_listener_base_arity. Proof. reflexivity. Qed.

Definition expected_sk_Process_init : list string := ["self.parameters = parameters"; "self.task = task"; "self.evolvent = evolvent"; "self.searchData = searchData"; "self.method = method"; "self.__listeners = listeners"; "self.__first_iteration = True"; "self.localMethodIterationCount = 0"].
Lemma sk_Process_init_ok : sk_Process_init = expected_sk_Process_init. Proof. reflexivity. Qed.

Definition expected_sk_Process_Solve : list string := ["startTime = datetime.now()"; "try:"; "  while not self.method.CheckStopCondition():"; "    self.DoGlobalIteration()"; "except BaseException:"; "  print('Exception was thrown')"; "if self.parameters.refineSolution:"; "  self.DoLocalRefinement(-1)"; "result = self.GetResults()"; "result.solvingTime = (datetime.now() - startTime).total_seconds()"; "for listener in self.__listeners:"; "  status = self.method.CheckStopCondition()"; "  listener.OnMethodStop(self.searchData, self.GetResults(), status)"; "return result"].
Lemma sk_Process_Solve_ok : sk_Process_Solve = expected_sk_Process_Solve. Proof. reflexivity. Qed.

Definition expected_sk_Process_DoGlobalIteration : list string := ["savedNewPoints = []"; "for _ in range(number):"; "  if self.__first_iteration is True:"; "    for listener in self.__listeners:"; "      listener.BeforeMethodStart(self.method)"; "    self.method.FirstIteration()"; "    savedNewPoints.append(self.searchData.GetLastItem())"; "    self.__first_iteration = False"; "  else:"; "    accuracy = self.method.min_delta"; "    newpoint, oldpoint = self.method.CalculateIterationPoint()"; "    savedNewPoints.append(newpoint)"; "    try:"; "      self.method.CalculateFunctionals(newpoint)"; "    except BaseException:"; "      self.method.recalc = True"; "      self.method.min_delta = accuracy"; "      raise"; "    self.method.UpdateOptimum(newpoint)"; "    self.method.RenewSearchData(newpoint, oldpoint)"; "    self.method.FinalizeIteration()"; "for listener in self.__listeners:"; "  listener.OnEndIteration(savedNewPoints, self.GetResults())"].
Lemma sk_Process_DoGlobalIteration_ok : sk_Process_DoGlobalIteration = expected_sk_Process_DoGlobalIteration. Proof. reflexivity. Qed.

Definition expected_sk_Process_GetResults : list string := ["return self.searchData.solution"].
Lemma sk_Process_GetResults_ok : sk_Process_GetResults = expected_sk_Process_GetResults. Proof. reflexivity. Qed.

Definition expected_sk_Process_problemCalculate : list string := ["point = Point(y, [])"; "functionValue = FunctionValue()"; "functionValue = self.task.problem.Calculate(point, functionValue)"; "return functionValue.value"].
Lemma sk_Process_problemCalculate_ok : sk_Process_problemCalculate = expected_sk_Process_problemCalculate. Proof. reflexivity. Qed.

Definition expected_methods_Process : list string := ["__init__"; "Solve"; "DoGlobalIteration"; "problemCalculate"; "DoLocalRefinement"; "GetResults"].
Lemma methods_Process_ok : methods_Process = expected_methods_Process. Proof. reflexivity. Qed.

Definition expected_sk_Method_init : list string := ["self.stop: bool = False"; "self.recalc: bool = True"; "self.iterationsCount: int = 0"; "self.best: SearchDataItem = None"; "self.parameters = parameters"; "self.task = task"; "self.evolvent = evolvent"; "self.searchData = searchData"; "self.M = [1.0 for _ in range(task.problem.numberOfObjectives + task.problem.numberOfConstraints)]"; "self.Z = [np.inf for _ in range(task.problem.numberOfObjectives + task.problem.numberOfConstraints)]"; "self.dimension = task.problem.numberOfFloatVariables"; "self.searchData.solution.solutionAccuracy = np.inf"].
Lemma sk_Method_init_ok : sk_Method_init = expected_sk_Method_init. Proof. reflexivity. Qed.

Definition expected_sk_Method_FirstIteration : list string := ["self.iterationsCount = 1"; "x: float = 0.5"; "y = Point(self.evolvent.GetImage(x), None)"; "middle = SearchDataItem(y, x)"; "left = SearchDataItem(Point(self.evolvent.GetImage(0.0), None), 0.0)"; "right = SearchDataItem(Point(self.evolvent.GetImage(1.0), None), 1.0)"; "left.delta = 0"; "middle.delta = Method.CalculateDelta(left.GetX(), middle.GetX(), self.dimension)"; "right.delta = Method.CalculateDelta(middle.GetX(), right.GetX(), self.dimension)"; "self.CalculateFunctionals(middle)"; "self.UpdateOptimum(middle)"; "self.CalculateGlobalR(left, None)"; "self.CalculateGlobalR(middle, left)"; "self.CalculateGlobalR(right, middle)"; "self.searchData.InsertFirstDataItem(left, right)"; "self.searchData.InsertDataItem(middle, right)"].
Lemma sk_Method_FirstIteration_ok : sk_Method_FirstIteration = expected_sk_Method_FirstIteration. Proof. reflexivity. Qed.

Definition expected_sk_Method_CheckStopCondition : list string := ["if self.min_delta < self.parameters.eps or self.iterationsCount >= self.parameters.itersLimit:"; "  self.stop = True"; "else:"; "  self.stop = False"; "return self.stop"].
Lemma sk_Method_CheckStopCondition_ok : sk_Method_CheckStopCondition = expected_sk_Method_CheckStopCondition. Proof. reflexivity. Qed.

Definition expected_sk_Method_RecalcAllCharacteristics : list string := ["if self.recalc is not True:"; "  return"; "self.searchData.ClearQueue()"; "for item in self.searchData:"; "  self.CalculateGlobalR(item, item.GetLeft())"; "self.searchData.RefillQueue()"; "self.recalc = False"].
Lemma sk_Method_RecalcAllCharacteristics_ok : sk_Method_RecalcAllCharacteristics = expected_sk_Method_RecalcAllCharacteristics. Proof. reflexivity. Qed.

Definition expected_sk_Method_CalculateIterationPoint : list string := ["if self.recalc is True:"; "  self.RecalcAllCharacteristics()"; "old = self.searchData.GetDataItemWithMaxGlobalR()"; "self.min_delta = min(old.delta, self.min_delta)"; "newx = self.CalculateNextPointCoordinate(old)"; "newy = self.evolvent.GetImage(newx)"; "new = copy.deepcopy(SearchDataItem(Point(newy, []), newx))"; "return (new, old)"].
Lemma sk_Method_CalculateIterationPoint_ok : sk_Method_CalculateIterationPoint = expected_sk_Method_CalculateIterationPoint. Proof. reflexivity. Qed.

Definition expected_sk_Method_CalculateFunctionals : list string := ["point = self.task.Calculate(point, 0)"; "if not np.isfinite(point.functionValues[0].value):"; "  raise ValueError('CalculateFunctionals: the objective returned a non-finite value')"; "point.SetZ(point.functionValues[0].value)"; "point.SetIndex(0)"; "self.searchData.solution.numberOfGlobalTrials += 1"; "return point"].
Lemma sk_Method_CalculateFunctionals_ok : sk_Method_CalculateFunctionals = expected_sk_Method_CalculateFunctionals. Proof. reflexivity. Qed.

Definition expected_sk_Method_CalculateM : list string := ["if curr_point is None:"; "  print('CalculateM: curr_point is None')"; "  raise RuntimeError('CalculateM: curr_point is None')"; "if left_point is None:"; "  return"; "index = curr_point.GetIndex()"; "if left_point.GetIndex() == index:"; "  m = abs(left_point.GetZ() - curr_point.GetZ()) / curr_point.delta"; "  if m > self.M[index]:"; "    self.M[index] = m"; "    self.recalc = True"].
Lemma sk_Method_CalculateM_ok : sk_Method_CalculateM = expected_sk_Method_CalculateM. Proof. reflexivity. Qed.

Definition expected_sk_Method_RenewSearchData : list string := ["oldpoint.delta = Method.CalculateDelta(newpoint.GetX(), oldpoint.GetX(), self.dimension)"; "newpoint.delta = Method.CalculateDelta(oldpoint.GetLeft().GetX(), newpoint.GetX(), self.dimension)"; "self.CalculateM(newpoint, oldpoint.GetLeft())"; "self.CalculateM(oldpoint, newpoint)"; "self.CalculateGlobalR(newpoint, oldpoint.GetLeft())"; "self.CalculateGlobalR(oldpoint, newpoint)"; "self.searchData.InsertDataItem(newpoint, oldpoint)"].
Lemma sk_Method_RenewSearchData_ok : sk_Method_RenewSearchData = expected_sk_Method_RenewSearchData. Proof. reflexivity. Qed.

Definition expected_sk_Method_UpdateOptimum : list string := ["if self.best is None or self.best.GetIndex() < point.GetIndex():"; "  self.best = point"; "  self.recalc = True"; "  self.Z[point.GetIndex()] = point.GetZ()"; "else:"; "  if self.best.GetIndex() == point.GetIndex() and point.GetZ() < self.best.GetZ():"; "    self.best = point"; "    self.recalc = True"; "    self.Z[point.GetIndex()] = point.GetZ()"; "current = self.searchData.solution.bestTrials[0]"; "if current is self.best or len(current.functionValues) == 0 or self.best.GetZ() <= current.functionValues[0].value:"; "  self.searchData.solution.bestTrials[0] = self.best"].
Lemma sk_Method_UpdateOptimum_ok : sk_Method_UpdateOptimum = expected_sk_Method_UpdateOptimum. Proof. reflexivity. Qed.

Definition expected_sk_Method_FinalizeIteration : list string := ["self.iterationsCount += 1"].
Lemma sk_Method_FinalizeIteration_ok : sk_Method_FinalizeIteration = expected_sk_Method_FinalizeIteration. Proof. reflexivity. Qed.

Definition expected_sk_Method_CalculateNextPointCoordinate : list string := ["left = point.GetLeft()"; "if left is None:"; "  print('CalculateNextPointCoordinate: Left point is NONE')"; "  raise Exception('CalculateNextPointCoordinate: Left point is NONE')"; "xl = left.GetX()"; "xr = point.GetX()"; "idl = left.GetIndex()"; "idr = point.GetIndex()"; "if idl == idr:"; "  v = idr"; "  dif = point.GetZ() - left.GetZ()"; "  dg = -1.0"; "  if dif > 0:"; "    dg = 1.0"; "  x = 0.5 * (xl + xr)"; "  x -= 0.5 * dg * pow(abs(dif) / self.M[v], self.task.problem.numberOfFloatVariables) / self.parameters.r"; "else:"; "  x = 0.5 * (xl + xr)"; "if x <= xl or x >= xr:"; "  print(f'CalculateNextPointCoordinate: x is outside of interval {x} {xl} {xr}')"; "  raise Exception('CalculateNextPointCoordinate: x is outside of interval')"; "return x"].
Lemma sk_Method_CalculateNextPointCoordinate_ok : sk_Method_CalculateNextPointCoordinate = expected_sk_Method_CalculateNextPointCoordinate. Proof. reflexivity. Qed.

Definition expected_sk_Method_CalculateGlobalR : list string := ["if curr_point is None:"; "  print('CalculateGlobalR: Curr point is NONE')"; "  raise Exception('CalculateGlobalR: Curr point is NONE')"; "if left_point is None:"; "  curr_point.globalR = -np.inf"; "  return None"; "zl = left_point.GetZ()"; "zr = curr_point.GetZ()"; "r = self.parameters.r"; "deltax = curr_point.delta"; "if left_point.GetIndex() == curr_point.GetIndex():"; "  v = curr_point.GetIndex()"; "  globalR = deltax + (zr - zl) * (zr - zl) / (deltax * self.M[v] * self.M[v] * r * r) - 2 * (zr + zl - 2 * self.Z[v]) / (r * self.M[v])"; "else:"; "  if left_point.GetIndex() < curr_point.GetIndex():"; "    v = curr_point.GetIndex()"; "    globalR = 2 * deltax - 4 * (zr - self.Z[v]) / (r * self.M[v])"; "  else:"; "    v = left_point.GetIndex()"; "    globalR = 2 * deltax - 4 * (zl - self.Z[v]) / (r * self.M[v])"; "curr_point.globalR = globalR"].
Lemma sk_Method_CalculateGlobalR_ok : sk_Method_CalculateGlobalR = expected_sk_Method_CalculateGlobalR. Proof. reflexivity. Qed.

Definition expected_sk_Method_CalculateDelta : list string := ["return pow(rx - lx, 1.0 / dimension)"].
Lemma sk_Method_CalculateDelta_ok : sk_Method_CalculateDelta = expected_sk_Method_CalculateDelta. Proof. reflexivity. Qed.

Definition expected_methods_Method : list string := ["__init__"; "min_delta"; "min_delta"; "CalculateDelta"; "FirstIteration"; "CheckStopCondition"; "RecalcAllCharacteristics"; "CalculateNextPointCoordinate"; "CalculateIterationPoint"; "CalculateFunctionals"; "CalculateM"; "CalculateGlobalR"; "RenewSearchData"; "UpdateOptimum"; "FinalizeIteration"; "GetIterationsCount"; "GetOptimumEstimation"].
Lemma methods_Method_ok : methods_Method = expected_methods_Method. Proof. reflexivity. Qed.

Definition expected_sk_SearchData_init : list string := ["self.solution = Solution(problem)"; "self._allTrials = []"; "self._RGlobalQueue = CharacteristicsQueue(maxlen)"; "self.__firstDataItem: SearchDataItem = None"].
Lemma sk_SearchData_init_ok : sk_SearchData_init = expected_sk_SearchData_init. Proof. reflexivity. Qed.

Definition expected_sk_SearchData_InsertDataItem : list string := ["flag = True"; "if rightDataItem is None:"; "  rightDataItem = self.FindDataItemByOneDimensionalPoint(newDataItem.GetX())"; "  flag = False"; "newDataItem.SetLeft(rightDataItem.GetLeft())"; "rightDataItem.SetLeft(newDataItem)"; "newDataItem.SetRight(rightDataItem)"; "newDataItem.GetLeft().SetRight(newDataItem)"; "self._allTrials.append(newDataItem)"; "self._RGlobalQueue.Insert(newDataItem.globalR, newDataItem)"; "if flag:"; "  self._RGlobalQueue.Insert(rightDataItem.globalR, rightDataItem)"].
Lemma sk_SearchData_InsertDataItem_ok : sk_SearchData_InsertDataItem = expected_sk_SearchData_InsertDataItem. Proof. reflexivity. Qed.

Definition expected_sk_SearchData_InsertFirstDataItem : list string := ["leftDataItem.SetRight(rightDataItem)"; "rightDataItem.SetLeft(leftDataItem)"; "self._allTrials.append(leftDataItem)"; "self._allTrials.append(rightDataItem)"; "self.__firstDataItem = leftDataItem"].
Lemma sk_SearchData_InsertFirstDataItem_ok : sk_SearchData_InsertFirstDataItem = expected_sk_SearchData_InsertFirstDataItem. Proof. reflexivity. Qed.

Definition expected_sk_SearchData_GetDataItemWithMaxGlobalR : list string := ["if self._RGlobalQueue.IsEmpty():"; "  self.RefillQueue()"; "return self._RGlobalQueue.GetBestItem()[0]"].
Lemma sk_SearchData_GetDataItemWithMaxGlobalR_ok : sk_SearchData_GetDataItemWithMaxGlobalR = expected_sk_SearchData_GetDataItemWithMaxGlobalR. Proof. reflexivity. Qed.

Definition expected_sk_SearchData_RefillQueue : list string := ["self._RGlobalQueue.Clear()"; "for itr in self:"; "  self._RGlobalQueue.Insert(itr.globalR, itr)"].
Lemma sk_SearchData_RefillQueue_ok : sk_SearchData_RefillQueue = expected_sk_SearchData_RefillQueue. Proof. reflexivity. Qed.

Definition expected_sk_SearchData_ClearQueue : list string := ["self._RGlobalQueue.Clear()"].
Lemma sk_SearchData_ClearQueue_ok : sk_SearchData_ClearQueue = expected_sk_SearchData_ClearQueue. Proof. reflexivity. Qed.

Definition expected_sk_SearchData_FindDataItemByOneDimensionalPoint : list string := ["for item in self:"; "  if item.GetX() > x:"; "    return item"; "return None"].
Lemma sk_SearchData_FindDataItemByOneDimensionalPoint_ok : sk_SearchData_FindDataItemByOneDimensionalPoint = expected_sk_SearchData_FindDataItemByOneDimensionalPoint. Proof. reflexivity. Qed.

Definition expected_sk_SearchData_GetCount : list string := ["return len(self._allTrials)"].
Lemma sk_SearchData_GetCount_ok : sk_SearchData_GetCount = expected_sk_SearchData_GetCount. Proof. reflexivity. Qed.

Definition expected_sk_SearchData_GetLastItem : list string := ["try:"; "  return self._allTrials[-1]"; "except Exception:"; "  print('GetLastItem: List is empty')"].
Lemma sk_SearchData_GetLastItem_ok : sk_SearchData_GetLastItem = expected_sk_SearchData_GetLastItem. Proof. reflexivity. Qed.

Definition expected_sk_SearchData_iter : list string := ["self.curIter = self.__firstDataItem"; "if self.curIter is None:"; "  raise StopIteration"; "else:"; "  return self"].
Lemma sk_SearchData_iter_ok : sk_SearchData_iter = expected_sk_SearchData_iter. Proof. reflexivity. Qed.

Definition expected_sk_SearchData_next : list string := ["if self.curIter is None:"; "  raise StopIteration"; "else:"; "  tmp = self.curIter"; "  self.curIter = self.curIter.GetRight()"; "  return tmp"].
Lemma sk_SearchData_next_ok : sk_SearchData_next = expected_sk_SearchData_next. Proof. reflexivity. Qed.

Definition expected_methods_SearchData : list string := ["__init__"; "ClearQueue"; "InsertDataItem"; "InsertFirstDataItem"; "FindDataItemByOneDimensionalPoint"; "GetDataItemWithMaxGlobalR"; "RefillQueue"; "GetCount"; "GetLastItem"; "SaveProgress"; "LoadProgress"; "__iter__"; "__next__"].
Lemma methods_SearchData_ok : methods_SearchData = expected_methods_SearchData. Proof. reflexivity. Qed.

Definition expected_sk_CharacteristicsQueue_init : list string := ["self.__baseQueue = DEPQ(iterable=None, maxlen=maxlen)"].
Lemma sk_CharacteristicsQueue_init_ok : sk_CharacteristicsQueue_init = expected_sk_CharacteristicsQueue_init. Proof. reflexivity. Qed.

Definition expected_sk_CharacteristicsQueue_Clear : list string := ["self.__baseQueue.clear()"].
Lemma sk_CharacteristicsQueue_Clear_ok : sk_CharacteristicsQueue_Clear = expected_sk_CharacteristicsQueue_Clear. Proof. reflexivity. Qed.

Definition expected_sk_CharacteristicsQueue_Insert : list string := ["self.__baseQueue.insert(dataItem, key)"].
Lemma sk_CharacteristicsQueue_Insert_ok : sk_CharacteristicsQueue_Insert = expected_sk_CharacteristicsQueue_Insert. Proof. reflexivity. Qed.

Definition expected_sk_CharacteristicsQueue_GetBestItem : list string := ["return self.__baseQueue.popfirst()"].
Lemma sk_CharacteristicsQueue_GetBestItem_ok : sk_CharacteristicsQueue_GetBestItem = expected_sk_CharacteristicsQueue_GetBestItem. Proof. reflexivity. Qed.

Definition expected_sk_CharacteristicsQueue_IsEmpty : list string := ["return self.__baseQueue.is_empty()"].
Lemma sk_CharacteristicsQueue_IsEmpty_ok : sk_CharacteristicsQueue_IsEmpty = expected_sk_CharacteristicsQueue_IsEmpty. Proof. reflexivity. Qed.

Definition expected_sk_CharacteristicsQueue_GetLen : list string := ["return len(self.__baseQueue)"].
Lemma sk_CharacteristicsQueue_GetLen_ok : sk_CharacteristicsQueue_GetLen = expected_sk_CharacteristicsQueue_GetLen. Proof. reflexivity. Qed.

Definition expected_methods_CharacteristicsQueue : list string := ["__init__"; "Clear"; "Insert"; "GetBestItem"; "IsEmpty"; "GetMaxLen"; "GetLen"].
Lemma methods_CharacteristicsQueue_ok : methods_CharacteristicsQueue = expected_methods_CharacteristicsQueue. Proof. reflexivity. Qed.

Definition expected_sk_OptimizationTask_Calculate : list string := ["dataItem.functionValues[self.perm[functionIndex]] = self.problem.Calculate(dataItem.point, dataItem.functionValues[self.perm[functionIndex]])"; "return dataItem"].
Lemma sk_OptimizationTask_Calculate_ok : sk_OptimizationTask_Calculate = expected_sk_OptimizationTask_Calculate. Proof. reflexivity. Qed.

Definition expected_methods_OptimizationTask : list string := ["__init__"; "Calculate"].
Lemma methods_OptimizationTask_ok : methods_OptimizationTask = expected_methods_OptimizationTask. Proof. reflexivity. Qed.
