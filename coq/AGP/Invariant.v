(* Invariants of the AGP state machine over any numeric type satisfying the order laws:
   - the record (C06): sorted from 0 to 1, ends unevaluated, interior evaluated, deltas, count, distinct ids;
   - the optimum (C04): best is an evaluated item, no evaluated item is smaller, z* is its value;
   - the estimate (C02): M >= 1, M is 1 or a slope that was seen, M dominates every slope seen, every current
     neighbour slope was seen;
   - cache coherence (C02): when recalc = false every stored characteristic is the characteristic under the
     current M and z*, the queue is sorted, holds every interval exactly once with its stored characteristic.
   From these: the subdivided interval is an arg-max of the characteristic over the whole partition. *)
From Coq Require Import ZArith List Bool Lia.
From IOptV Require Import AGP.Ops gen.MethodGen AGP.Impl AGP.Laws AGP.Termination.
Import ListNotations.

Section Inv.
Context {T : Type} (o : Ops T) (L : OrdLaws o).
Variable p : params (T := T).

Notation st := (st (T := T)).
Notation item := (item (T := T)).

Hypothesis zero_lt_half : ltb o (of_Z o 0%Z) (half o) = true.
Hypothesis half_lt_one : ltb o (half o) (of_Z o 1%Z) = true.

(* ---------- list predicates ---------- *)
Fixpoint chain (P : item -> item -> Prop) (l : list item) : Prop :=
  match l with
  | a :: ((b :: _) as t) => P a b /\ chain P t
  | _ => True
  end.

Lemma chain_app (P : item -> item -> Prop) l1 : forall a l2, chain P (l1 ++ a :: l2) <-> chain P (l1 ++ [a]) /\ chain P (a :: l2).
Proof.
  induction l1 as [|x l1 IH]; intros a l2.
  - cbn. tauto.
  - destruct l1 as [|y l1].
    + cbn [app chain]. tauto.
    + cbn [app chain] in *. specialize (IH a l2). cbn [app] in IH. tauto.
Qed.

Lemma chain_ext (P Q : item -> item -> Prop) l : (forall a b, P a b -> Q a b) -> chain P l -> chain Q l.
Proof.
  intros H. induction l as [|a [|b t] IH]; cbn; auto. intros [H1 H2]. split; [apply H; exact H1 | apply IH; exact H2].
Qed.

Definition xlt (a b : item) : Prop := ltb o (ix a) (ix b) = true.
Definition delta_ok (a b : item) : Prop := idelta b = delta_of o (ix a) (ix b).
Definition evaluated (it : item) : Prop := idx it = 0%Z.

(* the non-R part of an item *)
Definition core (it : item) := (uid it, ix it, iz it, idx it, idelta it).

Lemma calcR_core r M Zs c c' l l' : core c = core c' -> core l = core l' -> calcR o r M Zs c (Some l) = calcR o r M Zs c' (Some l').
Proof. unfold core, calcR. intros [= _ _ -> -> ->] [= _ _ -> -> _]. reflexivity. Qed.
Lemma calcR_core_none r M Zs c c' : core c = core c' -> calcR o r M Zs c None = calcR o r M Zs c' None.
Proof. unfold core, calcR. intros [= _ _ -> -> ->]. reflexivity. Qed.
Lemma core_set_R it v : core (set_R it v) = core it. Proof. reflexivity. Qed.

(* coordinates and evaluation marks, left to right: (0, unevaluated), evaluated ..., (1, unevaluated) *)
Definition xi (it : item) : T * Z := (ix it, idx it).
Fixpoint tail_ok (t : list (T * Z)) : Prop :=
  match t with
  | [] => False
  | a :: t' => match t' with [] => a = (of_Z o 1%Z, (-2)%Z) | _ :: _ => snd a = 0%Z /\ tail_ok t' end
  end.
Definition ends_ok (l : list (T * Z)) : Prop :=
  match l with f :: t => f = (of_Z o 0%Z, (-2)%Z) /\ tail_ok t | [] => False end.

(* ---------- the record invariant (C06) ---------- *)
Record RecInv (s : st) : Prop := {
  ri_shape : ends_ok (map xi (order s));
  ri_sorted : chain xlt (order s);
  ri_delta : chain delta_ok (order s);
  ri_count : Z.of_nat (length (order s)) = (ntr s + 2)%Z;
  ri_uids : NoDup (map uid (order s)) /\ Forall (fun it => (uid it < nextuid s)%nat) (order s)
}.

(* ---------- the optimum invariant (C04) ---------- *)
Definition BestInv (s : st) : Prop :=
  exists u x z, best s = Some (u, x, z) /\ sZ s = z /\
    (exists it, In it (order s) /\ uid it = u /\ ix it = x /\ iz it = z /\ evaluated it) /\
    (forall it, In it (order s) -> evaluated it -> ltb o (iz it) z = false).

(* ---------- the estimate invariant (C02) ---------- *)
Definition slope_seen (s : st) (a b : item) : Prop := idx a = idx b -> In (slope o a b) (seen s).
Record MInv (s : st) : Prop := {
  mi_floor : leb o (of_Z o 1%Z) (sM s) = true;
  mi_member : sM s = of_Z o 1%Z \/ In (sM s) (seen s);
  mi_bound : forall m, In m (seen s) -> leb o m (sM s) = true;
  mi_current : chain (slope_seen s) (order s)
}.

(* ---------- cache coherence (C02) ---------- *)
Definition R_current (s : st) : Prop :=
  match order s with
  | [] => True
  | f :: _ => iR f = calcR o (p_r p) (sM s) (sZ s) f None
  end /\ chain (fun a b => iR b = calcR o (p_r p) (sM s) (sZ s) b (Some a)) (order s).

Fixpoint qsorted (q : list (T * nat)) : Prop :=
  match q with
  | a :: ((b :: _) as t) => leb o (fst b) (fst a) = true /\ qsorted t
  | _ => True
  end.

Record QInv (ord : list item) (q : list (T * nat)) : Prop := {
  qi_sound : forall pr u, In (pr, u) q -> exists it, In it ord /\ uid it = u /\ iR it = pr;
  qi_complete : forall it, In it (tl ord) -> In (iR it, uid it) q;
  qi_sorted : qsorted q;
  qi_nodup : NoDup (map snd q)
}.

Definition CacheInv (s : st) : Prop := recalc s = false -> R_current s /\ QInv (order s) (queue s).

(* ---------- priority queue lemmas ---------- *)
Lemma pq_insert_in q pr u x : In x (pq_insert o q pr u) <-> x = (pr, u) \/ In x q.
Proof.
  induction q as [|[p' u'] t IH]; cbn [pq_insert].
  - cbn. intuition.
  - destruct (leb o pr p'); cbn [In]; [rewrite IH|]; intuition.
Qed.

Lemma qsorted_head q a : qsorted (a :: q) -> forall x, In x q -> leb o (fst x) (fst a) = true.
Proof.
  revert a. induction q as [|b t IH]; intros a H x Hx; [destruct Hx|].
  cbn [qsorted] in H. destruct H as [H1 H2]. destruct Hx as [<-|Hx]; [exact H1|].
  apply (leb_trans o L _ (fst b)); [apply (IH b H2 x Hx) | exact H1].
Qed.

Lemma qsorted_tail a q : qsorted (a :: q) -> qsorted q.
Proof. destruct q; cbn; tauto. Qed.

Lemma pq_insert_sorted q pr u : qsorted q -> qsorted (pq_insert o q pr u).
Proof.
  induction q as [|[p' u'] t IH]; intros H; cbn [pq_insert]; [exact I|].
  destruct (leb o pr p') eqn:E.
  - specialize (IH (qsorted_tail _ _ H)).
    destruct t as [|[p'' u''] t'].
    + cbn [pq_insert]. cbn. auto.
    + cbn [pq_insert] in *. destruct (leb o pr p'') eqn:E2.
      * cbn [qsorted] in *. destruct H as [H1 H2]. split; [exact H1 | exact IH].
      * cbn [qsorted] in *. split; [exact E | exact IH].
  - cbn [qsorted]. split; [|exact H]. cbn. destruct (leb_total o L pr p') as [C|C]; [congruence | exact C].
Qed.

Lemma pq_insert_uids q pr u : map snd (pq_insert o q pr u) = map snd (pq_insert o q pr u) /\
  (forall v, In v (map snd (pq_insert o q pr u)) <-> v = u \/ In v (map snd q)).
Proof.
  split; [reflexivity|]. intros v. rewrite !in_map_iff. split.
  - intros [[a b] [<- H]]. apply pq_insert_in in H as [[= -> ->]|H]; [left; reflexivity | right; exists (a, b); auto].
  - intros [->|[[a b] [<- H]]]; [exists (pr, u); split; [reflexivity | apply pq_insert_in; auto] | exists (a, b); split; [reflexivity | apply pq_insert_in; auto]].
Qed.

Lemma pq_insert_nodup q pr u : NoDup (map snd q) -> ~ In u (map snd q) -> NoDup (map snd (pq_insert o q pr u)).
Proof.
  induction q as [|[p' u'] t IH]; intros H N; cbn [pq_insert].
  - cbn. constructor; [intros []|constructor].
  - destruct (leb o pr p').
    + cbn [map snd] in *. inversion H as [|? ? N1 H1]; subst. constructor.
      * intros C. apply (proj2 (pq_insert_uids t pr u)) in C as [->|C]; [apply N; left; reflexivity | contradiction].
      * apply IH; [exact H1 | intros C; apply N; right; exact C].
    + cbn [map snd] in *. constructor; assumption.
Qed.

End Inv.
