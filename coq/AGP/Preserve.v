(* Preservation of the invariants of AGP/Invariant.v by recalc_all, first_iteration and iteration. *)
From Coq Require Import ZArith List Bool Lia.
From IOptV Require Import AGP.Ops gen.MethodGen AGP.Impl AGP.Laws AGP.Termination AGP.Invariant.
Import ListNotations.

Section Pres.
Context {T : Type} (o : Ops T) (L : OrdLaws o).
Variable p : params (T := T).
Notation st := (st (T := T)).
Notation item := (item (T := T)).

(* ---------- "same items up to the stored characteristic" ---------- *)
Definition sc (a b : item) : Prop := core a = core b.
Definition SC (l l' : list item) : Prop := Forall2 sc l l'.

Lemma SC_refl l : SC l l. Proof. induction l; constructor; [reflexivity | assumption]. Qed.
Lemma SC_length l l' : SC l l' -> length l = length l'. Proof. induction 1; cbn; congruence. Qed.
Lemma SC_map_uid l l' : SC l l' -> map uid l = map uid l'.
Proof. induction 1 as [|a b l l' H _ IH]; cbn; [reflexivity|]. f_equal; [unfold sc, core in H; congruence | exact IH]. Qed.
Lemma SC_app l1 l2 l' : SC (l1 ++ l2) l' -> exists l1' l2', l' = l1' ++ l2' /\ SC l1 l1' /\ SC l2 l2'.
Proof. intros H. apply Forall2_app_inv_l in H as (l1' & l2' & H1 & H2 & ->). exists l1', l2'. auto. Qed.
Lemma SC_In l l' : SC l l' -> forall it', In it' l' -> exists it, In it l /\ sc it it'.
Proof. induction 1 as [|a b l l' H _ IH]; intros it' [].
  - subst. exists a. split; [left; reflexivity | exact H].
  - destruct (IH it' H0) as (it & Hi & Hs). exists it. split; [right; exact Hi | exact Hs]. Qed.
Lemma SC_In' l l' : SC l l' -> forall it, In it l -> exists it', In it' l' /\ sc it it'.
Proof. induction 1 as [|a b l l' H _ IH]; intros it [].
  - subst. exists b. split; [left; reflexivity | exact H].
  - destruct (IH it H0) as (it' & Hi & Hs). exists it'. split; [right; exact Hi | exact Hs]. Qed.

Lemma SC_chain (P : item -> item -> Prop) :
  (forall a b a' b', sc a a' -> sc b b' -> P a b -> P a' b') -> forall l l', SC l l' -> chain P l -> chain P l'.
Proof.
  intros HP l l' H. induction H as [|a a' l l' Ha Hl IH]; [auto|].
  destruct Hl as [|b b' t t' Hb Ht]; [auto|]. cbn [chain] in *. intros [H1 H2]. split; [eapply HP; eassumption | apply IH; exact H2].
Qed.

Lemma SC_Forall (P : item -> Prop) : (forall a a', sc a a' -> P a -> P a') -> forall l l', SC l l' -> Forall P l -> Forall P l'.
Proof.
  intros HP l l' H. induction H as [|a a' l l' Ha Hl IH]; intros F; [constructor|].
  inversion F; subst. constructor; [eapply HP; eassumption | apply IH; assumption].
Qed.

Lemma NoDup_app_inv {A} (l1 l2 : list A) : NoDup (l1 ++ l2) -> NoDup l1 /\ NoDup l2 /\ (forall x, In x l1 -> ~ In x l2).
Proof.
  induction l1 as [|a l1 IH]; cbn; intros H.
  - split; [constructor|]. split; [exact H | intros x []].
  - inversion H as [|? ? Na Hl]; subst. destruct (IH Hl) as (N1 & N2 & D). split; [|split].
    + constructor; [intros C; apply Na; apply in_or_app; left; exact C | exact N1].
    + exact N2.
    + intros x [<-|Hx]; [intros C; apply Na; apply in_or_app; right; exact C | apply D; exact Hx].
Qed.
Lemma NoDup_app_intro {A} (l1 l2 : list A) : NoDup l1 -> NoDup l2 -> (forall x, In x l1 -> ~ In x l2) -> NoDup (l1 ++ l2).
Proof.
  induction l1 as [|a l1 IH]; cbn; intros N1 N2 D; [exact N2|].
  inversion N1 as [|? ? Na Hl]; subst. constructor.
  - intros C. apply in_app_or in C as [C|C]; [contradiction | apply (D a); [left; reflexivity | exact C]].
  - apply IH; [exact Hl | exact N2 | intros x Hx; apply D; right; exact Hx].
Qed.

(* ---------- recalc_items ---------- *)
Lemma recalc_items_SC r M Zs : forall l prev, SC l (recalc_items o r M Zs prev l).
Proof. induction l as [|it l IH]; intros prev; cbn [recalc_items]; constructor; [reflexivity | apply IH]. Qed.

Lemma recalc_items_current r M Zs : forall l prev,
  match prev, recalc_items o r M Zs prev l with
  | Some a, b :: _ => iR b = calcR o r M Zs b (Some a)
  | None, b :: _ => iR b = calcR o r M Zs b None
  | _, [] => True
  end /\ chain (fun a b => iR b = calcR o r M Zs b (Some a)) (recalc_items o r M Zs prev l).
Proof.
  induction l as [|it l IH]; intros prev; cbn [recalc_items]; [destruct prev; split; exact I|].
  specialize (IH (Some (set_R it (calcR o r M Zs it prev)))). destruct IH as [IH1 IH2].
  split.
  - destruct prev as [a|]; cbn [iR set_R]; [apply calcR_core | apply calcR_core_none]; reflexivity.
  - destruct (recalc_items o r M Zs (Some (set_R it (calcR o r M Zs it prev))) l) as [|b t] eqn:E; [exact I|].
    cbn [chain]. split; [exact IH1 | exact IH2].
Qed.

(* ---------- refill ---------- *)
Lemma refill_gen (l : list item) : forall q,
  (forall x, In x (fold_left (fun q it => pq_insert o q (iR it) (uid it)) l q) <-> In x q \/ exists it, In it l /\ x = (iR it, uid it)) /\
  (qsorted o q -> qsorted o (fold_left (fun q it => pq_insert o q (iR it) (uid it)) l q)) /\
  (NoDup (map snd q ++ map uid l) -> NoDup (map snd (fold_left (fun q it => pq_insert o q (iR it) (uid it)) l q))).
Proof.
  induction l as [|it l IH]; intros q; cbn [fold_left].
  - split; [|split].
    + intros x. split; [auto | intros [H|(it & [] & _)]; exact H].
    + auto.
    + cbn. rewrite app_nil_r. auto.
  - destruct (IH (pq_insert o q (iR it) (uid it))) as (I1 & I2 & I3). split; [|split].
    + intros x. rewrite I1, (pq_insert_in o). split.
      * intros [[->|H]|(it' & Hi & ->)]; [right; exists it; split; [left; reflexivity | reflexivity] | left; exact H | right; exists it'; split; [right; exact Hi | reflexivity]].
      * intros [H|(it' & [<-|Hi] & ->)]; [left; right; exact H | left; left; reflexivity | right; exists it'; auto].
    + intros H. apply I2. apply (pq_insert_sorted o L). exact H.
    + intros H. apply I3. cbn [map] in H.
      apply NoDup_app_inv in H as (N1 & Nl & D).
      inversion Nl as [|? ? Nit NL]; subst.
      apply NoDup_app_intro.
      * apply (pq_insert_nodup o); [exact N1|]. intros C. apply (D _ C). left. reflexivity.
      * exact NL.
      * intros v Hv Hl. apply (proj2 (pq_insert_uids o q (iR it) (uid it))) in Hv as [->|Hv]; [contradiction|].
        apply (D _ Hv). right. exact Hl.
Qed.

Lemma refill_QInv (l : list item) : NoDup (map uid l) -> QInv o l (refill o l).
Proof.
  intros N. unfold refill. destruct (refill_gen l []) as (I1 & I2 & I3). constructor.
  - intros pr u H. apply I1 in H as [[]|(it & Hi & [= -> ->])]. exists it. auto.
  - intros it Hi. apply I1. right. exists it. split; [destruct l; [destruct Hi | right; exact Hi] | reflexivity].
  - apply I2. exact I.
  - apply I3. exact N.
Qed.

(* ---------- find_split ---------- *)
Lemma find_split_spec (l : list item) : forall u acc b it a, find_split l u acc = Some (b, it, a) ->
  rev acc ++ l = rev b ++ it :: a /\ uid it = u.
Proof.
  induction l as [|h t IH]; intros u acc b it a; cbn [find_split]; [discriminate|].
  destruct (Nat.eqb_spec (uid h) u) as [E|E].
  - intros [= <- <- <-]. auto.
  - intros H. apply IH in H as [H1 H2]. cbn [rev] in H1. rewrite <- app_assoc in H1. cbn in H1. auto.
Qed.

Lemma find_split_found (l : list item) u : In u (map uid l) -> forall acc, exists b it a, find_split l u acc = Some (b, it, a).
Proof.
  induction l as [|h t IH]; intros H acc; [destruct H|]. cbn [find_split].
  destruct (Nat.eqb_spec (uid h) u) as [E|E]; [eauto|]. destruct H as [H|H]; [contradiction|]. apply IH. exact H.
Qed.


(* ---------- list surgery ---------- *)
Lemma chain_insert (P : item -> item -> Prop) A l old old' n a :
  chain P (A ++ l :: old :: a) -> P l n -> P n old' -> (forall y, P old y -> P old' y) -> chain P (A ++ l :: n :: old' :: a).
Proof.
  intros H H1 H2 H3. apply chain_app in H as [Ha Hb]. apply chain_app. split; [exact Ha|].
  cbn [chain] in *. destruct Hb as [_ Hb]. split; [exact H1|]. split; [exact H2|].
  destruct a as [|y a']; [exact I|]. cbn [chain] in *. destruct Hb as [Hb1 Hb2]. split; [apply H3; exact Hb1 | exact Hb2].
Qed.

Lemma chain_replace_head (P : item -> item -> Prop) old old' a : (forall y, P old y -> P old' y) -> chain P (old :: a) -> chain P (old' :: a).
Proof. intros H. destruct a as [|y a']; [auto|]. cbn [chain]. intros [H1 H2]. split; [apply H; exact H1 | exact H2]. Qed.

Lemma tail_ok_insert v (B : list (T * Z)) : forall x a, tail_ok o (B ++ x :: a) -> tail_ok o (B ++ (v, 0%Z) :: x :: a).
Proof.
  induction B as [|b B IH]; intros x a H.
  - cbn [app]. change (snd (v, 0%Z) = 0%Z /\ tail_ok o (x :: a)). split; [reflexivity | exact H].
  - cbn [app] in *. destruct B as [|b' B'].
    + cbn [app] in *. change (snd b = 0%Z /\ tail_ok o (x :: a)) in H. destruct H as [H1 H2].
      change (snd b = 0%Z /\ tail_ok o ((v, 0%Z) :: x :: a)). split; [exact H1|]. apply (IH x a). exact H2.
    + cbn [app] in *. change (snd b = 0%Z /\ tail_ok o (b' :: B' ++ x :: a)) in H. destruct H as [H1 H2].
      change (snd b = 0%Z /\ tail_ok o (b' :: B' ++ (v, 0%Z) :: x :: a)). split; [exact H1 | apply (IH x a); exact H2].
Qed.

Lemma ends_ok_insert v (A : list (T * Z)) l old a : ends_ok o (A ++ l :: old :: a) -> ends_ok o (A ++ l :: (v, 0%Z) :: old :: a).
Proof.
  destruct A as [|f A]; cbn [app ends_ok]; intros [H1 H2]; split; try exact H1.
  - apply (tail_ok_insert v [] old a). exact H2.
  - replace (A ++ l :: (v, 0%Z) :: old :: a) with ((A ++ [l]) ++ (v, 0%Z) :: old :: a) by (rewrite <- app_assoc; reflexivity).
    apply tail_ok_insert. rewrite <- app_assoc. exact H2.
Qed.

Lemma NoDup_insert {A} (l1 : list A) x l2 : NoDup (l1 ++ l2) -> ~ In x (l1 ++ l2) -> NoDup (l1 ++ x :: l2).
Proof.
  intros N H. apply NoDup_app_inv in N as (N1 & N2 & D). apply NoDup_app_intro; [exact N1 | constructor; [|exact N2] |].
  - intros C. apply H. apply in_or_app. right. exact C.
  - intros y Hy [<-|C]; [apply H; apply in_or_app; left; exact Hy | apply (D y Hy C)].
Qed.

(* ---------- inversion of a successful iteration ---------- *)
Lemma iteration_done_inv s z s' x : iteration o p s (Value z) = (s', Done x) ->
  let s1 := recalc_all o p s in
  exists pr u q2 before l old after,
    match queue s1 with [] => refill o (order s1) | _ => queue s1 end = (pr, u) :: q2 /\
    order s1 = rev before ++ l :: old :: after /\ uid old = u /\
    gen_CalculateNextPointCoordinate o (ix l) (ix old) (idx l) (idx old) (iz l) (iz old) (sM s1) (p_r p) = Some x /\
    let new0 := mkItem (nextuid s1) x z 0%Z (of_Z o (-1)%Z) (of_Z o (-1)%Z) in
    exists b rc Zs M1 rc1 M2 rc2,
      upd_opt o (best s1) (recalc s1) (sZ s1) new0 = (b, rc, Zs) /\
      let old1 := set_delta old (delta_of o (ix new0) (ix old)) in
      let new1 := set_delta new0 (delta_of o (ix l) (ix new0)) in
      calcM o new1 l (sM s1) rc = (M1, rc1) /\ calcM o old1 new1 M1 rc1 = (M2, rc2) /\
      let new2 := set_R new1 (calcR o (p_r p) M2 Zs new1 (Some l)) in
      let old2 := set_R old1 (calcR o (p_r p) M2 Zs old1 (Some new2)) in
      s' = mkSt (rev before ++ l :: new2 :: old2 :: after)
                (pq_insert o (pq_insert o q2 (iR new2) (uid new2)) (iR old2) (uid old2)) M2 Zs b rc2 (iters s1 + 1)%Z
                (gen_min_delta_update o (idelta old) (mind s1)) (ntr s1 + 1)%Z (S (nextuid s1)) (firstflag s1) (S (calls s1))
                (slopes_of o l new1 old1 ++ seen s1).
Proof.
  unfold iteration. intros H. cbn zeta.
  repeat match type of H with
         | context [match ?e with _ => _ end] => let E := fresh "E" in destruct e eqn:E; try discriminate H
         end.
  injection H as <- <-.
  cbn [order queue sM sZ best recalc iters mind ntr nextuid firstflag calls seen] in *.
  match goal with E : find_split _ _ _ = Some _ |- _ => apply find_split_spec in E as [FS1 FS2] end.
  cbn [rev app] in FS1. rewrite <- app_assoc in FS1. cbn [app] in FS1.
  do 7 eexists. split; [reflexivity|]. split; [exact FS1|]. split; [exact FS2|]. split; [eassumption|].
  do 7 eexists. split; [eassumption|]. split; [eassumption|]. split; [eassumption|].
  cbn [order queue sM sZ best recalc iters mind ntr nextuid firstflag calls seen]. rewrite rev_append_rev. reflexivity.
Qed.

End Pres.
