(* Executable state-machine model of iOpt's Method / SearchData / Process (global phase), generic in the numeric
   type. Every formula and decision is a gen_* definition translated from iOpt/method/method.py (gen/MethodGen.v);
   this file only mirrors the control flow (tied to the source by the skeleton facts and by lock-step correspondence).
   The objective is an oracle: a stream of answers indexed by the number of Calculate calls made so far. *)
From Coq Require Import ZArith List Bool.
From IOptV Require Import AGP.Ops gen.MethodGen.
Import ListNotations.

Inductive answer (T : Type) := Value (z : T) | Raised.
Arguments Value {T}. Arguments Raised {T}.

Section Impl.
Context {T : Type} (o : Ops T).

Record item := mkItem { uid : nat; ix : T; iz : T; idx : Z; idelta : T; iR : T }.
Definition set_R (it : item) (v : T) := mkItem (uid it) (ix it) (iz it) (idx it) (idelta it) v.
Definition set_delta (it : item) (v : T) := mkItem (uid it) (ix it) (iz it) (idx it) v (iR it).
Definition set_eval (it : item) (z : T) := mkItem (uid it) (ix it) z 0%Z (idelta it) (iR it).

Record params := mkParams { p_r : T; p_eps : T; p_lim : Z }.

Record st := mkSt {
  order : list item;             (* the linked list of SearchData, left to right *)
  queue : list (T * nat);        (* DEPQ contents: (priority, uid), descending, stable among equal priorities *)
  sM : T;                        (* method.M[0] *)
  sZ : T;                        (* method.Z[0] *)
  best : option (nat * T * T);   (* method.best: uid, x, z *)
  recalc : bool;
  iters : Z;                     (* method.iterationsCount *)
  mind : T;                      (* method.min_delta = solution.solutionAccuracy *)
  ntr : Z;                       (* solution.numberOfGlobalTrials *)
  nextuid : nat;
  firstflag : bool;              (* Process.__first_iteration *)
  calls : nat;                   (* number of Problem.Calculate calls made so far (ghost; indexes the oracle) *)
  seen : list T                  (* ghost: every neighbour slope |dz|/delta computed so far, newest first *)
}.

Definition init_st : st :=
  mkSt [] [] (of_Z o 1%Z) (pinf o) None true 0%Z (pinf o) 0%Z 0%nat true 0%nat [].

(* --- DEPQ (third-party, modelled): insert after every entry of priority >= p; popfirst takes the head --- *)
Fixpoint pq_insert (q : list (T * nat)) (p : T) (u : nat) : list (T * nat) :=
  match q with
  | [] => [(p, u)]
  | (p', u') :: t => if leb o p p' then (p', u') :: pq_insert t p u else (p, u) :: q
  end.

Definition refill (l : list item) : list (T * nat) :=
  fold_left (fun q it => pq_insert q (iR it) (uid it)) l [].

(* --- characteristics --- *)
Definition calcR (r M Zs : T) (cur : item) (left : option item) : T :=
  match left with
  | None => gen_CalculateGlobalR o true (iz cur) (iz cur) r (idelta cur) (idx cur) (idx cur) M Zs
  | Some l => gen_CalculateGlobalR o false (iz l) (iz cur) r (idelta cur) (idx l) (idx cur) M Zs
  end.

Fixpoint recalc_items (r M Zs : T) (prev : option item) (l : list item) : list item :=
  match l with
  | [] => []
  | it :: t => let it' := set_R it (calcR r M Zs it prev) in it' :: recalc_items r M Zs (Some it') t
  end.

Definition with_order_queue (s : st) (ord : list item) (q : list (T * nat)) (rc : bool) : st :=
  mkSt ord q (sM s) (sZ s) (best s) rc (iters s) (mind s) (ntr s) (nextuid s) (firstflag s) (calls s) (seen s).

(* RecalcAllCharacteristics *)
Definition recalc_all (p : params) (s : st) : st :=
  if recalc s then
    let ord := recalc_items (p_r p) (sM s) (sZ s) None (order s) in
    with_order_queue s ord (refill ord) false
  else s.

(* split the list at the item with the given uid: (items before it, reversed) , it , items after *)
Fixpoint find_split (l : list item) (u : nat) (acc : list item) : option (list item * item * list item) :=
  match l with
  | [] => None
  | it :: t => if Nat.eqb (uid it) u then Some (acc, it, t) else find_split t u (it :: acc)
  end.

Definition calcM (cur left : item) (M : T) (rc : bool) : T * bool :=
  gen_CalculateM o false (idx left) (idx cur) (iz left) (iz cur) (idelta cur) M rc.

Definition upd_opt (s_best : option (nat * T * T)) (rc : bool) (Zs : T) (pt : item) : option (nat * T * T) * bool * T :=
  let '(replace, rc', Zs') :=
    match s_best with
    | None => gen_UpdateOptimum o true 0%Z (idx pt) (iz pt) (iz pt) rc Zs
    | Some (_, _, zb) => gen_UpdateOptimum o false 0%Z (idx pt) zb (iz pt) rc Zs
    end in
  (if replace then Some (uid pt, ix pt, iz pt) else s_best, rc', Zs').

(* the slope CalculateM looks at for the pair (left, cur): |z_left - z_cur| / delta_cur, when both are evaluated alike *)
Definition slope (left cur : item) : T := div o (absv o (sub o (iz left) (iz cur))) (idelta cur).
Definition slopes_of (l new old : item) : list T :=
  (if Z.eqb (idx new) (idx old) then [slope new old] else []) ++ (if Z.eqb (idx l) (idx new) then [slope l new] else []).

Definition delta_of (lx rx : T) : T := match gen_CalculateDelta o lx rx with Some d => d | None => ninf o end.

Inductive outcome := Done (x : T) | ObjectiveRaised (x : T) | MethodRaised.

(* FirstIteration as called from DoGlobalIteration *)
Definition first_iteration (p : params) (s : st) (a : answer T) : st * outcome :=
  let x := half o in
  let left := mkItem 0 (of_Z o 0%Z) (fmax o) (-2)%Z (of_Z o 0%Z) (of_Z o (-1)%Z) in
  let right0 := mkItem 1 (of_Z o 1%Z) (fmax o) (-2)%Z (of_Z o (-1)%Z) (of_Z o (-1)%Z) in
  let middle0 := mkItem 2 x (fmax o) (-2)%Z (of_Z o (-1)%Z) (of_Z o (-1)%Z) in
  let middle1 := set_delta middle0 (delta_of (ix left) (ix middle0)) in
  let right1 := set_delta right0 (delta_of (ix middle1) (ix right0)) in
  match a with
  | Raised =>
    (* iterationsCount was already set to 1; nothing inserted; the first-iteration flag stays set *)
    (mkSt (order s) (queue s) (sM s) (sZ s) (best s) (recalc s) 1%Z (mind s) (ntr s) (nextuid s) (firstflag s) (S (calls s)) (seen s),
     ObjectiveRaised x)
  | Value z =>
    let middle2 := set_eval middle1 z in
    let '(b, rc, Zs) := upd_opt (best s) (recalc s) (sZ s) middle2 in
    let left' := set_R left (calcR (p_r p) (sM s) Zs left None) in
    let middle3 := set_R middle2 (calcR (p_r p) (sM s) Zs middle2 (Some left')) in
    let right2 := set_R right1 (calcR (p_r p) (sM s) Zs right1 (Some middle3)) in
    let q := pq_insert (pq_insert (queue s) (iR middle3) (uid middle3)) (iR right2) (uid right2) in
    (mkSt [left'; middle3; right2] q (sM s) Zs b rc 1%Z (mind s) (ntr s + 1)%Z 3%nat false (S (calls s)) (seen s), Done x)
  end.

(* one ordinary iteration of DoGlobalIteration *)
Definition iteration (p : params) (s : st) (a : answer T) : st * outcome :=
  let s1 := recalc_all p s in
  let q1 := match queue s1 with [] => refill (order s1) | _ => queue s1 end in
  match q1 with
  | [] => (s1, MethodRaised)
  | (_, u) :: q2 =>
    match find_split (order s1) u [] with
    | Some (before0, old, after) =>
      (* CalculateIterationPoint: min_delta is updated before the next point is computed *)
      let md := gen_min_delta_update o (idelta old) (mind s1) in
      let s2 := mkSt (order s1) q2 (sM s1) (sZ s1) (best s1) (recalc s1) (iters s1) md (ntr s1) (nextuid s1) (firstflag s1) (calls s1) (seen s1) in
      match before0 with
      | [] => (s2, MethodRaised)        (* "Left point is NONE" *)
      | l :: before =>
      match gen_CalculateNextPointCoordinate o (ix l) (ix old) (idx l) (idx old) (iz l) (iz old) (sM s1) (p_r p) with
      | None => (s2, MethodRaised)
      | Some x =>
        match a with
        | Raised =>
          (* the interval taken from the queue was not subdivided: the recalculation flag is raised so that the queue is rebuilt,
             and the accuracy estimate goes back to what it was before the selection *)
          (mkSt (order s2) (queue s2) (sM s2) (sZ s2) (best s2) true (iters s2) (mind s1) (ntr s2) (nextuid s2) (firstflag s2) (S (calls s2)) (seen s2),
           ObjectiveRaised x)
        | Value z =>
          let new0 := mkItem (nextuid s2) x z 0%Z (of_Z o (-1)%Z) (of_Z o (-1)%Z) in
          let '(b, rc, Zs) := upd_opt (best s2) (recalc s2) (sZ s2) new0 in
          let old1 := set_delta old (delta_of (ix new0) (ix old)) in
          let new1 := set_delta new0 (delta_of (ix l) (ix new0)) in
          let '(M1, rc1) := calcM new1 l (sM s2) rc in
          let '(M2, rc2) := calcM old1 new1 M1 rc1 in
          let new2 := set_R new1 (calcR (p_r p) M2 Zs new1 (Some l)) in
          let old2 := set_R old1 (calcR (p_r p) M2 Zs old1 (Some new2)) in
          let q3 := pq_insert (pq_insert q2 (iR new2) (uid new2)) (iR old2) (uid old2) in
          (mkSt (rev_append before (l :: new2 :: old2 :: after)) q3 M2 Zs b rc2 (iters s2 + 1)%Z md (ntr s2 + 1)%Z
                (S (nextuid s2)) (firstflag s2) (S (calls s2)) (slopes_of l new1 old1 ++ seen s2), Done x)
        end
      end
      end
    | None => (mkSt (order s1) q2 (sM s1) (sZ s1) (best s1) (recalc s1) (iters s1) (mind s1) (ntr s1) (nextuid s1) (firstflag s1) (calls s1) (seen s1), MethodRaised)
    end
  end.

Definition step (p : params) (s : st) (a : answer T) : st * outcome :=
  if firstflag s then first_iteration p s a else iteration p s a.

Definition is_done (oc : outcome) : bool := match oc with Done _ => true | _ => false end.

Definition stop (p : params) (s : st) : bool := gen_CheckStopCondition o (mind s) (p_eps p) (iters s) (p_lim p).

(* DoGlobalIteration(k): k steps; an exception propagates to the caller and skips the rest.
   Returns the state, the coordinates of the new trials of this call in order, and whether an exception escaped. *)
Fixpoint do_iterations (k : nat) (p : params) (s : st) (ans : nat -> answer T) (acc : list T) : st * list T * bool :=
  match k with
  | O => (s, rev acc, false)
  | S k' =>
    let '(s', oc) := step p s (ans (calls s)) in
    match oc with
    | Done x => do_iterations k' p s' ans (x :: acc)
    | _ => (s', rev acc, true)
    end
  end.

(* the loop of Process.Solve: while not stop: DoGlobalIteration(1), all wrapped in try/except BaseException.
   fuel bounds the number of loop turns; solve_loop is only used with fuel >= itersLimit (see Termination.v) *)
Fixpoint solve_loop (fuel : nat) (p : params) (s : st) (ans : nat -> answer T) (batches : list (list T))
  : st * list (list T) * bool * bool (* out of fuel *) :=
  if stop p s then (s, rev batches, false, false) else
  match fuel with
  | O => (s, rev batches, false, true)
  | S f =>
    let '(s', xs, exc) := do_iterations 1 p s ans [] in
    if exc then (s', rev batches, true, false) else solve_loop f p s' ans (xs :: batches)
  end.

Definition solve_fuel (p : params) (s : st) : nat := S (Z.to_nat (p_lim p - iters s)).
Definition solve (p : params) (s : st) (ans : nat -> answer T) := solve_loop (solve_fuel p s) p s ans [].

End Impl.

Arguments mkItem {T}. Arguments mkSt {T}. Arguments mkParams {T}.
