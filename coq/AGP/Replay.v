(* Lock-step replay of a scripted run of the real solver through the model over binary64. *)
From Coq Require Import ZArith List Bool PrimFloat.
From IOptV Require Import AGP.Ops gen.MethodGen AGP.Impl AGP.FloatOps.
Import ListNotations.

Inductive sop := Iter (k : nat) | SolveOp.

(* what the harness observed on the implementation after each operation of the script *)
Record obs := mkObs {
  o_newx : list float;      (* curve coordinates of the trials made by this operation, in order *)
  o_exc : bool;             (* an exception escaped DoGlobalIteration / "Exception was thrown" was printed by Solve *)
  o_ntr : Z; o_iters : Z; o_mind : float; o_M : float; o_Z : float;
  o_bestz : option float;
  o_recalc : bool;
  o_count : nat }.

Record fcase := mkCase {
  c_r : float; c_eps : float; c_lim : Z;
  c_root : list (float * float); c_pow : list (float * float);
  c_answers : list (answer float);
  c_script : list sop;
  c_obs : list obs;
  c_record : list (float * float * Z * float * float)   (* final record left to right: x, z, index, delta, globalR *)
}.

Definition ans_of (l : list (answer float)) (k : nat) : answer float := nth k l Raised.

Fixpoint fl_eq (a b : list float) : bool :=
  match a, b with [], [] => true | x :: a', y :: b' => feq x y && fl_eq a' b' | _, _ => false end.

Definition opt_eq (a b : option float) : bool :=
  match a, b with None, None => true | Some x, Some y => feq x y | _, _ => false end.

(* first differing field: 0 = none *)
Definition cmp_obs (o : Ops float) (s : st (T := float)) (xs : list float) (exc : bool) (e : obs) : nat :=
  if negb (fl_eq xs (o_newx e)) then 1
  else if negb (Bool.eqb exc (o_exc e)) then 2
  else if negb (Z.eqb (ntr s) (o_ntr e)) then 3
  else if negb (Z.eqb (iters s) (o_iters e)) then 4
  else if negb (feq (mind s) (o_mind e)) then 5
  else if negb (feq (sM s) (o_M e)) then 6
  else if negb (feq (sZ s) (o_Z e)) then 7
  else if negb (opt_eq (match best s with Some (_, _, z) => Some z | None => None end) (o_bestz e)) then 8
  else if negb (Bool.eqb (recalc s) (o_recalc e)) then 9
  else if negb (Nat.eqb (length (order s)) (o_count e)) then 10
  else 0.

Fixpoint rec_eq (l : list (item (T := float))) (r : list (float * float * Z * float * float)) : bool :=
  match l, r with
  | [], [] => true
  | it :: l', (x, z, i, d, g) :: r' =>
    feq (ix it) x && feq (iz it) z && Z.eqb (idx it) i && feq (idelta it) d && feq (iR it) g && rec_eq l' r'
  | _, _ => false
  end.

Fixpoint run_script (o : Ops float) (p : params (T := float)) (ans : nat -> answer float) (s : st (T := float))
  (script : list sop) (es : list obs) (k : nat) : st (T := float) * nat (* 0 ok, else 100*op + field *) :=
  match script, es with
  | [], _ => (s, 0)
  | op :: script', e :: es' =>
    let '(s', xs, exc) :=
      match op with
      | Iter n => do_iterations o n p s ans []
      | SolveOp => let '(s1, batches, exc, _) := solve o p s ans in (s1, concat batches, exc)
      end in
    let c := cmp_obs o s' xs exc e in
    if Nat.eqb c 0 then run_script o p ans s' script' es' (S k) else (s', 100 * (S k) + c)
  | _ :: _, [] => (s, 99)
  end.

Definition check_case (c : fcase) : nat :=
  let o := float_ops (c_root c) (c_pow c) in
  let p := mkParams (c_r c) (c_eps c) (c_lim c) in
  let '(s, code) := run_script o p (ans_of (c_answers c)) (init_st o) (c_script c) (c_obs c) 0 in
  if negb (Nat.eqb code 0) then code
  else if rec_eq (order s) (c_record c) then 0 else 98.

Fixpoint bad_cases (l : list fcase) (k : nat) : list (nat * nat) :=
  match l with
  | [] => []
  | c :: t => let r := check_case c in if Nat.eqb r 0 then bad_cases t (S k) else (k, r) :: bad_cases t (S k)
  end.
