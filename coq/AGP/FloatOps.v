(* binary64 instance of the numeric interface, for executing the model bit-for-bit like CPython.
   pow() of libm is not reproduced: the two power functions are lookup tables recorded from the implementation's own
   pow calls of the run being replayed (a missing entry yields nan, which makes the replay disagree). *)
From Coq Require Import ZArith List Bool PrimFloat Uint63 FloatOps.
From IOptV Require Import AGP.Ops.
Import ListNotations.

Definition f_of_Z (z : Z) : float :=
  if Z.ltb z 0 then PrimFloat.opp (PrimFloat.of_uint63 (Uint63.of_Z (Z.opp z))) else PrimFloat.of_uint63 (Uint63.of_Z z).

Definition lookup (tbl : list (float * float)) (x : float) : float :=
  match find (fun p => PrimFloat.eqb (fst p) x) tbl with Some p => snd p | None => nan end.

Definition float_ops (root_tbl pow_tbl : list (float * float)) : Ops float :=
  {| add := PrimFloat.add; sub := PrimFloat.sub; mul := PrimFloat.mul; div := PrimFloat.div; absv := PrimFloat.abs;
     ltb := PrimFloat.ltb; leb := PrimFloat.leb; of_Z := f_of_Z; half := 0.5%float; pinf := infinity; ninf := neg_infinity;
     fmax := 0x1.fffffffffffffp+1023%float; hroot := lookup root_tbl; hpow := lookup pow_tbl |}.

(* bit-level equality up to the sign of zero; nan equals nan *)
Definition feq (a b : float) : bool := PrimFloat.eqb a b || (PrimFloat.is_nan a && PrimFloat.is_nan b).
