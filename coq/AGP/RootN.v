(* the N-th root instance of the abstract root of AGP/OptimalityN.v: root d = d^(1/N), c = 2^(-1/N) *)
From Coq Require Import Reals Lra Lia Psatz.
Open Scope R_scope.

Lemma pow_lt_strict' x y n : 0 <= x -> x < y -> (0 < n)%nat -> x ^ n < y ^ n.
Proof.
  intros Hx Hxy Hn. induction n as [|n IH]; [lia|].
  destruct n as [|n]; [simpl; lra|].
  assert (IH' : x ^ S n < y ^ S n) by (apply IH; lia).
  assert (0 <= x ^ S n) by (apply pow_le; assumption).
  change (x * x ^ S n < y * y ^ S n). nra.
Qed.

Lemma pow_le_inv x y n : 0 <= x -> 0 <= y -> (0 < n)%nat -> x ^ n <= y ^ n -> x <= y.
Proof.
  intros Hx Hy Hn H. destruct (Rle_lt_dec x y) as [L|G]; [exact L|]. exfalso.
  pose proof (pow_lt_strict' y x n Hy G Hn). lra.
Qed.

(* power mean inequality *)
Lemma power_mean a b n : 0 <= a -> 0 <= b -> ((a + b) / 2) ^ n <= (a ^ n + b ^ n) / 2.
Proof.
  intros Ha Hb. induction n as [|n IH]; [simpl; lra|].
  assert (M : 0 <= (a - b) * (a ^ n - b ^ n)).
  { destruct (Rle_lt_dec a b) as [L|G].
    - assert (a ^ n <= b ^ n) by (apply pow_incr; lra). nra.
    - assert (b ^ n <= a ^ n) by (apply pow_incr; lra). nra. }
  assert (P : 0 <= ((a + b) / 2) ^ n) by (apply pow_le; lra).
  change (((a + b) / 2) * ((a + b) / 2) ^ n <= (a * a ^ n + b * b ^ n) / 2).
  apply Rle_trans with ((a + b) / 2 * ((a ^ n + b ^ n) / 2)); [apply Rmult_le_compat_l; lra|]. nra.
Qed.

Section N.
Variable n : nat.
Hypothesis Hn : (1 <= n)%nat.

Definition rootn (d : R) : R := Rpower d (/ INR n).
Definition cn : R := Rpower 2 (- / INR n).

Lemma INRn_pos : 0 < INR n. Proof. apply lt_0_INR. lia. Qed.

Lemma rootn_pos d : 0 < d -> 0 < rootn d.
Proof. intros _. unfold rootn, Rpower. apply exp_pos. Qed.

Lemma rootn_pow d : 0 < d -> rootn d ^ n = d.
Proof.
  intros Hd. unfold rootn. rewrite <- Rpower_pow by (unfold Rpower; apply exp_pos).
  rewrite Rpower_mult, Rinv_l by (pose proof INRn_pos; lra). apply Rpower_1. exact Hd.
Qed.

Lemma rootn_mono u d : 0 < u -> u <= d -> rootn u <= rootn d.
Proof.
  intros Hu Hud. unfold rootn. apply Rle_Rpower_l; [left; apply Rinv_0_lt_compat, INRn_pos | lra].
Qed.

Lemma cn_pos : 0 < cn. Proof. unfold cn, Rpower. apply exp_pos. Qed.

Lemma cn_pow : cn ^ n = / 2.
Proof.
  unfold cn. rewrite <- Rpower_pow by (unfold Rpower; apply exp_pos).
  rewrite Rpower_mult. replace (- / INR n * INR n) with (- (1)) by (field; pose proof INRn_pos; lra).
  rewrite Rpower_Ropp, Rpower_1 by lra. reflexivity.
Qed.

Lemma cn_hi : cn <= 1.
Proof. apply (pow_le_inv cn 1 n); [left; apply cn_pos | lra | lia |]. rewrite cn_pow, pow1. lra. Qed.

Lemma cn_lo : / 2 <= cn.
Proof.
  (* (1/2)^n <= 1/2 = cn^n *)
  apply (pow_le_inv (/ 2) cn n); [lra | left; apply cn_pos | lia |]. rewrite cn_pow.
  destruct n as [|k]; [lia|]. simpl. assert (0 <= (/ 2) ^ k <= 1).
  { split; [apply pow_le; lra|]. rewrite <- (pow1 k). apply pow_incr. lra. }
  nra.
Qed.

Lemma rootn_split u v : 0 < u -> 0 < v -> rootn u + rootn v <= 2 * cn * rootn (u + v).
Proof.
  intros Hu Hv. pose proof (rootn_pos u Hu) as Pa. pose proof (rootn_pos v Hv) as Pb.
  pose proof (rootn_pos (u + v) ltac:(lra)) as Pd. pose proof cn_pos as Pc.
  assert (K : (rootn u + rootn v) / 2 <= cn * rootn (u + v)).
  { apply (pow_le_inv _ _ n); [lra | nra | lia |].
    rewrite Rpow_mult_distr, cn_pow, rootn_pow by lra.
    pose proof (power_mean (rootn u) (rootn v) n ltac:(lra) ltac:(lra)) as PM.
    rewrite !rootn_pow in PM by assumption. lra. }
  lra.
Qed.

End N.
