(* The real-number instance of the numeric interface for dimension N = 1 (Hoelder length = ordinary length). *)
From Coq Require Import Reals ZArith Bool Lra.
From IOptV Require Import AGP.Ops AGP.Laws.
Open Scope R_scope.

Definition rltb (a b : R) : bool := if Rlt_dec a b then true else false.
Definition rleb (a b : R) : bool := if Rle_dec a b then true else false.

(* +-infinity / float max are only used as initial values before the first trial; any large constant serves *)
Definition BIG : R := 1000000000000.

Definition r_ops : Ops R :=
  {| add := Rplus; sub := Rminus; mul := Rmult; div := Rdiv; absv := Rabs; ltb := rltb; leb := rleb; of_Z := IZR; half := / 2;
     pinf := BIG; ninf := - BIG; fmax := BIG; hroot := fun d => d; hpow := fun a => a |}.

Lemma rltb_true a b : rltb a b = true <-> a < b.
Proof. unfold rltb. destruct (Rlt_dec a b); split; intros; try discriminate; auto; contradiction. Qed.
Lemma rltb_false a b : rltb a b = false <-> b <= a.
Proof. unfold rltb. destruct (Rlt_dec a b); split; intros; try discriminate; try lra; auto. Qed.
Lemma rleb_true a b : rleb a b = true <-> a <= b.
Proof. unfold rleb. destruct (Rle_dec a b); split; intros; try discriminate; auto; contradiction. Qed.
Lemma rleb_false a b : rleb a b = false <-> b < a.
Proof. unfold rleb. destruct (Rle_dec a b); split; intros; try discriminate; try lra; auto. Qed.

Lemma r_ord_laws : OrdLaws r_ops.
Proof.
  constructor; cbn [leb ltb r_ops].
  - intros a. apply rleb_true. lra.
  - intros a b c H1 H2. apply rleb_true in H1, H2. apply rleb_true. lra.
  - intros a b. destruct (Rle_or_lt a b); [left | right]; apply rleb_true; lra.
  - intros a b. unfold rltb, rleb. destruct (Rlt_dec a b), (Rle_dec b a); cbn; try reflexivity; lra.
Qed.

Lemma r_zero_lt_half : ltb r_ops (of_Z r_ops 0%Z) (half r_ops) = true.
Proof. cbn. apply rltb_true. lra. Qed.
Lemma r_half_lt_one : ltb r_ops (half r_ops) (of_Z r_ops 1%Z) = true.
Proof. cbn. apply rltb_true. lra. Qed.
