(* C01 for N = 2..5: the certificate for a Lipschitz objective on a box, searched through the evolvent of density m.
   Composition of AGP/OptimalityN.v (abstract root), AGP/RootN.v (the N-th root) and Evolvent/ImageR.v (the curve). *)
From Coq Require Import Reals ZArith List Bool Lra Lia.
From IOptV Require Import AGP.Ops gen.MethodGen AGP.Impl AGP.Laws AGP.Termination AGP.Invariant AGP.Preserve AGP.Step AGP.RealOps
  AGP.Optimality AGP.OptimalityN AGP.RootN Evolvent.Ev Evolvent.Curve Evolvent.HolderReal Evolvent.ImageR.
Import ListNotations.
Open Scope R_scope.

(* the numeric instance of the method for dimension n: hroot d = d^(1/n), hpow a = a^n *)
Definition rn_ops (n : nat) : Ops R := g_ops (rootn n) (fun a => a ^ n).

Section Box.
Variable n : nat.
Hypothesis Hall : all_ok n = true.
Hypothesis Hn : (1 <= n)%nat.
Variable m : nat.
Hypothesis Hm : (1 <= m)%nat.
Variables lo hi : list R.
Variable S : R.
Hypothesis Llo : length lo = n.
Hypothesis Lhi : length hi = n.
Hypothesis HS : 0 <= S.
Hypothesis Sides : sides_ok S lo hi.
Variable f : list R -> R.
Variable L : R.
Hypothesis HL : 0 <= L.
Hypothesis Lip : forall Y Y', in_boxR lo hi Y -> in_boxR lo hi Y' -> Rabs (f Y - f Y') <= L * sqrt (dist2R Y Y').

Definition phi_of (x : R) : R := f (imageR n m lo hi x).

Lemma phi_hoelder x y : 0 <= x -> x < y -> y <= 1 ->
  Rabs (phi_of x - phi_of y) <= (2 * sqrt (INR n + 3) * L * S) * rootn n (y - x) + L * (sqrt (INR n + 3) * S / 2 ^ m).
Proof.
  intros H0 Hlt H1. unfold phi_of.
  pose proof (Lip _ _ (imageR_in_box n Hall m lo hi S x Llo Lhi Sides) (imageR_in_box n Hall m lo hi S y Llo Lhi Sides)) as Q.
  pose proof (imageR_holder_slack n Hall Hn m lo hi S x y Hm Llo Lhi HS Sides H0 Hlt H1) as Hs.
  apply Rle_trans with (1 := Q). unfold rootn.
  replace (2 * sqrt (INR n + 3) * L * S * Rpower (y - x) (/ INR n) + L * (sqrt (INR n + 3) * S / 2 ^ m))
    with (L * (2 * sqrt (INR n + 3) * S * Rpower (y - x) (/ INR n) + sqrt (INR n + 3) * S / 2 ^ m)) by ring.
  apply Rmult_le_compat_l; assumption.
Qed.

Theorem certificate_box (p : params (T := R)) : 1 < p_r p ->
  forall k s s' x eps, (1 <= k)%nat -> PhiRunN (rootn n) (fun a => a ^ n) p phi_of k s ->
  Impl.step (rn_ops n) p s (Value (phi_of x)) = (s', Done x) ->
  4 * cn n * (2 * sqrt (INR n + 3) * L * S) <= p_r p * sM s ->
  ltb (rn_ops n) (mind s) eps = false -> ltb (rn_ops n) (mind s') eps = true ->
  forall Y, in_boxR lo hi Y ->
  sZ s - f Y < p_r p * sM s / 2 * eps + L * S / 2 ^ m * (sqrt (INR n + 3) + sqrt (INR n) / 2).
Proof.
  intros Hr k s s' x eps Hk Hrun St Hmu Hb Ha Y HY.
  assert (N3 : 0 <= sqrt (INR n + 3)) by apply sqrt_pos.
  assert (P2 : 0 < 2 ^ m) by (apply pow_lt; lra).
  set (H := 2 * sqrt (INR n + 3) * L * S) in *. set (g := L * (sqrt (INR n + 3) * S / 2 ^ m)).
  assert (HH : 0 <= H) by (subst H; repeat apply Rmult_le_pos; lra).
  assert (Hg : 0 <= g).
  { subst g. apply Rmult_le_pos; [assumption|]. apply Rmult_le_pos; [apply Rmult_le_pos; assumption | left; apply Rinv_0_lt_compat; exact P2]. }
  destruct (imageR_dense n Hall m lo hi S Y Llo Lhi HS Sides HY) as (x0 & Hx0 & Dx0).
  pose proof (agp_certificate_n (rootn n) (fun a => a ^ n) (cn n) (cn_lo n Hn) (cn_hi n Hn) (rootn_pos n) (rootn_mono n Hn) (rootn_split n Hn)
                p phi_of H g Hr HH Hg phi_hoelder k s s' x eps Hk Hrun St Hmu Hb Ha x0 Hx0) as Q.
  pose proof (Lip Y _ HY (imageR_in_box n Hall m lo hi S x0 Llo Lhi Sides)) as LY. apply Rabs_le_inv' in LY.
  fold (phi_of x0) in LY.
  assert (LD : L * sqrt (dist2R Y (imageR n m lo hi x0)) <= L * (S * sqrt (INR n) / 2 ^ (m + 1))) by (apply Rmult_le_compat_l; assumption).
  assert (E : L * S / 2 ^ m * (sqrt (INR n + 3) + sqrt (INR n) / 2) = g + L * (S * sqrt (INR n) / 2 ^ (m + 1))).
  { subst g. rewrite pow_add. simpl. field. lra. }
  rewrite E. lra.
Qed.

(* the same bound for the best value reported AFTER the last trial (what Solve returns) *)
Theorem certificate_box_final (p : params (T := R)) : 1 < p_r p ->
  forall k s s' x eps, (1 <= k)%nat -> PhiRunN (rootn n) (fun a => a ^ n) p phi_of k s ->
  Impl.step (rn_ops n) p s (Value (phi_of x)) = (s', Done x) ->
  4 * cn n * (2 * sqrt (INR n + 3) * L * S) <= p_r p * sM s ->
  ltb (rn_ops n) (mind s) eps = false -> ltb (rn_ops n) (mind s') eps = true ->
  forall Y, in_boxR lo hi Y ->
  sZ s' - f Y < p_r p * sM s / 2 * eps + L * S / 2 ^ m * (sqrt (INR n + 3) + sqrt (INR n) / 2).
Proof.
  intros Hr k s s' x eps Hk Hrun St Hmu Hb Ha Y HY.
  pose proof (certificate_box p Hr k s s' x eps Hk Hrun St Hmu Hb Ha Y HY) as Q.
  destruct (phirun_inv_n (rootn n) (fun a => a ^ n) p phi_of k s Hrun) as [[C _]|[A F]]; [lia|].
  pose proof A as (Ff & _). unfold Impl.step in St. unfold rn_ops in St. rewrite Ff in St.
  pose proof (iteration_best_le (rootn n) (fun a => a ^ n) p s (phi_of x) s' x A St). lra.
Qed.

(* in terms of Solve itself: a fresh solver, answers = f at the images of the trial points, Solve ends without an exception with
   the accuracy test satisfied. Then the state s in which the last interval was selected exists, and if r * M(s) >= K_N L S
   the returned best value obeys the bound at every point of the box *)
Theorem solve_certificate_box (p : params (T := R)) (ans : nat -> answer R) : 1 < p_r p ->
  Driven (rootn n) (fun a => a ^ n) p phi_of ans -> ltb (rn_ops n) (pinf (rn_ops n)) (p_eps p) = false ->
  forall s_f xs, Solves (rn_ops n) p ans (init_st (rn_ops n)) s_f xs false -> ltb (rn_ops n) (mind s_f) (p_eps p) = true ->
  exists s x, (exists k xs0, steps (rn_ops n) p ans k (init_st (rn_ops n)) = Some (s, xs0)) /\
              Impl.step (rn_ops n) p s (Value (phi_of x)) = (s_f, Done x) /\ ltb (rn_ops n) (mind s) (p_eps p) = false /\
              (4 * cn n * (2 * sqrt (INR n + 3) * L * S) <= p_r p * sM s ->
               forall Y, in_boxR lo hi Y ->
               sZ s_f - f Y < p_r p * sM s / 2 * p_eps p + L * S / 2 ^ m * (sqrt (INR n + 3) + sqrt (INR n) / 2)).
Proof.
  intros Hr D Hinf s_f xs So Hacc.
  assert (N3 : 0 <= sqrt (INR n + 3)) by apply sqrt_pos.
  assert (P2 : 0 < 2 ^ m) by (apply pow_lt; lra).
  set (H := 2 * sqrt (INR n + 3) * L * S) in *. set (g := L * (sqrt (INR n + 3) * S / 2 ^ m)).
  assert (HH : 0 <= H) by (subst H; repeat apply Rmult_le_pos; lra).
  assert (Hg : 0 <= g).
  { subst g. apply Rmult_le_pos; [assumption|]. apply Rmult_le_pos; [apply Rmult_le_pos; assumption | left; apply Rinv_0_lt_compat; exact P2]. }
  destruct (solve_certificate_n (rootn n) (fun a => a ^ n) (cn n) (cn_lo n Hn) (cn_hi n Hn) (rootn_pos n) (rootn_mono n Hn) (rootn_split n Hn)
              p phi_of ans H g Hr HH Hg phi_hoelder D Hinf s_f xs So Hacc) as (s & x & Hreach & E & Hmind & Cert).
  exists s, x. split; [exact Hreach|]. split; [exact E|]. split; [exact Hmind|].
  intros Hmu Y HY.
  destruct (imageR_dense n Hall m lo hi S Y Llo Lhi HS Sides HY) as (x0 & Hx0 & Dx0).
  pose proof (Cert Hmu x0 Hx0) as Q.
  pose proof (Lip Y _ HY (imageR_in_box n Hall m lo hi S x0 Llo Lhi Sides)) as LY. apply Rabs_le_inv' in LY.
  fold (phi_of x0) in LY.
  assert (LD : L * sqrt (dist2R Y (imageR n m lo hi x0)) <= L * (S * sqrt (INR n) / 2 ^ (m + 1))) by (apply Rmult_le_compat_l; assumption).
  assert (E2 : L * S / 2 ^ m * (sqrt (INR n + 3) + sqrt (INR n) / 2) = g + L * (S * sqrt (INR n) / 2 ^ (m + 1))).
  { subst g. rewrite pow_add. simpl. field. lra. }
  rewrite E2. lra.
Qed.

End Box.

(* ---------- dimension one through the same generic development: root = identity, c = 1/2, no slack ---------- *)
Lemma id_root_pos (d : R) : 0 < d -> 0 < d. Proof. auto. Qed.
Lemma id_root_mono (u d : R) : 0 < u -> u <= d -> u <= d. Proof. auto. Qed.
Lemma id_root_split (u v : R) : 0 < u -> 0 < v -> u + v <= 2 * / 2 * (u + v). Proof. intros. lra. Qed.

Theorem solve_certificate_1d (p : params (T := R)) (phi : R -> R) (ans : nat -> answer R) (H : R) :
  1 < p_r p -> 0 <= H -> (forall x y, 0 <= x <= 1 -> 0 <= y <= 1 -> Rabs (phi x - phi y) <= H * Rabs (x - y)) ->
  Driven (fun d => d) (fun a => a) p phi ans -> ltb r_ops (pinf r_ops) (p_eps p) = false ->
  forall s_f xs, Solves r_ops p ans (init_st r_ops) s_f xs false -> ltb r_ops (mind s_f) (p_eps p) = true ->
  exists s x, (exists k xs0, steps r_ops p ans k (init_st r_ops) = Some (s, xs0)) /\
              Impl.step r_ops p s (Value (phi x)) = (s_f, Done x) /\ ltb r_ops (mind s) (p_eps p) = false /\
              (2 * H <= p_r p * sM s -> forall y, 0 <= y <= 1 -> sZ s_f - phi y < p_r p * sM s / 2 * p_eps p).
Proof.
  intros Hr HH Lip D Hinf s_f xs So Hacc.
  assert (Hoe : forall x y, 0 <= x -> x < y -> y <= 1 -> Rabs (phi x - phi y) <= H * (y - x) + 0).
  { intros x y H0 Hlt H1. pose proof (Lip x y ltac:(lra) ltac:(lra)) as Q. rewrite (Rabs_left (x - y)) in Q by lra. lra. }
  destruct (solve_certificate_n (fun d => d) (fun a => a) (/ 2) ltac:(lra) ltac:(lra) id_root_pos id_root_mono id_root_split
              p phi ans H 0 Hr HH ltac:(lra) Hoe D Hinf s_f xs So Hacc) as (s & x & Hreach & E & Hmind & Cert).
  exists s, x. split; [exact Hreach|]. split; [exact E|]. split; [exact Hmind|].
  intros Hmu y Hy. pose proof (Cert ltac:(lra) y Hy). lra.
Qed.
