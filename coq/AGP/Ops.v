(* Abstract numeric interface of the AGP model. Instances: PrimFloat (bit-exact execution against CPython) in
   AGP/FloatOps.v, the reals in AGP/RealOps.v. No theorem is stated over floats unless it only needs order laws. *)
From Coq Require Import ZArith Bool.

Record Ops (T : Type) := {
  add : T -> T -> T; sub : T -> T -> T; mul : T -> T -> T; div : T -> T -> T;
  absv : T -> T;
  ltb : T -> T -> bool;          (* python a < b  *)
  leb : T -> T -> bool;          (* python a <= b *)
  of_Z : Z -> T;
  half : T;                      (* 0.5 *)
  pinf : T; ninf : T;            (* np.inf, -np.inf *)
  fmax : T;                      (* sys.float_info.max: z of a point that was not evaluated *)
  hroot : T -> T;                (* pow(d, 1.0 / N) for the dimension N of the run *)
  hpow : T -> T                  (* pow(a, N) *)
}.
Arguments add {T}. Arguments sub {T}. Arguments mul {T}. Arguments div {T}. Arguments absv {T}.
Arguments ltb {T}. Arguments leb {T}. Arguments of_Z {T}. Arguments half {T}. Arguments pinf {T}. Arguments ninf {T}.
Arguments fmax {T}. Arguments hroot {T}. Arguments hpow {T}.

(* python's min(a, b): returns a unless b < a *)
Definition pymin {T} (o : Ops T) (a b : T) : T := if ltb o b a then b else a.
