(* C12: solver instances are isolated from one another, PROVIDED no mutable object is shared between instances.
   The one kind of object the code can share is a default argument evaluated once at `def` time (the bestTrials list
   of Solution, the functionValues list of SearchDataItem). The model makes that cell explicit:
   every solver i owns a state and a "published best" cell at location loc i; with policy Fresh the locations are
   distinct, with policy SharedDefault they all coincide. A step of solver i updates its own state and writes its
   cell (Method.UpdateOptimum: solution.bestTrials[0] = self.best); GetResults reads the cell. *)
From Coq Require Import List Bool Arith Lia.
Import ListNotations.

Inductive policy := Fresh | SharedDefault.

Section Isolation.
Variable S B : Type.                         (* solver state, published best trial *)
Variable step : S -> S.                      (* one iteration of a solver (its own objective, parameters: part of S) *)
Variable best_of : S -> B.

Definition loc (pol : policy) (i : nat) : nat := match pol with Fresh => i | SharedDefault => 0 end.

Record world := mkW { states : nat -> S; cells : nat -> B }.

Definition upd {A} (f : nat -> A) (i : nat) (v : A) : nat -> A := fun j => if Nat.eqb j i then v else f j.

Definition wstep (pol : policy) (w : world) (i : nat) : world :=
  let s' := step (states w i) in mkW (upd (states w) i s') (upd (cells w) (loc pol i) (best_of s')).

Definition run (pol : policy) (w : world) (sched : list nat) : world := fold_left (wstep pol) sched w.

Definition result (pol : policy) (w : world) (i : nat) : B := cells w (loc pol i).

(* running solver i alone: the sub-schedule of its own steps *)
Definition own (i : nat) (sched : list nat) : list nat := filter (Nat.eqb i) sched.

Lemma run_state_other pol sched : forall w i, ~ In i sched -> states (run pol w sched) i = states w i.
Proof.
  induction sched as [|j t IH]; intros w i H; cbn [run fold_left]; [reflexivity|].
  fold (run pol (wstep pol w j) t). rewrite IH; [|intros C; apply H; right; exact C].
  cbn. unfold upd. destruct (Nat.eqb_spec i j); [exfalso; apply H; left; congruence | reflexivity].
Qed.

(* the state of solver i after any interleaving = its state after its own steps alone (holds for both policies) *)
Theorem state_isolated pol sched : forall w i, states (run pol w sched) i = states (run pol w (own i sched)) i.
Proof.
  induction sched as [|j t IH]; intros w i; cbn [run fold_left own filter]; [reflexivity|].
  fold (run pol (wstep pol w j) t). destruct (Nat.eqb_spec i j) as [E|E].
  - subst j. cbn [fold_left]. fold (run pol (wstep pol w i) (own i t)). apply IH.
  - fold (own i t). rewrite IH.
    (* the states of i in (wstep w j) and w agree, and only i's own steps follow *)
    assert (G : forall l w1 w2, states w1 i = states w2 i -> (forall k, In k l -> k = i) -> states (run pol w1 l) i = states (run pol w2 l) i).
    { induction l as [|k l IHl]; intros w1 w2 H1 H2; cbn [run fold_left]; [exact H1|].
      fold (run pol (wstep pol w1 k) l). fold (run pol (wstep pol w2 k) l). apply IHl; [|intros k' Hk; apply H2; right; exact Hk].
      assert (k = i) by (apply H2; left; reflexivity). subst k. cbn. unfold upd. rewrite Nat.eqb_refl, H1. reflexivity. }
    apply G.
    + cbn. unfold upd. destruct (Nat.eqb_spec i j); [contradiction | reflexivity].
    + intros k Hk. unfold own in Hk. apply filter_In in Hk as [_ Hk]. apply Nat.eqb_eq in Hk. congruence.
Qed.

(* with fresh (distinct) cells, the published result of solver i after any interleaving in which it made at least
   one step is the result it publishes when run alone *)
Lemma result_after_own_step pol w i sched : In i sched -> (forall k, In k sched -> k = i) ->
  result pol (run pol w sched) i = best_of (states (run pol w sched) i).
Proof.
  revert w. induction sched as [|j t IH] using rev_ind; intros w H1 H2; [destruct H1|].
  unfold run. rewrite fold_left_app. cbn [fold_left]. fold (run pol w t).
  assert (j = i) by (apply H2; apply in_or_app; right; left; reflexivity). subst j.
  unfold result. cbn. unfold upd. rewrite !Nat.eqb_refl. reflexivity.
Qed.

Theorem result_isolated_fresh sched : forall w i, In i sched ->
  result Fresh (run Fresh w sched) i = result Fresh (run Fresh w (own i sched)) i.
Proof.
  intros w i Hi.
  assert (Own : In i (own i sched)) by (apply filter_In; split; [exact Hi | apply Nat.eqb_refl]).
  assert (OnlyI : forall k, In k (own i sched) -> k = i) by (intros k Hk; apply filter_In in Hk as [_ Hk]; apply Nat.eqb_eq in Hk; congruence).
  rewrite (result_after_own_step Fresh w i (own i sched) Own OnlyI).
  rewrite <- state_isolated.
  (* the cell of i is written only by i's steps, last of which publishes best_of of i's state at that time,
     and i's state does not change afterwards *)
  clear Own OnlyI. revert w. induction sched as [|j t IH] using rev_ind; intros w; [destruct Hi|].
  unfold run. rewrite !fold_left_app. cbn [fold_left]. fold (run Fresh w t).
  destruct (Nat.eq_dec j i) as [E|E].
  - subst j. unfold result. cbn. unfold upd. rewrite !Nat.eqb_refl. reflexivity.
  - apply in_app_or in Hi as [Hi|[Hi|[]]]; [|congruence].
    unfold result in *. cbn. unfold upd, loc. destruct (Nat.eqb_spec i j); [congruence|].
    apply (IH Hi).
Qed.

End Isolation.

(* with a shared default cell isolation fails: two solvers, one step each *)
Theorem isolation_refuted_shared :
  exists (step : nat -> nat) (w : world nat nat) (sched : list nat),
    result nat nat SharedDefault (run nat nat step (fun s => s) SharedDefault w sched) 0 <>
    result nat nat SharedDefault (run nat nat step (fun s => s) SharedDefault w (own 0 sched)) 0.
Proof.
  exists S, (mkW nat nat (fun i => match i with 0 => 10 | _ => 20 end) (fun _ => 0)), [0; 1].
  vm_compute. discriminate.
Qed.
