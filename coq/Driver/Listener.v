(* C13: the notification protocol of Process (DoGlobalIteration / Solve) over the AGP state machine. *)
From Coq Require Import ZArith List Bool Lia.
From IOptV Require Import AGP.Ops gen.MethodGen AGP.Impl AGP.Termination.
Import ListNotations.

Section Listener.
Context {T : Type} (o : Ops T).
Variable p : params (T := T).
Variable ans : nat -> answer T.
Notation st := (st (T := T)).

Inductive event := EvBefore | EvEnd (xs : list T) | EvStop (ntrials : Z) (exc : bool).

(* DoGlobalIteration(k): BeforeMethodStart is sent when the first iteration starts; OnEndIteration(new points) is
   sent after the loop, unless an exception escaped *)
Definition global_call (k : nat) (s : st) : st * list event * bool :=
  let '(s', xs, exc) := do_iterations o k p s ans [] in
  (s', (if firstflag s && negb (Nat.eqb k 0) then [EvBefore] else []) ++ (if exc then [] else [EvEnd xs]), exc).

(* a script of DoGlobalIteration calls (stopping at the first escaping exception) *)
Fixpoint calls_trace (ks : list nat) (s : st) : st * list event * bool :=
  match ks with
  | [] => (s, [], false)
  | k :: t => let '(s1, ev, exc) := global_call k s in
              if exc then (s1, ev, true) else let '(s2, ev2, exc2) := calls_trace t s1 in (s2, ev ++ ev2, exc2)
  end.

(* Solve: one notification per iteration, then OnMethodStop with the final solution *)
Definition solve_trace (s : st) : st * list event :=
  let '(s', batches, exc, _) := solve o p s ans in
  (s', (if firstflag s && negb (stop o p s) then [EvBefore] else []) ++ map EvEnd batches ++ [EvStop (ntr s') exc]).

Definition ends (ev : list event) : list (list T) := flat_map (fun e => match e with EvEnd xs => [xs] | _ => [] end) ev.
Definition befores (ev : list event) : nat := length (filter (fun e => match e with EvBefore => true | _ => false end) ev).

Lemma ends_app a b : ends (a ++ b) = ends a ++ ends b.
Proof. unfold ends. apply flat_map_app. Qed.

Lemma global_call_spec k s s' ev : global_call k s = (s', ev, false) ->
  exists xs, steps o p ans k s = Some (s', xs) /\ ends ev = [xs] /\
             befores ev = (if firstflag s && negb (Nat.eqb k 0) then 1 else 0)%nat.
Proof.
  unfold global_call. destruct (do_iterations o k p s ans []) as [[s1 xs] exc] eqn:E. intros [= <- <- ->].
  apply (do_iterations_steps o p ans) in E as (ys & E1 & E2). cbn in E2. subst xs. exists ys. split; [exact E1|].
  destruct (firstflag s && negb (Nat.eqb k 0)); cbn; auto.
Qed.

(* the listener is told, per DoGlobalIteration call, exactly the new trials of that call, in order; the concatenation
   of all notified batches is the trial sequence; BeforeMethodStart at most once *)
Theorem calls_trace_spec ks : forall s s' ev, calls_trace ks s = (s', ev, false) ->
  exists xs, steps o p ans (fold_right Nat.add 0%nat ks) s = Some (s', xs) /\ concat (ends ev) = xs /\ length (ends ev) = length ks.
Proof.
  induction ks as [|k t IH]; intros s s' ev H; cbn [calls_trace] in H.
  - injection H as <- <-. exists []. cbn. auto.
  - destruct (global_call k s) as [[s1 e1] x1] eqn:G. destruct x1; [discriminate H|].
    destruct (calls_trace t s1) as [[s2 e2] x2] eqn:C. injection H as <- <- ->.
    destruct (global_call_spec k s s1 e1 G) as (xs1 & S1 & E1 & _). destruct (IH s1 s2 e2 C) as (xs2 & S2 & E2 & L2).
    exists (xs1 ++ xs2). cbn [fold_right]. rewrite (steps_compose o p ans), S1, S2. split; [reflexivity|].
    rewrite ends_app, E1. cbn [app concat length]. rewrite E2, L2. auto.
Qed.

End Listener.
