(* C05: the local refinement step of Process.DoLocalRefinement around an abstract bound-respecting local optimiser.
   scipy's Nelder-Mead is NOT modelled: it is a Section variable with an explicitly assumed contract
   (when bounds are passed, every evaluation point and the returned point lie inside them). *)
From Coq Require Import List Bool.
Import ListNotations.

Section Refine.
Variable Pt V : Type.
Variable le : V -> V -> bool.                      (* python <= on values *)
Variable in_box : Pt -> Prop.
Variable f : Pt -> V.                              (* the objective (deterministic during the refinement) *)
(* the optimiser: start point, "bounds were passed" -> (returned point, points it evaluated) *)
Variable nm : Pt -> bool -> Pt * list Pt.
Hypothesis nm_contract : forall x0, in_box x0 -> in_box (fst (nm x0 true)) /\ Forall in_box (snd (nm x0 true)).

(* DoLocalRefinement: run the optimiser from the current best point, evaluate the objective at what it returns,
   accept it (as a NEW trial) only if it is not worse *)
Definition refine (passes_bounds : bool) (best : Pt) : Pt * V * list Pt :=
  let '(x, evals) := nm best passes_bounds in
  let v := f x in
  if le v (f best) then (x, v, evals ++ [x]) else (best, f best, evals ++ [x]).

Theorem refine_in_box best : in_box best ->
  let '(pt, _, evals) := refine true best in in_box pt /\ Forall in_box evals.
Proof.
  intros H. unfold refine. destruct (nm_contract best H) as [H1 H2]. destruct (nm best true) as [x evals]. cbn [fst snd] in *.
  destruct (le (f x) (f best)); (split; [assumption | apply Forall_app; split; [exact H2 | constructor; [exact H1 | constructor]]]).
Qed.

Theorem refine_value_matches pb best : let '(pt, v, _) := refine pb best in v = f pt.
Proof. unfold refine. destruct (nm best pb) as [x evals]. destruct (le (f x) (f best)); reflexivity. Qed.

Hypothesis le_refl : forall v, le v v = true.
Theorem refine_not_worse pb best : let '(_, v, _) := refine pb best in le v (f best) = true.
Proof. unfold refine. destruct (nm best pb) as [x evals]. destruct (le (f x) (f best)) eqn:E; [exact E | apply le_refl]. Qed.
End Refine.
