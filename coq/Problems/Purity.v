(* C15: frame property of an evaluation whose write set is { supplied holder's value }.
   Store model: cells indexed by nat; an evaluation reads the point cell and the (immutable) tables of its instance and
   writes the holder cell. The write set itself is read from the source on every run (gen/SourceFacts.v:
   calculate_extra_writes must be empty for every family, Calculate must return the supplied holder). *)
From Coq Require Import List Arith Bool.
Import ListNotations.

Section Purity.
Variable V : Type.                        (* values *)
Variable Pt : Type.                       (* points *)
Variable f : Pt -> V.                     (* the instance's objective: a function of the point (and the instance's constants) only *)

Record store := mkStore { points : nat -> Pt; holders : nat -> option V; others : nat -> V }.

Definition upd {A} (g : nat -> A) (i : nat) (v : A) : nat -> A := fun j => if Nat.eqb j i then v else g j.

(* Calculate(point p, holder h): store the value into the holder, return the holder *)
Definition calculate (s : store) (p h : nat) : store * nat :=
  (mkStore (points s) (upd (holders s) h (Some (f (points s p)))) (others s), h).

Fixpoint run (s : store) (calls : list (nat * nat)) : store :=
  match calls with [] => s | (p, h) :: t => run (fst (calculate s p h)) t end.

(* the value delivered for a point does not depend on what was evaluated before *)
Theorem value_independent_of_history s calls p h :
  holders (fst (calculate (run s calls) p h)) h = Some (f (points s p)).
Proof.
  assert (G : forall calls s, points (run s calls) = points s).
  { induction calls0 as [|[p0 h0] t IH]; intros s0; [reflexivity|]. cbn [run]. rewrite IH. reflexivity. }
  cbn. unfold upd. rewrite Nat.eqb_refl, G. reflexivity.
Qed.

(* an evaluation returns the supplied holder, does not modify any point and no other cell or holder *)
Theorem calculate_frame s p h :
  snd (calculate s p h) = h /\ points (fst (calculate s p h)) = points s /\ others (fst (calculate s p h)) = others s /\
  (forall h', h' <> h -> holders (fst (calculate s p h)) h' = holders s h').
Proof.
  cbn. repeat split. intros h' Hn. unfold upd. destruct (Nat.eqb_spec h' h); [contradiction | reflexivity].
Qed.
End Purity.
