(* Structure of the GKLS D-type test functions (iOpt/problems/GKLS_function/gkls_function.py: CalculateDFunction):
   a paraboloid ||x - T||^2 + t, replaced inside each attraction ball B(M_i, rho_i) by a cubic in ||x - M_i||.
   For any parameter set satisfying the well-formedness conditions: the value at each minimiser is the prescribed f_i,
   inside ball i the function is >= f_i, on the ball boundary the cubic meets the paraboloid, hence the function is
   bounded below by min(t, f_i) and the global minimum is f_1 when f_1 is the smallest. *)
From Coq Require Import Reals List Lra.
Import ListNotations.
Open Scope R_scope.

Definition vec := list R.
Fixpoint dot (a b : vec) : R := match a, b with x :: a', y :: b' => x * y + dot a' b' | _, _ => 0 end.
Fixpoint vsub (a b : vec) : vec := match a, b with x :: a', y :: b' => (x - y) :: vsub a' b' | _, _ => [] end.
Definition nsq (a : vec) : R := dot a a.
Definition norm (a : vec) : R := sqrt (nsq a).

Lemma nsq_nonneg a : 0 <= nsq a.
Proof. unfold nsq. induction a as [|x a IH]; cbn; [lra|]. assert (0 <= x * x) by (apply Rle_0_sqr). lra. Qed.
Lemma norm_nonneg a : 0 <= norm a. Proof. apply sqrt_pos. Qed.
Lemma norm_sq a : norm a * norm a = nsq a. Proof. apply sqrt_sqrt. apply nsq_nonneg. Qed.

(* Cauchy-Schwarz for lists *)
Lemma cs_sq : forall a b, dot a b * dot a b <= nsq a * nsq b.
Proof.
  unfold nsq. induction a as [|x a IH]; intros [|y b]; cbn [dot]; try (rewrite ?Rmult_0_l, ?Rmult_0_r; lra).
  - specialize (IH b). pose proof (nsq_nonneg a) as Ha. pose proof (nsq_nonneg b) as Hb. unfold nsq in Ha, Hb.
    set (S := dot a b) in *. set (A := dot a a) in *. set (B := dot b b) in *.
    (* (xy + S)^2 <= (x^2 + A)(y^2 + B)  <=  2 x y S <= x^2 B + y^2 A *)
    assert (K : 2 * (x * y) * S <= x * x * B + y * y * A).
    { assert (0 <= x * x * B + y * y * A) by (assert (0 <= x * x) by apply Rle_0_sqr; assert (0 <= y * y) by apply Rle_0_sqr; nra).
      assert (Q : (2 * (x * y) * S) * (2 * (x * y) * S) <= (x * x * B + y * y * A) * (x * x * B + y * y * A)).
      { assert (4 * (x * x) * (y * y) * (S * S) <= 4 * (x * x) * (y * y) * (A * B)).
        { apply Rmult_le_compat_l; [|exact IH]. assert (0 <= x * x) by apply Rle_0_sqr. assert (0 <= y * y) by apply Rle_0_sqr. nra. }
        assert (0 <= (x * x * B - y * y * A) * (x * x * B - y * y * A)) by apply Rle_0_sqr. nra. }
      set (u := 2 * (x * y) * S) in *. set (v := x * x * B + y * y * A) in *.
      destruct (Rle_or_lt u v); [assumption|]. nra. }
    nra.
Qed.

Lemma cs_abs a b : Rabs (dot a b) <= norm a * norm b.
Proof.
  pose proof (cs_sq a b) as H. pose proof (norm_nonneg a). pose proof (norm_nonneg b).
  rewrite <- (norm_sq a), <- (norm_sq b) in H.
  set (s := dot a b) in *. set (p := norm a * norm b).
  assert (Hp : 0 <= p) by (subst p; apply Rmult_le_pos; assumption).
  assert (Hs : s * s <= p * p) by (subst p; nra).
  unfold Rabs. destruct (Rcase_abs s); nra.
Qed.

Lemma Rabs_le_inv' x a : Rabs x <= a -> - a <= x <= a.
Proof. unfold Rabs; destruct (Rcase_abs x); lra. Qed.

(* the one-variable core: the cubic part is non-negative on the ball *)
Lemma gkls_cubic (rho n c d t fi peak a : R) :
  0 < rho -> 0 <= n <= rho -> Rabs c <= d -> rho <= d -> 0 <= peak ->
  fi = (rho - d) * (rho - d) + t - peak -> a = d * d + t - fi ->
  0 <= (2 * c / (rho*rho) - 2 * a / (rho*rho*rho)) * (n*n*n) + (1 - 4 * c / rho + 3 * a / (rho*rho)) * (n*n).
Proof.
  intros Hrho Hn Hc Hd Hp Hfi Ha.
  apply Rabs_le_inv' in Hc.
  assert (E : (2 * c / (rho*rho) - 2 * a / (rho*rho*rho)) * (n*n*n) + (1 - 4 * c / rho + 3 * a / (rho*rho)) * (n*n)
            = n*n / (rho*rho*rho) * ((rho - n) * (rho*rho - 4*c*rho + 3*a) + n * (rho*rho - 2*c*rho + a))).
  { field. lra. }
  rewrite E.
  apply Rmult_le_pos.
  - apply Rmult_le_pos; [nra|]. apply Rlt_le, Rinv_0_lt_compat. repeat apply Rmult_lt_0_compat; lra.
  - subst a fi.
    assert (Q0 : 0 <= rho*rho - 4*c*rho + 3*(d*d + t - ((rho-d)*(rho-d) + t - peak))).
    { assert (0 <= (d - c) * rho) by nra. assert (0 <= rho * (d - rho)) by nra. nra. }
    assert (Q1 : 0 <= rho*rho - 2*c*rho + (d*d + t - ((rho-d)*(rho-d) + t - peak))).
    { assert (0 <= (d - c) * rho) by nra. nra. }
    set (A := rho*rho - 4*c*rho + 3*(d*d + t - ((rho-d)*(rho-d) + t - peak))) in *.
    set (B := rho*rho - 2*c*rho + (d*d + t - ((rho-d)*(rho-d) + t - peak))) in *.
    assert (0 <= (rho - n) * A) by (apply Rmult_le_pos; lra).
    assert (0 <= n * B) by (apply Rmult_le_pos; lra).
    lra.
Qed.

(* ---------- the function ---------- *)
Record minimum := mkMin { mpt : vec; mf : R; mrho : R }.

(* the cubic of ball m at x (n = ||x - M|| > 0), exactly the expression of CalculateDFunction *)
Definition cubic (T : vec) (t : R) (m : minimum) (x : vec) : R :=
  let d := norm (vsub T (mpt m)) in
  let a := d * d + t - mf m in
  let rho := mrho m in
  let n := norm (vsub x (mpt m)) in
  let scal := dot (vsub x (mpt m)) (vsub T (mpt m)) in
  (2 / rho / rho * scal / n - 2 * a / rho / rho / rho) * n * n * n + (1 - 4 * scal / n / rho + 3 * a / rho / rho) * n * n + mf m.

Definition paraboloid (T : vec) (t : R) (x : vec) : R := norm (vsub T x) * norm (vsub T x) + t.

(* first ball (in index order) containing x *)
Fixpoint gkls (T : vec) (t : R) (ms : list minimum) (x : vec) : R :=
  match ms with
  | [] => paraboloid T t x
  | m :: ms' =>
    if Rle_dec (norm (vsub (mpt m) x)) (mrho m) then
      (if Req_EM_T (norm (vsub x (mpt m))) 0 then mf m else cubic T t m x)
    else gkls T t ms' x
  end.

(* well-formedness of one ball: positive radius, vertex not inside, f_i = conditional minimum minus a non-negative peak *)
Definition ball_ok (T : vec) (t : R) (m : minimum) : Prop :=
  0 < mrho m /\ mrho m <= norm (vsub T (mpt m)) /\
  mf m <= (mrho m - norm (vsub T (mpt m))) * (mrho m - norm (vsub T (mpt m))) + t /\ length (mpt m) = length T.

Lemma vsub_len a : forall b, length a = length b -> length (vsub a b) = length a.
Proof. induction a as [|x a IH]; intros [|y b] H; cbn in *; try discriminate; try reflexivity. f_equal. apply IH. injection H; auto. Qed.

Lemma nsq_vsub_sym a : forall b, length a = length b -> nsq (vsub a b) = nsq (vsub b a).
Proof. unfold nsq. induction a as [|x a IH]; intros [|y b] H; cbn in *; try discriminate; try reflexivity. rewrite (IH b) by (injection H; auto). ring. Qed.
Lemma norm_vsub_sym a b : length a = length b -> norm (vsub a b) = norm (vsub b a).
Proof. intros H. unfold norm. rewrite (nsq_vsub_sym a b H). reflexivity. Qed.

(* inside its ball the cubic is not below f_i *)
Theorem cubic_ge_fi T t m x : ball_ok T t m -> length x = length T ->
  0 < norm (vsub x (mpt m)) -> norm (vsub x (mpt m)) <= mrho m -> mf m <= cubic T t m x.
Proof.
  intros (Hr & Hd & Hf & HL) Lx Hn0 Hn. unfold cubic.
  set (d := norm (vsub T (mpt m))) in *. set (rho := mrho m) in *. set (n := norm (vsub x (mpt m))) in *.
  set (s := dot (vsub x (mpt m)) (vsub T (mpt m))).
  pose proof (cs_abs (vsub x (mpt m)) (vsub T (mpt m))) as CS. fold n d s in CS.
  set (c := s / n).
  assert (Hc : Rabs c <= d).
  { subst c. unfold Rdiv. rewrite Rabs_mult, (Rabs_right (/ n)) by (apply Rle_ge, Rlt_le, Rinv_0_lt_compat; exact Hn0).
    apply (Rmult_le_reg_r n); [exact Hn0|]. rewrite Rmult_assoc, Rinv_l by lra. lra. }
  set (peak := (rho - d) * (rho - d) + t - mf m).
  assert (Hp : 0 <= peak) by (subst peak; lra).
  pose proof (gkls_cubic rho n c d t (mf m) peak (d * d + t - mf m) Hr (conj (Rlt_le _ _ Hn0) Hn) Hc Hd Hp ltac:(subst peak; ring) eq_refl) as G.
  assert (E : (2 / rho / rho * s / n - 2 * (d * d + t - mf m) / rho / rho / rho) * n * n * n + (1 - 4 * s / n / rho + 3 * (d * d + t - mf m) / rho / rho) * n * n
            = (2 * c / (rho*rho) - 2 * (d * d + t - mf m) / (rho*rho*rho)) * (n*n*n) + (1 - 4 * c / rho + 3 * (d * d + t - mf m) / (rho*rho)) * (n*n)).
  { subst c. field. split; lra. }
  rewrite E. lra.
Qed.

(* on the boundary of its ball the cubic equals the paraboloid: the function is continuous there *)
Theorem cubic_meets_paraboloid T t m x : 0 < mrho m -> length x = length T -> length (mpt m) = length T ->
  norm (vsub x (mpt m)) = mrho m -> cubic T t m x = paraboloid T t x.
Proof.
  intros Hr Lx Lm Hn. unfold cubic, paraboloid. rewrite Hn.
  set (rho := mrho m) in *. set (d := norm (vsub T (mpt m))). set (s := dot (vsub x (mpt m)) (vsub T (mpt m))).
  (* ||T - x||^2 = n^2 - 2 s + d^2 *)
  assert (P : norm (vsub T x) * norm (vsub T x) = rho * rho - 2 * s + d * d).
  { rewrite norm_sq. subst d. rewrite norm_sq. rewrite <- Hn, norm_sq. subst s. unfold nsq.
    clear Hn Hr rho. revert x Lx Lm. generalize (mpt m). intros M. revert M.
    induction T as [|a T IH]; intros [|b M] [|c x] Lx Lm; cbn in *; try discriminate; try lra.
    rewrite (IH M x) by (injection Lx; injection Lm; auto). ring. }
  rewrite P. field. lra.
Qed.

(* the paraboloid is never below t *)
Lemma paraboloid_ge T t x : t <= paraboloid T t x.
Proof. unfold paraboloid. pose proof (norm_nonneg (vsub T x)). nra. Qed.

(* lower bound: everywhere the function is at least min(t, all f_i) *)
Theorem gkls_lower_bound T t ms lb x : Forall (ball_ok T t) ms -> length x = length T ->
  lb <= t -> Forall (fun m => lb <= mf m) ms -> lb <= gkls T t ms x.
Proof.
  intros W Lx Ht Hf. induction ms as [|m ms IH]; cbn [gkls].
  - pose proof (paraboloid_ge T t x). lra.
  - inversion W as [|? ? Wm W']; subst. inversion Hf as [|? ? Hm Hf']; subst.
    destruct (Rle_dec (norm (vsub (mpt m) x)) (mrho m)) as [In|Out]; [|apply IH; assumption].
    destruct (Req_EM_T (norm (vsub x (mpt m))) 0) as [Z|NZ]; [exact Hm|].
    pose proof Wm as (_ & _ & _ & HL).
    assert (Sym : norm (vsub (mpt m) x) = norm (vsub x (mpt m))) by (apply norm_vsub_sym; congruence).
    pose proof (norm_nonneg (vsub x (mpt m))).
    pose proof (cubic_ge_fi T t m x Wm Lx ltac:(lra) ltac:(lra)). lra.
Qed.

(* value at a minimiser: the prescribed f_i, provided the minimiser is in no earlier ball *)
Lemma nsq_self_zero a : nsq (vsub a a) = 0.
Proof. unfold nsq. induction a as [|x a IH]; cbn; [reflexivity|]. rewrite IH. ring. Qed.

Theorem gkls_at_minimiser T t pre m post : 0 <= mrho m ->
  Forall (fun q => mrho q < norm (vsub (mpt q) (mpt m))) pre -> gkls T t (pre ++ m :: post) (mpt m) = mf m.
Proof.
  intros Hr. induction pre as [|q pre IH]; intros F; cbn [app gkls].
  - assert (Z : norm (vsub (mpt m) (mpt m)) = 0) by (unfold norm; rewrite nsq_self_zero; apply sqrt_0).
    rewrite Z. destruct (Rle_dec 0 (mrho m)) as [_|C]; [|contradiction]. destruct (Req_EM_T 0 0) as [_|C]; [reflexivity | contradiction C; reflexivity].
  - inversion F as [|? ? Hq F']; subst. destruct (Rle_dec (norm (vsub (mpt q) (mpt m))) (mrho q)) as [C|_]; [lra | apply IH; exact F'].
Qed.

(* outside every ball the function is the paraboloid *)
Theorem gkls_outside_is_paraboloid T t ms x : Forall (fun m => mrho m < norm (vsub (mpt m) x)) ms -> gkls T t ms x = paraboloid T t x.
Proof.
  induction ms as [|m ms IH]; intros F; cbn [gkls]; [reflexivity|]. inversion F as [|? ? Hm F']; subst.
  destruct (Rle_dec (norm (vsub (mpt m) x)) (mrho m)) as [C|_]; [lra | apply IH; exact F'].
Qed.
