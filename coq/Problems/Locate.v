(* Locating an extremiser from the sign of the derivative near a tabulated point and separation further away
   (the mean-value step behind the per-row location statements of C18). *)
From Coq Require Import Reals Lra.
From Coquelicot Require Import Coquelicot.
Open Scope R_scope.

(* strictly monotone on [a, b] from the sign of the derivative *)
Lemma decr_from_derivative (f df : R -> R) a b : (forall x, is_derive f x (df x)) -> a < b ->
  (forall x, a <= x <= b -> df x < 0) -> f b < f a.
Proof.
  intros D Hab Hneg.
  destruct (MVT_gen f a b df) as (c & Hc & E).
  - intros x _. apply D.
  - intros x _. apply derivable_continuous_pt. exists (df x). apply is_derive_Reals, D.
  - rewrite Rmin_left, Rmax_right in Hc by lra. specialize (Hneg c Hc). nra.
Qed.

Lemma incr_from_derivative (f df : R -> R) a b : (forall x, is_derive f x (df x)) -> a < b ->
  (forall x, a <= x <= b -> 0 < df x) -> f a < f b.
Proof.
  intros D Hab Hpos.
  destruct (MVT_gen f a b df) as (c & Hc & E).
  - intros x _. apply D.
  - intros x _. apply derivable_continuous_pt. exists (df x). apply is_derive_Reals, D.
  - rewrite Rmin_left, Rmax_right in Hc by lra. specialize (Hpos c Hc). nra.
Qed.

(* every global minimiser of f on [lo, hi] lies in [tl, tr]:
   f is above f(q) outside (wl, wr), decreasing on [wl, tl] and increasing on [tr, wr] (all intersected with [lo, hi]) *)
Theorem min_located (f df : R -> R) (lo hi q wl tl tr wr : R) :
  (forall x, is_derive f x (df x)) -> lo <= q <= hi -> tl <= hi -> lo <= tr ->
  (forall x, lo <= x <= wl -> f q < f x) ->
  (forall x, lo <= x -> wl <= x <= tl -> df x < 0) ->
  (forall x, x <= hi -> tr <= x <= wr -> 0 < df x) ->
  (forall x, wr <= x <= hi -> f q < f x) ->
  forall xm, lo <= xm <= hi -> (forall x, lo <= x <= hi -> f xm <= f x) -> tl <= xm <= tr.
Proof.
  intros D Hq Htl Htr Sl Dl Dr Sr xm Hxm Min. split.
  - destruct (Rle_lt_dec tl xm) as [Ok|Lt]; [exact Ok|]. exfalso.
    destruct (Rle_lt_dec xm wl) as [Far|Near].
    + pose proof (Sl xm ltac:(lra)). pose proof (Min q Hq). lra.
    + assert (f tl < f xm) by (apply (decr_from_derivative f df xm tl D Lt); intros x Hx; apply Dl; lra).
      pose proof (Min tl ltac:(lra)). lra.
  - destruct (Rle_lt_dec xm tr) as [Ok|Gt]; [exact Ok|]. exfalso.
    destruct (Rle_lt_dec wr xm) as [Far|Near].
    + pose proof (Sr xm ltac:(lra)). pose proof (Min q Hq). lra.
    + assert (f tr < f xm) by (apply (incr_from_derivative f df tr xm D Gt); intros x Hx; apply Dr; lra).
      pose proof (Min tr ltac:(lra)). lra.
Qed.

Theorem max_located (f df : R -> R) (lo hi q wl tl tr wr : R) :
  (forall x, is_derive f x (df x)) -> lo <= q <= hi -> tl <= hi -> lo <= tr ->
  (forall x, lo <= x <= wl -> f x < f q) ->
  (forall x, lo <= x -> wl <= x <= tl -> 0 < df x) ->
  (forall x, x <= hi -> tr <= x <= wr -> df x < 0) ->
  (forall x, wr <= x <= hi -> f x < f q) ->
  forall xm, lo <= xm <= hi -> (forall x, lo <= x <= hi -> f x <= f xm) -> tl <= xm <= tr.
Proof.
  intros D Hq Htl Htr Sl Dl Dr Sr xm Hxm Max. split.
  - destruct (Rle_lt_dec tl xm) as [Ok|Lt]; [exact Ok|]. exfalso.
    destruct (Rle_lt_dec xm wl) as [Far|Near].
    + pose proof (Sl xm ltac:(lra)). pose proof (Max q Hq). lra.
    + assert (f xm < f tl) by (apply (incr_from_derivative f df xm tl D Lt); intros x Hx; apply Dl; lra).
      pose proof (Max tl ltac:(lra)). lra.
  - destruct (Rle_lt_dec xm tr) as [Ok|Gt]; [exact Ok|]. exfalso.
    destruct (Rle_lt_dec wr xm) as [Far|Near].
    + pose proof (Sr xm ltac:(lra)). pose proof (Max q Hq). lra.
    + assert (f xm < f tr) by (apply (decr_from_derivative f df tr xm D Gt); intros x Hx; apply Dr; lra).
      pose proof (Max tr ltac:(lra)). lra.
Qed.

(* a bound on the derivative is a Lipschitz constant *)
Theorem lipschitz_from_derivative (f df : R -> R) (lo hi L : R) :
  (forall x, is_derive f x (df x)) -> (forall x, lo <= x <= hi -> Rabs (df x) <= L) ->
  forall x y, lo <= x <= hi -> lo <= y <= hi -> Rabs (f x - f y) <= L * Rabs (x - y).
Proof.
  intros D B x y Hx Hy.
  destruct (MVT_gen f y x df) as (c & Hc & E).
  - intros t _. apply D.
  - intros t _. apply derivable_continuous_pt. exists (df t). apply is_derive_Reals, D.
  - rewrite E, Rabs_mult. apply Rmult_le_compat_r; [apply Rabs_pos|]. apply B.
    unfold Rmin, Rmax in Hc. destruct (Rle_dec y x); lra.
Qed.
