(* binary64 model of GKLSFunction.CalculateDFunction (same operations in the same order), executed on the parameters
   exported from the implementation and compared bit-for-bit with GKLS.Calculate at sampled points. *)
From Coq Require Import List Bool PrimFloat.
Import ListNotations.
Open Scope float_scope.

Fixpoint fnorm2 (a b : list float) (acc : float) : float :=
  match a, b with x :: a', y :: b' => fnorm2 a' b' (acc + (x - y) * (x - y)) | _, _ => acc end.
Definition fnorm (a b : list float) : float := sqrt (fnorm2 a b 0).

Fixpoint fscal (x m t : list float) (acc : float) : float :=
  match x, m, t with xi :: x', mi :: m', ti :: t' => fscal x' m' t' (acc + (xi - mi) * (ti - mi)) | _, _, _ => acc end.

Section WithConstants.
Variable precision : float.   (* GKLSFunction.GKLS_PRECISION, passed in by the harness *)
Variable max_value : float.   (* GKLSFunction.GKLS_MAX_VALUE *)

Record fmin := mkFMin { fpt : list float; ff : float; frho : float }.

Fixpoint outside_domain (x : list float) : bool :=
  match x with
  | [] => false
  | c :: x' => ltb c (-1 - precision) || ltb (1 + precision) c || outside_domain x'
  end.

Definition cubic_f (T : list float) (t : float) (m : fmin) (x : list float) : float :=
  let norm0 := fnorm T (fpt m) in
  let a := norm0 * norm0 + t - ff m in
  let rho := frho m in
  let norm := fnorm (fpt m) x in
  let scal := fscal x (fpt m) T 0 in
  (2 / rho / rho * scal / norm - 2 * a / rho / rho / rho) * norm * norm * norm + (1 - 4 * scal / norm / rho + 3 * a / rho / rho) * norm * norm + ff m.

Fixpoint scan (T : list float) (t : float) (ms : list fmin) (x : list float) : float :=
  match ms with
  | [] => let n := fnorm T x in n * n + t
  | m :: ms' => if ltb (frho m) (fnorm (fpt m) x) then scan T t ms' x
                else if ltb (fnorm x (fpt m)) precision then ff m else cubic_f T t m x
  end.

Definition gkls_f (T : list float) (t : float) (ms : list fmin) (x : list float) : float :=
  if outside_domain x then max_value else scan T t ms x.

End WithConstants.

Definition feqb (a b : float) : bool := PrimFloat.eqb a b || (is_nan a && is_nan b).

(* cases: parameters, then (point, value the implementation returned) *)
Fixpoint bad_points (prec maxv : float) (T : list float) (t : float) (ms : list fmin) (pts : list (list float * float)) (k : nat) : list nat :=
  match pts with
  | [] => []
  | (x, v) :: r => if feqb (gkls_f prec maxv T t ms x) v then bad_points prec maxv T t ms r (S k) else k :: bad_points prec maxv T t ms r (S k)
  end.
