(* A decidable well-formedness predicate on rational GKLS parameter sets (the exact binary64 values exported from the
   implementation), and its transfer to the real-number hypotheses of Problems/GKLS.v. The predicate avoids square
   roots by comparing squares. *)
From Coq Require Import Reals QArith Qreals List Lra Bool.
From IOptV Require Import Problems.GKLS.
Import ListNotations.
Local Open Scope Q_scope.

Record qmin := mkQMin { qpt : list Q; qf : Q; qrho : Q }.

Fixpoint qdot (a b : list Q) : Q := match a, b with x :: a', y :: b' => x * y + qdot a' b' | _, _ => 0 end.
Fixpoint qvsub (a b : list Q) : list Q := match a, b with x :: a', y :: b' => (x - y) :: qvsub a' b' | _, _ => [] end.
Definition qnsq (a : list Q) : Q := qdot a a.
Definition qle (a b : Q) : bool := Qle_bool a b.
Definition qlt (a b : Q) : bool := negb (Qle_bool b a).

Definition in_box (n : nat) (p : list Q) : bool := Nat.eqb (length p) n && forallb (fun c => qle (-1) c && qle c 1) p.

(* one ball against vertex T (radius rho0) and paraboloid minimum t *)
Definition ball_ok_q (n : nat) (T : list Q) (t rho0 : Q) (m : qmin) : bool :=
  let d2 := qnsq (qvsub T (qpt m)) in
  let K := qrho m * qrho m + d2 + t - qf m in
  in_box n (qpt m) && qlt 0 (qrho m) && qle (qrho m * qrho m) d2 &&
  qle 0 K && qle (4 * (qrho m * qrho m) * d2) (K * K) &&
  qle ((rho0 + qrho m) * (rho0 + qrho m)) d2.

Fixpoint disjoint_q (ms : list qmin) : bool :=
  match ms with
  | [] => true
  | m :: ms' => forallb (fun q => qle ((qrho m + qrho q) * (qrho m + qrho q)) (qnsq (qvsub (qpt m) (qpt q)))) ms' && disjoint_q ms'
  end.

(* the whole parameter set: ms = minimisers 1..9, the first being the global one *)
Definition wf_q (n : nat) (T : list Q) (t rho0 : Q) (ms : list qmin) (gd2lo gd2hi grad : Q) : bool :=
  in_box n T && qlt 0 rho0 && qlt (-1) t &&
  forallb (ball_ok_q n T t rho0) ms && disjoint_q ms &&
  match ms with
  | g :: rest => Qeq_bool (qf g) (-1) && forallb (fun m => qlt (-1) (qf m)) rest &&
                 qle gd2lo (qnsq (qvsub T (qpt g))) && qle (qnsq (qvsub T (qpt g))) gd2hi && Qeq_bool (qrho g) grad
  | [] => false
  end.

(* ---------- transfer to the reals ---------- *)
Definition toR (m : qmin) : minimum := mkMin (map Q2R (qpt m)) (Q2R (qf m)) (Q2R (qrho m)).

Lemma Q2R_dot a : forall b, Q2R (qdot a b) = dot (map Q2R a) (map Q2R b).
Proof. induction a as [|x a IH]; intros [|y b]; cbn [qdot dot map]; try (unfold Q2R; cbn; lra). rewrite Q2R_plus, Q2R_mult, IH. reflexivity. Qed.
Lemma Q2R_vsub a : forall b, map Q2R (qvsub a b) = vsub (map Q2R a) (map Q2R b).
Proof. induction a as [|x a IH]; intros [|y b]; cbn [qvsub vsub map]; try reflexivity. rewrite Q2R_minus, IH. reflexivity. Qed.
Lemma Q2R_nsq a : Q2R (qnsq a) = nsq (map Q2R a).
Proof. unfold qnsq, nsq. apply Q2R_dot. Qed.

Lemma qle_R a b : qle a b = true -> (Q2R a <= Q2R b)%R.
Proof. unfold qle. intros H. apply Qle_bool_iff in H. apply Qle_Rle. exact H. Qed.
Lemma qlt_R a b : qlt a b = true -> (Q2R a < Q2R b)%R.
Proof. unfold qlt. intros H. apply negb_true_iff in H. apply Qlt_Rlt. apply Qnot_le_lt. intros C. apply Qle_bool_iff in C. congruence. Qed.

Lemma Q2R0 : Q2R 0 = 0%R. Proof. unfold Q2R; cbn; lra. Qed.
Lemma Q2R4 : Q2R 4 = 4%R. Proof. unfold Q2R; cbn; lra. Qed.

Lemma sq_le_sqrt (r d2 : R) : (0 <= r)%R -> (r * r <= d2)%R -> (r <= sqrt d2)%R.
Proof. intros Hr H. rewrite <- (sqrt_square r Hr). apply sqrt_le_1; [apply Rle_0_sqr | nra | exact H]. Qed.

Lemma ball_ok_transfer n T t rho0 m : ball_ok_q n T t rho0 m = true -> length T = n ->
  ball_ok (map Q2R T) (Q2R t) (toR m) /\ (Q2R rho0 + Q2R (qrho m) <= norm (vsub (map Q2R T) (map Q2R (qpt m))) \/ Q2R rho0 < 0)%R.
Proof.
  unfold ball_ok_q. intros H LT. repeat (apply andb_true_iff in H as [H ?]).
  rename H into HL. apply Nat.eqb_eq in HL.
  match goal with H1 : qlt 0 (qrho m) = true |- _ => apply qlt_R in H1; rename H1 into Hrho end.
  repeat match goal with Hx : qle _ _ = true |- _ => apply qle_R in Hx end.
  repeat first [rewrite Q2R_mult in * | rewrite Q2R_plus in * | rewrite Q2R_minus in * | rewrite Q2R_nsq in * | rewrite Q2R_vsub in * | rewrite Q2R0 in * | rewrite Q2R4 in *].
  set (r := Q2R (qrho m)) in *. set (d2 := nsq (vsub (map Q2R T) (map Q2R (qpt m)))) in *.
  set (d := norm (vsub (map Q2R T) (map Q2R (qpt m)))).
  assert (Hd2 : (d * d = d2)%R) by (subst d d2; apply norm_sq). assert (Hd : (0 <= d)%R) by (subst d; apply norm_nonneg).
  split.
  - unfold ball_ok, toR. cbn [mrho mf mpt]. fold d. split; [exact Hrho|]. split.
    + fold r. destruct (Rle_or_lt r d); [assumption | nra].
    + split; [|rewrite !map_length; congruence].
      (* f <= (r - d)^2 + t  from  0 <= K and 4 r^2 d^2 <= K^2 with K = r^2 + d^2 + t - f *)
      match goal with HK : (0 <= _ + _ + _ - _)%R |- _ => rename HK into K0 end.
      match goal with HQ : (4 * _ * _ <= _)%R |- _ => rename HQ into K2 end.
      set (K := (r * r + d2 + Q2R t - Q2R (qf m))%R) in *.
      assert (P : (2 * r * d <= K)%R).
      { assert (S : ((2 * r * d) * (2 * r * d) <= K * K)%R) by (rewrite <- Hd2 in K2; nra).
        assert (0 <= 2 * r * d)%R by nra. destruct (Rle_or_lt (2 * r * d) K); [assumption | nra]. }
      fold r. unfold K in P. rewrite <- Hd2 in P. nra.
  - left. fold r d.
    match goal with HX : ((Q2R rho0 + r) * (Q2R rho0 + r) <= d2)%R |- _ => rename HX into Hs end.
    destruct (Rle_or_lt (Q2R rho0 + r) d); [assumption | nra].
Qed.

Lemma disjoint_q_pairs pre : forall m post, disjoint_q (pre ++ m :: post) = true ->
  forall q, In q pre -> qle ((qrho q + qrho m) * (qrho q + qrho m)) (qnsq (qvsub (qpt q) (qpt m))) = true.
Proof.
  induction pre as [|p pre IH]; intros m post H q Hq; [destruct Hq|].
  cbn [app disjoint_q] in H. apply andb_true_iff in H as [H1 H2]. destruct Hq as [<-|Hq].
  - rewrite forallb_forall in H1. apply H1. apply in_or_app. right. left. reflexivity.
  - apply (IH m post H2 q Hq).
Qed.

Lemma Qeq_bool_R a b : Qeq_bool a b = true -> Q2R a = Q2R b.
Proof. intros H. apply Qeq_bool_iff in H. apply Qeq_eqR. exact H. Qed.

(* a parameter set accepted by the rational predicate defines (through Q2R) a real function with the promised structure *)
Theorem wf_certifies n T t rho0 ms gd2lo gd2hi grad : wf_q n T t rho0 ms gd2lo gd2hi grad = true -> length T = n ->
  (* nowhere below the global value -1 *)
  (forall x, length x = n -> (-1 <= gkls (map Q2R T) (Q2R t) (map toR ms) x)%R) /\
  (* every prescribed minimiser takes exactly its prescribed value; the first one is the global minimiser with value -1,
     all others are strictly higher *)
  (forall pre m post, ms = pre ++ m :: post -> gkls (map Q2R T) (Q2R t) (map toR ms) (map Q2R (qpt m)) = Q2R (qf m)) /\
  (exists g rest, ms = g :: rest /\ Q2R (qf g) = (-1)%R /\ Q2R (qrho g) = Q2R grad /\
                  Forall (fun m => (-1 < Q2R (qf m))%R) rest /\
                  (Q2R gd2lo <= nsq (vsub (map Q2R T) (map Q2R (qpt g))) <= Q2R gd2hi)%R) /\
  (* all balls satisfy the hypotheses of the structure theorems *)
  Forall (ball_ok (map Q2R T) (Q2R t)) (map toR ms).
Proof.
  unfold wf_q. intros H LT. repeat (apply andb_true_iff in H as [H ?]).
  match goal with Hx : forallb (ball_ok_q n T t rho0) ms = true |- _ => rename Hx into HB end.
  match goal with Hx : disjoint_q ms = true |- _ => rename Hx into HD end.
  match goal with Hx : qlt (-1) t = true |- _ => apply qlt_R in Hx; rename Hx into Ht end.
  assert (M1 : Q2R (-1) = (-1)%R) by (unfold Q2R; cbn; lra). rewrite M1 in Ht.
  assert (BO : Forall (ball_ok (map Q2R T) (Q2R t)) (map toR ms)).
  { apply Forall_forall. intros mr Hm. apply in_map_iff in Hm as (m & <- & Hm). rewrite forallb_forall in HB.
    apply (ball_ok_transfer n T t rho0 m (HB m Hm) LT). }
  destruct ms as [|g rest]; [discriminate|].
  match goal with Hx : _ && _ && _ && _ && _ = true |- _ => rename Hx into HG end.
  repeat (apply andb_true_iff in HG as [HG ?]).
  match goal with Hx : forallb (fun m => qlt (-1) (qf m)) rest = true |- _ => rename Hx into HR end.
  apply Qeq_bool_R in HG. rewrite M1 in HG.
  assert (FR : Forall (fun m => (-1 < Q2R (qf m))%R) rest).
  { apply Forall_forall. intros m Hm. rewrite forallb_forall in HR. specialize (HR m Hm). apply qlt_R in HR. rewrite M1 in HR. exact HR. }
  split; [|split; [|split; [|exact BO]]].
  - intros x Lx. apply gkls_lower_bound; [exact BO | rewrite map_length; congruence | lra |].
    apply Forall_forall. intros mr Hm. apply in_map_iff in Hm as (m & <- & [<-|Hm]); cbn [mf toR]; [lra|].
    rewrite Forall_forall in FR. specialize (FR m Hm). lra.
  - intros pre m post E. rewrite E, map_app. cbn [map]. change (map Q2R (qpt m)) with (mpt (toR m)). change (Q2R (qf m)) with (mf (toR m)).
    apply gkls_at_minimiser.
    + rewrite forallb_forall in HB. assert (Hm : In m (g :: rest)) by (rewrite E; apply in_or_app; right; left; reflexivity).
      destruct (ball_ok_transfer n T t rho0 m (HB m Hm) LT) as [(Hr & _) _]. cbn [mrho toR] in *. lra.
    + apply Forall_forall. intros qr Hq. apply in_map_iff in Hq as (q & <- & Hq). cbn [mrho mpt toR].
      rewrite E in HD. pose proof (disjoint_q_pairs pre m post HD q Hq) as P. apply qle_R in P.
      rewrite Q2R_mult, !Q2R_plus, Q2R_nsq, Q2R_vsub in P.
      rewrite forallb_forall in HB. assert (Hm : In m (g :: rest)) by (rewrite E; apply in_or_app; right; left; reflexivity).
      destruct (ball_ok_transfer n T t rho0 m (HB m Hm) LT) as [(Hrm & _) _]. cbn [mrho toR] in Hrm.
      assert (Hq' : In q (g :: rest)) by (rewrite E; apply in_or_app; left; exact Hq).
      destruct (ball_ok_transfer n T t rho0 q (HB q Hq') LT) as [(Hrq & _) _]. cbn [mrho toR] in Hrq.
      set (dd := norm (vsub (map Q2R (qpt q)) (map Q2R (qpt m)))). pose proof (norm_nonneg (vsub (map Q2R (qpt q)) (map Q2R (qpt m)))) as Hn. fold dd in Hn.
      assert (Hs : (dd * dd = nsq (vsub (map Q2R (qpt q)) (map Q2R (qpt m))))%R) by (subst dd; apply norm_sq). rewrite <- Hs in P.
      destruct (Rle_or_lt dd (Q2R (qrho q))); [nra | assumption].
  - exists g, rest. split; [reflexivity|]. split; [exact HG|]. split.
    + match goal with Hx : Qeq_bool (qrho g) grad = true |- _ => apply Qeq_bool_R in Hx; exact Hx end.
    + split; [exact FR|]. rewrite <- Q2R_vsub, <- Q2R_nsq. split; apply qle_R; assumption.
Qed.
