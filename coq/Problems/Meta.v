(* Well-formedness of problem metadata (C18a): a decidable predicate evaluated by the kernel on the dump of every
   constructed instance of the finite families, and proved for the parametric families for every dimension. *)
From Coq Require Import ZArith QArith List Bool Lia.
Import ListNotations.

Record meta := mkMeta {
  m_dim : nat; m_names : nat; m_lower : list Q; m_upper : list Q; m_objectives : nat; m_optimum : list Q
}.

Fixpoint all2 (f : Q -> Q -> bool) (a b : list Q) : bool :=
  match a, b with [], [] => true | x :: a', y :: b' => f x y && all2 f a' b' | _, _ => false end.
Definition qlt (a b : Q) : bool := negb (Qle_bool b a).

Definition wf_meta (m : meta) : bool :=
  Nat.leb 1 (m_dim m) && Nat.eqb (m_names m) (m_dim m) && Nat.eqb (length (m_lower m)) (m_dim m) && Nat.eqb (length (m_upper m)) (m_dim m) &&
  all2 qlt (m_lower m) (m_upper m) && Nat.eqb (m_objectives m) 1 && Nat.eqb (length (m_optimum m)) (m_dim m) &&
  all2 Qle_bool (m_lower m) (m_optimum m) && all2 Qle_bool (m_optimum m) (m_upper m).

(* constructors of the parametric families: dimension n, n names, bounds filled with constants, optimum at the origin *)
Definition rastrigin_meta (n : nat) : meta := mkMeta n n (repeat (-22 # 10) n) (repeat (18 # 10) n) 1 (repeat 0 n).
Definition xsquared_meta (n : nat) : meta := mkMeta n n (repeat (-1) n) (repeat 1 n) 1 (repeat 0 n).

Lemma all2_repeat f a b n : f a b = true -> all2 f (repeat a n) (repeat b n) = true.
Proof. intros H. induction n as [|n IH]; cbn; [reflexivity | rewrite H, IH; reflexivity]. Qed.

Theorem parametric_meta_ok n : (1 <= n)%nat -> wf_meta (rastrigin_meta n) = true /\ wf_meta (xsquared_meta n) = true.
Proof.
  intros H. unfold wf_meta, rastrigin_meta, xsquared_meta. cbn [m_dim m_names m_lower m_upper m_objectives m_optimum].
  rewrite !repeat_length, !Nat.eqb_refl. assert (E : Nat.leb 1 n = true) by (apply Nat.leb_le; exact H). rewrite E.
  rewrite !all2_repeat by reflexivity. split; reflexivity.
Qed.
