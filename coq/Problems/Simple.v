(* Rastrigin and XSquared in EVERY dimension: the declared optimum (the origin, value 0) is the unique global minimiser.
   The point is a list of coordinates; the functions mirror the accumulation of the source
   (sum += x_i * x_i - 10 cos(2 pi x_i) + 10, resp. sum += x_i * x_i). *)
From Coq Require Import Reals List Lra.
Import ListNotations.
Open Scope R_scope.

Definition rastrigin_step (s : R) (x : R) : R := (s + (((x * x) - (10 * (cos ((2 * PI) * x)))) + 10)).
Definition rastrigin (xs : list R) : R := fold_left rastrigin_step xs 0.
Definition xsquared_step (s : R) (x : R) : R := (s + (x * x)).
Definition xsquared (xs : list R) : R := fold_left xsquared_step xs 0.

Lemma fold_shift (step : R -> R -> R) (g : R -> R) (Hs : forall s x, step s x = s + g x) xs : forall s, fold_left step xs s = s + fold_left step xs 0.
Proof.
  induction xs as [|x xs IH]; intros s; cbn [fold_left]; [lra|]. rewrite IH, (IH (step 0 x)), !Hs. lra.
Qed.

Definition rterm (x : R) : R := ((x * x) - (10 * (cos ((2 * PI) * x)))) + 10.
Lemma rterm_nonneg x : 0 <= rterm x.
Proof. unfold rterm. pose proof (COS_bound (2 * PI * x)) as [_ H]. assert (0 <= x * x) by (apply Rle_0_sqr). lra. Qed.
Lemma rterm_zero x : rterm x = 0 -> x = 0.
Proof.
  unfold rterm. intros H. pose proof (COS_bound (2 * PI * x)) as [_ Hc]. assert (Hx : 0 <= x * x) by (apply Rle_0_sqr).
  assert (x * x = 0) by lra. apply Rmult_integral in H0. destruct H0; assumption.
Qed.

Lemma rastrigin_cons x xs : rastrigin (x :: xs) = rterm x + rastrigin xs.
Proof. unfold rastrigin. cbn [fold_left]. rewrite (fold_shift rastrigin_step rterm) by (intros; reflexivity). unfold rastrigin_step, rterm. lra. Qed.

(* value at the declared optimum, global lower bound, uniqueness of the minimiser - for every dimension *)
Theorem rastrigin_at_origin n : rastrigin (repeat 0 n) = 0.
Proof. induction n as [|n IH]; [reflexivity|]. cbn [repeat]. rewrite rastrigin_cons, IH. unfold rterm. replace (2 * PI * 0) with 0 by ring. rewrite cos_0. lra. Qed.
Theorem rastrigin_nonneg xs : 0 <= rastrigin xs.
Proof. induction xs as [|x xs IH]; [unfold rastrigin; cbn; lra|]. rewrite rastrigin_cons. pose proof (rterm_nonneg x). lra. Qed.
Theorem rastrigin_unique_minimiser xs : rastrigin xs = 0 -> xs = repeat 0 (length xs).
Proof.
  induction xs as [|x xs IH]; [reflexivity|]. rewrite rastrigin_cons. intros H.
  pose proof (rterm_nonneg x). pose proof (rastrigin_nonneg xs). cbn [length repeat]. f_equal; [apply rterm_zero; lra | apply IH; lra].
Qed.

Lemma xsquared_cons x xs : xsquared (x :: xs) = x * x + xsquared xs.
Proof. unfold xsquared. cbn [fold_left]. rewrite (fold_shift xsquared_step (fun x => x * x)) by (intros; reflexivity). unfold xsquared_step. lra. Qed.
Theorem xsquared_at_origin n : xsquared (repeat 0 n) = 0.
Proof. induction n as [|n IH]; [reflexivity|]. cbn [repeat]. rewrite xsquared_cons, IH. lra. Qed.
Theorem xsquared_nonneg xs : 0 <= xsquared xs.
Proof. induction xs as [|x xs IH]; [unfold xsquared; cbn; lra|]. rewrite xsquared_cons. assert (0 <= x * x) by (apply Rle_0_sqr). lra. Qed.
Theorem xsquared_unique_minimiser xs : xsquared xs = 0 -> xs = repeat 0 (length xs).
Proof.
  induction xs as [|x xs IH]; [reflexivity|]. rewrite xsquared_cons. intros H.
  assert (0 <= x * x) by (apply Rle_0_sqr). pose proof (xsquared_nonneg xs). cbn [length repeat].
  f_equal; [assert (E : x * x = 0) by lra; apply Rmult_integral in E; destruct E; assumption | apply IH; lra].
Qed.

(* the origin lies strictly inside the declared boxes [-2.2, 1.8]^n and [-1, 1]^n *)
Lemma origin_in_boxes : -2.2 < 0 < 1.8 /\ -1 < 0 < 1. Proof. lra. Qed.
