(* Generic definitions of the one-dimensional benchmark families with their derivatives, proved once.
   A per-instance file (generated on every run from the Calculate source and the tables) proves by reflexivity that
   the closed-form expression obtained from the source equals the generic function on that instance's table. *)
From Coq Require Import Reals List Lra.
From Coquelicot Require Import Coquelicot.
Import ListNotations.
Open Scope R_scope.

(* Hill: res = res + a_i sin(2 i pi x) + b_i cos(2 i pi x), accumulated left to right from 0; the table carries w = 2 i *)
Definition hill_step (x : R) (res : R) (t : Z * R * R) : R :=
  let '(w, a, b) := t in ((res + (a * (sin ((IZR w * PI) * x)))) + (b * (cos ((IZR w * PI) * x)))).
Definition hill (l : list (Z * R * R)) (x : R) : R := fold_left (hill_step x) l 0.

Definition dhill_step (x : R) (res : R) (t : Z * R * R) : R :=
  let '(w, a, b) := t in ((res + (a * ((IZR w * PI) * cos ((IZR w * PI) * x)))) - (b * ((IZR w * PI) * sin ((IZR w * PI) * x)))).
Definition dhill (l : list (Z * R * R)) (x : R) : R := fold_left (dhill_step x) l 0.

Lemma hill_derive_gen l : forall (g dg : R -> R) x, is_derive g x (dg x) ->
  is_derive (fun y => fold_left (hill_step y) l (g y)) x (fold_left (dhill_step x) l (dg x)).
Proof.
  induction l as [|[[i a] b] l IH]; intros g dg x H; cbn [fold_left]; [exact H|].
  apply (IH (fun y => hill_step y (g y) (i, a, b)) (fun y => dhill_step y (dg y) (i, a, b))).
  unfold hill_step, dhill_step. generalize (IZR i). intros w. auto_derive; [exists (dg x); exact H|].
  assert (E : Derive (fun x0 : R => g x0) x = dg x) by (apply is_derive_unique; exact H). rewrite E. ring.
Qed.

Theorem hill_derive l x : is_derive (hill l) x (dhill l x).
Proof. unfold hill, dhill. apply (hill_derive_gen l (fun _ => 0) (fun _ => 0)). auto_derive; [exact I | reflexivity]. Qed.

(* Shekel: res = res - 1 / (k (x - a)^2 + c) *)
Definition shekel_step (x : R) (res : R) (t : R * R * R) : R :=
  let '(k, a, c) := t in (res - (1 / ((k * ((x - a) ^ 2)) + c))).
Definition shekel (l : list (R * R * R)) (x : R) : R := fold_left (shekel_step x) l 0.

Definition dshekel_step (x : R) (res : R) (t : R * R * R) : R :=
  let '(k, a, c) := t in (res + ((k * (2 * (x - a))) / (((k * ((x - a) ^ 2)) + c) * ((k * ((x - a) ^ 2)) + c)))).
Definition dshekel (l : list (R * R * R)) (x : R) : R := fold_left (dshekel_step x) l 0.

Definition pos_table (l : list (R * R * R)) : Prop := List.Forall (fun t => let '(k, a, c) := t in 0 <= k /\ 0 < c) l.

Lemma shekel_den_pos k a c x : 0 <= k -> 0 < c -> 0 < k * (x - a) ^ 2 + c.
Proof. intros Hk Hc. assert (0 <= (x - a) ^ 2) by (apply pow2_ge_0). assert (0 <= k * (x - a) ^ 2) by (apply Rmult_le_pos; assumption). lra. Qed.

Lemma shekel_derive_gen l : pos_table l -> forall (g dg : R -> R) x, is_derive g x (dg x) ->
  is_derive (fun y => fold_left (shekel_step y) l (g y)) x (fold_left (dshekel_step x) l (dg x)).
Proof.
  induction l as [|[[k a] c] l IH]; intros P g dg x H; cbn [fold_left]; [exact H|].
  unfold pos_table in P. inversion P as [|? ? Hhd P']; subst. cbn in Hhd. destruct Hhd as [Hk Hc].
  apply (IH P' (fun y => shekel_step y (g y) (k, a, c)) (fun y => dshekel_step y (dg y) (k, a, c))).
  unfold shekel_step, dshekel_step. pose proof (shekel_den_pos k a c x Hk Hc) as Hd.
  auto_derive.
  - split; [exists (dg x); exact H|]. split; [|exact I]. apply Rgt_not_eq. replace (k * ((x + - a) * ((x + - a) * 1)) + c) with (k * (x - a) ^ 2 + c) by ring. exact Hd.
  - assert (E : Derive (fun x0 : R => g x0) x = dg x) by (apply is_derive_unique; exact H). rewrite E. field. apply Rgt_not_eq. replace (k * (x + - a) ^ 2 + c) with (k * (x - a) ^ 2 + c) by ring. exact Hd.
Qed.

Theorem shekel_derive l x : pos_table l -> is_derive (shekel l) x (dshekel l x).
Proof. intros P. unfold shekel, dshekel. apply (shekel_derive_gen l P (fun _ => 0) (fun _ => 0)). auto_derive; [exact I | reflexivity]. Qed.
