(* C19 - search-data containers act as an ordered set plus max-priority queues. Only statements. *)
From Coq Require Import ZArith List Bool.
From IOptV Require Import AGP.Ops AGP.Impl AGP.Laws AGP.Invariant Containers.SData Containers.SDataProps gen.SourceFacts AGP.Skeleton AGP.QOps.
Import ListNotations.

Section C19.
Context {T : Type} (o : Ops T) (L : OrdLaws o).

(* both queues stay sorted (descending, stable) under ANY finite sequence of container operations *)
Theorem C19_queues_sorted_under_any_history : forall ops s s' rs, Qs o s -> run o s ops = (s', rs) -> Qs o s'.
Proof. exact (run_keeps_sorted o L). Qed.

(* single queue: a best-interval request returns an item whose queued characteristic is maximal *)
Theorem C19_best_is_max_queued : forall s s' u, dual s = false -> Qs o s -> apply o s GetBestG = (s', RItem u) ->
  exists pr, (match gq s with [] => q_refill o (maxlen s) cR (items s) | _ => gq s end) = (pr, u) :: gq s' /\
             (forall e, In e (gq s') -> leb o (fst e) pr = true) /\ Qs o s' /\ items s' = items s.
Proof. exact (best_single_is_max o L). Qed.

(* dual queue: the returned entry is current (its priority equals the item's present characteristic) and no entry
   left in the queue is larger; stale entries were discarded, an exhausted queue was refilled *)
Theorem C19_dual_best_is_current_max : forall s s' u, dual s = true -> Qs o s -> apply o s GetBestG = (s', RItem u) ->
  exists pr it, find_item (items s') u = Some it /\ keq o pr (cR it) = true /\
                (forall e, In e (gq s') -> leb o (fst e) pr = true) /\ Qs o s' /\ items s' = items s.
Proof. exact (best_dual_is_current_max o L). Qed.

(* bounded queue: whatever the bound cuts off is not larger than anything kept *)
Theorem C19_bounded_keeps_highest : forall m q p u, qsorted o q ->
  forall kept dropped, In kept (bq_insert o (Some m) q p u) -> In dropped (skipn m (pq_insert o q p u)) -> leb o (fst dropped) (fst kept) = true.
Proof. exact (bounded_keeps_highest o L). Qed.

(* covering-interval lookup returns the first item to the right of the query *)
Theorem C19_lookup_first_to_the_right : forall l x r, find_right o l x = Some r ->
  exists A B, l = A ++ r :: B /\ ltb o x (cx r) = true /\ (forall a, In a A -> leb o (cx a) x = true).
Proof. exact (find_right_is_covering o L). Qed.

(* insertion strictly between its neighbours keeps the traversal strictly increasing; count grows by one *)
Theorem C19_insert_keeps_order : forall (l : list (citem (T := T))) u n r A B, l = A ++ r :: B -> insert_before l u n = A ++ n :: r :: B ->
  xsorted o l -> ltb o (cx n) (cx r) = true -> (forall p A', A = A' ++ [p] -> ltb o (cx p) (cx n) = true) -> xsorted o (insert_before l u n).
Proof. exact (insert_keeps_order o). Qed.

Theorem C19_insert_position : forall (l : list (citem (T := T))) u n r, find_item l u = Some r ->
  exists A B, l = A ++ r :: B /\ insert_before l u n = A ++ n :: r :: B /\ cuid r = u /\ (forall a, In a A -> cuid a <> u).
Proof. exact insert_before_spec. Qed.

Theorem C19_insert_count : forall s n hint s', apply o s (Insert n hint) = (s', RNone) ->
  ninserted s' = S (ninserted s) /\ length (items s') = S (length (items s)).
Proof. exact (insert_count o). Qed.
End C19.
Print Assumptions C19_queues_sorted_under_any_history.
Print Assumptions C19_best_is_max_queued.
Print Assumptions C19_dual_best_is_current_max.
Print Assumptions C19_bounded_keeps_highest.
Print Assumptions C19_lookup_first_to_the_right.
Print Assumptions C19_insert_keeps_order.
Print Assumptions C19_insert_position.
Print Assumptions C19_insert_count.

Theorem C19_skeleton_tie :
  sk_SearchData_InsertDataItem = expected_sk_SearchData_InsertDataItem /\ sk_SearchData_InsertFirstDataItem = expected_sk_SearchData_InsertFirstDataItem /\
  sk_SearchData_GetDataItemWithMaxGlobalR = expected_sk_SearchData_GetDataItemWithMaxGlobalR /\ sk_SearchData_RefillQueue = expected_sk_SearchData_RefillQueue /\
  sk_SearchData_ClearQueue = expected_sk_SearchData_ClearQueue /\ sk_SearchData_FindDataItemByOneDimensionalPoint = expected_sk_SearchData_FindDataItemByOneDimensionalPoint /\
  sk_SearchData_GetCount = expected_sk_SearchData_GetCount /\ sk_SearchData_iter = expected_sk_SearchData_iter /\ sk_SearchData_next = expected_sk_SearchData_next /\
  sk_SearchData_init = expected_sk_SearchData_init /\ methods_SearchData = expected_methods_SearchData /\
  sk_CharacteristicsQueue_init = expected_sk_CharacteristicsQueue_init /\ sk_CharacteristicsQueue_Insert = expected_sk_CharacteristicsQueue_Insert /\
  sk_CharacteristicsQueue_GetBestItem = expected_sk_CharacteristicsQueue_GetBestItem /\ sk_CharacteristicsQueue_Clear = expected_sk_CharacteristicsQueue_Clear /\
  methods_CharacteristicsQueue = expected_methods_CharacteristicsQueue.
Proof. repeat split; reflexivity. Qed.
Print Assumptions C19_skeleton_tie.
