(* C13 - listener contract: complete, ordered, non-interfering notification. Only statements. *)
From Coq Require Import ZArith List Bool.
From IOptV Require Import AGP.Ops gen.MethodGen AGP.Impl AGP.Termination Driver.Listener gen.SourceFacts AGP.Skeleton.
Import ListNotations.

Section C13.
Context {T : Type} (o : Ops T).
Variable p : params (T := T).
Variable ans : nat -> answer T.

(* for every script of DoGlobalIteration calls: one notification per call carrying exactly the new trials of that
   call in order; their concatenation is the trial sequence *)
Theorem C13_one_notification_per_call_with_its_trials : forall ks s s' ev, calls_trace o p ans ks s = (s', ev, false) ->
  exists xs, steps o p ans (fold_right Nat.add 0%nat ks) s = Some (s', xs) /\ concat (ends ev) = xs /\ length (ends ev) = length ks.
Proof. exact (calls_trace_spec o p ans). Qed.

Theorem C13_before_start_once : forall k s s' ev, global_call o p ans k s = (s', ev, false) ->
  exists xs, steps o p ans k s = Some (s', xs) /\ ends ev = [xs] /\ befores ev = (if firstflag s && negb (Nat.eqb k 0) then 1 else 0)%nat.
Proof. exact (global_call_spec o p ans). Qed.
End C13.
Print Assumptions C13_one_notification_per_call_with_its_trials.
Print Assumptions C13_before_start_once.

(* every call site passes what the base-class callbacks accept; listeners receive the new points and the solution and
   nothing in the shipped listeners / output code writes through what it receives; the state machine takes no input
   from listeners (recorded skeletons of DoGlobalIteration / Solve) *)
Theorem C13_source_protocol :
  listener_arity_ok = true /\ listener_calls = expected_listener_calls /\ listener_base_arity = expected_listener_base_arity /\
  listener_writes_through_received = [] /\
  sk_Process_DoGlobalIteration = expected_sk_Process_DoGlobalIteration /\ sk_Process_Solve = expected_sk_Process_Solve /\
  sk_Process_GetResults = expected_sk_Process_GetResults.
Proof. repeat split; reflexivity. Qed.
Print Assumptions C13_source_protocol.
