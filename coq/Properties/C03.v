(* C03 - termination, stop criterion and trial budget. Only statements. *)
From Coq Require Import ZArith List Bool.
From IOptV Require Import AGP.Ops gen.MethodGen AGP.Impl AGP.Laws AGP.Termination gen.SourceFacts AGP.Skeleton AGP.QOps.
Import ListNotations.

Section C03.
Context {T : Type} (o : Ops T).
Variable p : params (T := T).
Variable ans : nat -> answer T.

(* Solve terminates (the loop never runs out of its fuel itersLimit - iterations + 1) and returns exactly what the
   relation Solves describes: it stops at the FIRST state where the stop rule holds (every earlier state had
   stop = false), or at the first failing step *)
Theorem C03_solve_terminates_and_is_first_stop : forall s, WF s ->
  exists s' bs e, solve o p s ans = (s', bs, e, false) /\ Solves o p ans s s' (concat bs) e /\ Forall (fun l => length l = 1%nat) bs.
Proof. exact (solve_sound o p ans). Qed.

Theorem C03_initial_state_well_formed : WF (init_st o).
Proof. exact (WF_init o). Qed.

(* never earlier: a Solve that ends without an exception ends in a state satisfying the stop rule *)
Theorem C03_stops_only_when_criterion_holds : forall s s' xs, Solves o p ans s s' xs false -> stop o p s' = true.
Proof. intros s s' xs H. exact (Solves_stops o p ans s s' xs false H eq_refl). Qed.

(* the stop rule is: accuracy below eps, or budget exhausted *)
Theorem C03_stop_rule : forall s, stop o p s = ltb o (mind s) (p_eps p) || Z.leb (p_lim p) (iters s).
Proof. intros s. unfold stop. apply stop_spec. Qed.

(* one counted trial per successful objective evaluation *)
Theorem C03_trials_equal_evaluations : forall s s' xs e, Solves o p ans s s' xs e -> ntr s' = (ntr s + Z.of_nat (length xs))%Z.
Proof. exact (Solves_counts o p ans). Qed.

(* the accuracy estimate is the running minimum (python min) of the lengths of the subdivided intervals *)
Theorem C03_accuracy_is_min_of_subdivided : forall s a s' x, iteration o p s a = (s', Done x) ->
  exists d, mind s' = pymin o d (mind s).
Proof. intros s a s' x H. destruct (iteration_done o p s a s' x H) as (z & _ & _ & _ & _ & _ & _ & d & E). exists d. exact E. Qed.
End C03.

Print Assumptions C03_solve_terminates_and_is_first_stop.
Print Assumptions C03_initial_state_well_formed.
Print Assumptions C03_stops_only_when_criterion_holds.
Print Assumptions C03_stop_rule.
Print Assumptions C03_trials_equal_evaluations.
Print Assumptions C03_accuracy_is_min_of_subdivided.

(* with the order laws: min(d, m) < eps  iff  d < eps or m < eps, so the accuracy test fires exactly when some
   subdivided interval was shorter than eps; and the trial count never exceeds the budget *)
Theorem C03_accuracy_test_iff : forall {T} (o : Ops T), OrdLaws o -> forall d m e, ltb o (pymin o d m) e = ltb o d e || ltb o m e.
Proof. intros T o L. exact (pymin_lt_iff o L). Qed.
Print Assumptions C03_accuracy_test_iff.

Theorem C03_skeleton_tie :
  sk_Process_Solve = expected_sk_Process_Solve /\ sk_Process_DoGlobalIteration = expected_sk_Process_DoGlobalIteration /\
  sk_Method_CheckStopCondition = expected_sk_Method_CheckStopCondition /\ sk_Method_FinalizeIteration = expected_sk_Method_FinalizeIteration /\
  sk_Method_CalculateFunctionals = expected_sk_Method_CalculateFunctionals /\ sk_Method_init = expected_sk_Method_init /\
  sk_Method_CalculateIterationPoint = expected_sk_Method_CalculateIterationPoint /\ gen_init_ok = true.
Proof. repeat split; reflexivity. Qed.
Print Assumptions C03_skeleton_tie.
