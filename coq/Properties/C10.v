(* C10 - the declared optimum of every benchmark instance is its true global minimum.
   This file holds the statements that are proved once (for every dimension / every table); the per-instance
   statements (value at the declared point, global lower bound, separation outside the 0.5% neighbourhood) are
   generated from the source on every run and closed by the interval tactic: see vlib/bench.py, the evidence file
   lists which instances were proved in a run. *)
From Coq Require Import Reals List Lra.
From Coquelicot Require Import Coquelicot.
From IOptV Require Import Problems.Families Problems.Simple gen.SourceFacts.
Import ListNotations.
Open Scope R_scope.

(* Rastrigin, every dimension: value 0 at the origin, no point is lower, the origin is the only minimiser *)
Theorem C10_rastrigin_all_dimensions : forall xs, 0 <= rastrigin xs /\ rastrigin (repeat 0 (length xs)) = 0 /\ (rastrigin xs = 0 -> xs = repeat 0 (length xs)).
Proof. intros xs. split; [apply rastrigin_nonneg|]. split; [apply rastrigin_at_origin | apply rastrigin_unique_minimiser]. Qed.
Print Assumptions C10_rastrigin_all_dimensions.

Theorem C10_xsquared_all_dimensions : forall xs, 0 <= xsquared xs /\ xsquared (repeat 0 (length xs)) = 0 /\ (xsquared xs = 0 -> xs = repeat 0 (length xs)).
Proof. intros xs. split; [apply xsquared_nonneg|]. split; [apply xsquared_at_origin | apply xsquared_unique_minimiser]. Qed.
Print Assumptions C10_xsquared_all_dimensions.

(* the generic Hill / Shekel functions are differentiable with the stated derivatives (used by the per-instance
   location and Lipschitz statements) *)
Theorem C10_hill_derivative : forall l x, is_derive (hill l) x (dhill l x).
Proof. exact hill_derive. Qed.
Print Assumptions C10_hill_derivative.
Theorem C10_shekel_derivative : forall l x, pos_table l -> is_derive (shekel l) x (dshekel l x).
Proof. exact shekel_derive. Qed.
Print Assumptions C10_shekel_derivative.

(* an instance is the function its tables describe whatever else lives in the process: no class-level / module-level mutable state, nothing memoised *)
Theorem C10_no_shared_state : class_level_mutables = List.nil /\ module_level_mutables = List.nil /\ memoised_functions = List.nil.
Proof. repeat split; reflexivity. Qed.
Print Assumptions C10_no_shared_state.
