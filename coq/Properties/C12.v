(* C12 - solver instances are isolated from one another. Only statements. *)
From Coq Require Import List Bool Arith.
From IOptV Require Import Driver.Isolation gen.SourceFacts AGP.Skeleton.
Import ListNotations.

(* the state (trial sequence, search information) of solver i after ANY interleaving of the steps of any number of
   solvers equals its state after its own steps alone *)
Theorem C12_state_isolated : forall (S B : Type) (step : S -> S) (best_of : S -> B) pol sched w i,
  states S B (run S B step best_of pol w sched) i = states S B (run S B step best_of pol w (own i sched)) i.
Proof. exact state_isolated. Qed.
Print Assumptions C12_state_isolated.

(* when no mutable object is shared between instances, so is the published result (Solution) *)
Theorem C12_result_isolated_when_nothing_is_shared : forall (S B : Type) (step : S -> S) (best_of : S -> B) sched w i, In i sched ->
  result S B Fresh (run S B step best_of Fresh w sched) i = result S B Fresh (run S B step best_of Fresh w (own i sched)) i.
Proof. exact result_isolated_fresh. Qed.
Print Assumptions C12_result_isolated_when_nothing_is_shared.

(* the model is able to exhibit the failure: with a shared default object isolation is false *)
Theorem C12_shared_default_breaks_isolation :
  exists (step : nat -> nat) (w : world nat nat) (sched : list nat),
    result nat nat SharedDefault (run nat nat step (fun s => s) SharedDefault w sched) 0 <>
    result nat nat SharedDefault (run nat nat step (fun s => s) SharedDefault w (own 0 sched)) 0.
Proof. exact isolation_refuted_shared. Qed.
Print Assumptions C12_shared_default_breaks_isolation.

(* the source allocates according to the Fresh policy: no mutable default argument anywhere in iOpt/ is written through,
   no class-level or module-level mutable state, each Solver builds its own components from its own arguments *)
Theorem C12_source_policy_is_fresh :
  mutable_defaults_written = [] /\ class_level_mutables = [] /\ module_level_mutables = [] /\
  process_global_state_calls = [] /\ memoised_functions = [] /\ evolvent_module_state = [] /\ configuration_object_writes = [] /\      (* no process-wide numeric/warning state is set, nothing is memoised *)
  solver_components = expected_solver_components /\ sk_SearchData_init = expected_sk_SearchData_init /\
  sk_Method_init = expected_sk_Method_init /\ sk_Process_init = expected_sk_Process_init.
Proof. repeat split; reflexivity. Qed.
Print Assumptions C12_source_policy_is_fresh.
