(* C20 - the configured evolvent density is honoured. Only statements. *)
From Coq Require Import ZArith QArith List String Lia.
From IOptV Require Import gen.SourceFacts Evolvent.Ev Evolvent.Adj Evolvent.Bij Evolvent.Curve Evolvent.Image Evolvent.Dims Evolvent.Bridge.
Import ListNotations.
Open Scope Z_scope.

(* every coordinate of an image at density m is lower + (j + 1/2)(upper - lower)/2^m with 0 <= j < 2^m *)
Theorem C20_coordinate_on_density_grid : forall m lo hi c,
  (box_coord m lo hi c == lo + (inject_Z c + (1 # 2)) * (hi - lo) / inject_Z (2 ^ Z.of_nat m))%Q.
Proof. exact box_coord_grid. Qed.
Print Assumptions C20_coordinate_on_density_grid.

Theorem C20_image_cells_in_density_grid : forall n m i, dim_ok n -> 0 <= i < B n m ->
  List.length (cellI n m i) = n /\ inrange (2 ^ Z.of_nat m) (cellI n m i).
Proof. intros n m i H. exact (cellI_in_grid n (all_ok_dim n H) m i). Qed.
Print Assumptions C20_image_cells_in_density_grid.

(* the generated constructor stores the density it is given, for every density 0..12 and dimension 1..5 *)
Theorem C20_constructor_keeps_density : forallb (fun n => forallb (new_ok n) (seq 0 13)) [1; 2; 3; 4; 5]%nat = true.
Proof. exact gen_new_ok. Qed.
Print Assumptions C20_constructor_keeps_density.

(* the generated queries use that density (exhaustive small grids, different m) *)
Theorem C20_tie_generated_queries : forallb (fun nm => query_agrees (fst nm) (snd nm))
    [(2, 1); (2, 2); (2, 3); (2, 4); (3, 1); (3, 2); (3, 3); (4, 1); (4, 2); (5, 1); (5, 2)]%nat = true.
Proof. exact gen_queries_agree_small. Qed.
Print Assumptions C20_tie_generated_queries.

(* Solver hands its parameters' density (and the problem's bounds and dimension) to the Evolvent it creates *)
Open Scope string_scope.
Theorem C20_solver_passes_density : solver_evolvent_args =
  ["problem.lowerBoundOfFloatVariables"; "problem.upperBoundOfFloatVariables"; "problem.numberOfFloatVariables"; "parameters.evolventDensity"] /\
  evolvent_external_writes = [].      (* and nothing changes the density (or anything else) of that Evolvent afterwards *)
Proof. split; reflexivity. Qed.
Print Assumptions C20_solver_passes_density.
