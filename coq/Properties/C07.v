(* C07 - Evolvent visits every grid cell of the box exactly once.  Only statements; proofs live in Evolvent/. *)
From Coq Require Import ZArith QArith List Lia.
From IOptV Require Import Evolvent.Ev Evolvent.Adj Evolvent.Bij Evolvent.Curve Evolvent.Image Evolvent.Dims Evolvent.Bridge.
Import ListNotations.
Open Scope Z_scope.

(* every subinterval i of the 2^(N m) maps to a cell of the grid with 2^m cells per axis *)
Theorem C07_image_is_grid_cell : forall n m i, dim_ok n -> 0 <= i < B n m ->
  length (cellI n m i) = n /\ inrange (2 ^ Z.of_nat m) (cellI n m i).
Proof. intros n m i H. exact (cellI_in_grid n (all_ok_dim n H) m i). Qed.
Print Assumptions C07_image_is_grid_cell.

(* different subintervals give different cells, for EVERY density m *)
Theorem C07_distinct_subintervals_distinct_cells : forall n m i j, dim_ok n ->
  0 <= i < B n m -> 0 <= j < B n m -> cellI n m i = cellI n m j -> i = j.
Proof. intros n m i j H. exact (cellI_injective n (all_ok_dim n H) m i j). Qed.
Print Assumptions C07_distinct_subintervals_distinct_cells.

(* every cell of the grid is reached *)
Theorem C07_every_cell_reached : forall n m c, dim_ok n -> length c = n -> inrange (2 ^ Z.of_nat m) c ->
  exists i, 0 <= i < B n m /\ cellI n m i = c.
Proof. intros n m c H. exact (cellI_surjective n (all_ok_dim n H) m c). Qed.
Print Assumptions C07_every_cell_reached.

(* any point of the i-th subinterval is mapped like subinterval i; x = 1 belongs to the last one *)
Theorem C07_any_point_of_subinterval : forall n m i x, 0 <= i < B n m ->
  (inject_Z i / inject_Z (B n m) <= x)%Q -> (x < inject_Z (i + 1) / inject_Z (B n m))%Q ->
  sub_index n m x = i.
Proof. exact sub_index_spec. Qed.
Print Assumptions C07_any_point_of_subinterval.

Theorem C07_one_maps_to_last : forall n m, sub_index n m 1 = B n m - 1.
Proof. exact sub_index_one. Qed.
Print Assumptions C07_one_maps_to_last.

(* every image lies strictly inside the box, arbitrary bounds lower < upper *)
Theorem C07_image_in_box : forall n m lo hi x, dim_ok n -> length lo = n -> length hi = n -> Forall2 Qlt lo hi ->
  in_box lo hi (image n m lo hi x).
Proof. intros n m lo hi x H. exact (image_in_box n (all_ok_dim n H) m lo hi x). Qed.
Print Assumptions C07_image_in_box.

Theorem C07_dimension_one_affine : forall lo hi x, (lo < hi)%Q -> (0 <= x)%Q -> (x <= 1)%Q ->
  (image1 lo hi x == lo + (hi - lo) * x)%Q /\ (lo <= image1 lo hi x)%Q /\ (image1 lo hi x <= hi)%Q.
Proof. intros lo hi x H H0 H1. split; [apply image1_affine | apply image1_in_box; assumption]. Qed.
Print Assumptions C07_dimension_one_affine.

(* ties of the model to the code generated from evolvent.py (finite, complete enumerations) *)
Theorem C07_tie_generated_node : forallb node_agrees [2; 3; 4; 5]%nat = true.
Proof. exact gen_node_is_node. Qed.
Print Assumptions C07_tie_generated_node.
Theorem C07_tie_generated_queries : forallb (fun nm => query_agrees (fst nm) (snd nm))
    [(2, 1); (2, 2); (2, 3); (2, 4); (3, 1); (3, 2); (3, 3); (4, 1); (4, 2); (5, 1); (5, 2)]%nat = true.
Proof. exact gen_queries_agree_small. Qed.
Print Assumptions C07_tie_generated_queries.
Theorem C07_tie_generated_constructor : forallb (fun n => forallb (new_ok n) (seq 0 13)) [1; 2; 3; 4; 5]%nat = true.
Proof. exact gen_new_ok. Qed.
Print Assumptions C07_tie_generated_constructor.
Theorem C07_tie_generated_affine : forallb affine_agrees [0; 1; 1 # 2; 1 # 3; 7 # 8; 123 # 1000]%Q = true.
Proof. exact gen_affine_1d. Qed.
Print Assumptions C07_tie_generated_affine.

(* non-vacuity: the hypotheses are met by concrete non-trivial instances *)
Example C07_nonvacuous : dim_ok 3 /\ 0 <= 37 < B 3 2 /\ cellI 3 2 37 = [3; 2; 0] /\ sub_index 3 2 (37 # 64) = 37.
Proof. unfold dim_ok. repeat split; try lia; vm_compute; reflexivity. Qed.
