(* C18 - problem metadata is well-formed and the published tables agree with the functions.
   Statements proved once; per-row statements (extreme values and their locations, Lipschitz constants) are generated
   from the source tables on every run and closed by interval / the derivative theorems below (vlib/bench.py). *)
From Coq Require Import Reals List Lra ZArith.
From Coquelicot Require Import Coquelicot.
From IOptV Require Import Problems.Families Problems.Simple Problems.Meta.
Import ListNotations.
Open Scope R_scope.

Theorem C18_hill_derivative : forall l x, is_derive (hill l) x (dhill l x).
Proof. exact hill_derive. Qed.
Print Assumptions C18_hill_derivative.
Theorem C18_shekel_derivative : forall l x, pos_table l -> is_derive (shekel l) x (dshekel l x).
Proof. exact shekel_derive. Qed.
Print Assumptions C18_shekel_derivative.

(* metadata of the two parametric families for EVERY dimension n >= 1 (model of their constructors) *)
Theorem C18_parametric_metadata : forall n, (1 <= n)%nat -> wf_meta (rastrigin_meta n) = true /\ wf_meta (xsquared_meta n) = true.
Proof. exact parametric_meta_ok. Qed.
Print Assumptions C18_parametric_metadata.
