(* C05 - all evaluations and the result stay inside the box; refinement never worsens. Only statements. *)
From Coq Require Import ZArith QArith List Bool.
From IOptV Require Import Evolvent.Ev Evolvent.Adj Evolvent.Bij Evolvent.Curve Evolvent.Image Evolvent.Dims Evolvent.Bridge
  Driver.Refine gen.SourceFacts AGP.Skeleton.
Import ListNotations.

(* global phase: every trial point is an evolvent image, and every image lies strictly inside the box *)
Theorem C05_image_in_box : forall n m lo hi x, dim_ok n -> length lo = n -> length hi = n -> Forall2 Qlt lo hi ->
  in_box lo hi (image n m lo hi x).
Proof. intros n m lo hi x H. exact (image_in_box n (all_ok_dim n H) m lo hi x). Qed.
Print Assumptions C05_image_in_box.

Theorem C05_image_in_box_dimension_one : forall lo hi x, (lo < hi)%Q -> (0 <= x)%Q -> (x <= 1)%Q ->
  (lo <= image1 lo hi x)%Q /\ (image1 lo hi x <= hi)%Q.
Proof. exact image1_in_box. Qed.
Print Assumptions C05_image_in_box_dimension_one.

(* local phase, for ANY bound-respecting local optimiser (scipy's Nelder-Mead is an assumed contract, not modelled):
   evaluations and result stay in the box, the reported value is the objective at the returned point, never worse *)
Theorem C05_refine_in_box : forall (Pt V : Type) (le : V -> V -> bool) (in_box : Pt -> Prop) (f : Pt -> V) (nm : Pt -> bool -> Pt * list Pt),
  (forall x0, in_box x0 -> in_box (fst (nm x0 true)) /\ Forall in_box (snd (nm x0 true))) ->
  forall best, in_box best -> let '(pt, _, evals) := refine Pt V le f nm true best in in_box pt /\ Forall in_box evals.
Proof. exact refine_in_box. Qed.
Print Assumptions C05_refine_in_box.

Theorem C05_refine_value_matches : forall (Pt V : Type) (le : V -> V -> bool) (f : Pt -> V) (nm : Pt -> bool -> Pt * list Pt) pb best,
  let '(pt, v, _) := refine Pt V le f nm pb best in v = f pt.
Proof. exact refine_value_matches. Qed.
Print Assumptions C05_refine_value_matches.

Theorem C05_refine_not_worse : forall (Pt V : Type) (le : V -> V -> bool) (f : Pt -> V) (nm : Pt -> bool -> Pt * list Pt),
  (forall v, le v v = true) -> forall pb best, let '(_, v, _) := refine Pt V le f nm pb best in le v (f best) = true.
Proof. exact refine_not_worse. Qed.
Print Assumptions C05_refine_not_worse.

(* the source does pass the problem's bounds to the optimiser, evaluates the objective at the returned point, accepts
   only a value that is not worse and stores it as a new trial (recorded skeleton of DoLocalRefinement) *)
Theorem C05_source_passes_bounds :
  refine_minimize_keywords = expected_refine_minimize_keywords /\ refine_bounds_definition = expected_refine_bounds_definition /\
  refine_minimize_positional = expected_refine_minimize_positional /\ refine_skeleton = expected_refine_skeleton /\
  refine_writes_through_best_trial = [] /\ sk_Process_problemCalculate = expected_sk_Process_problemCalculate /\
  solver_evolvent_args = expected_solver_evolvent_args.
Proof. repeat split; reflexivity. Qed.
Print Assumptions C05_source_passes_bounds.

Theorem C05_tie_generated_queries : forallb (fun nm => query_agrees (fst nm) (snd nm))
    [(2, 1); (2, 2); (2, 3); (2, 4); (3, 1); (3, 2); (3, 3); (4, 1); (4, 2); (5, 1); (5, 2)]%nat = true.
Proof. exact gen_queries_agree_small. Qed.
Print Assumptions C05_tie_generated_queries.
