(* C17 - evolvent queries are pure. Statements about the state-passing model GENERATED from evolvent.py plus the
   copy policy read from the source. Only statements; proofs live in Evolvent/Purity.v. *)
From Coq Require Import ZArith QArith List String.
From IOptV Require Import gen.EvolventGen gen.SourceFacts Evolvent.Purity.
Import ListNotations.

(* results do not depend on the scratch vector, i.e. on earlier queries *)
Theorem C17_image_independent_of_history : forall o o' x, same_config o o' -> wf o -> wf o' ->
  fst (gen_image o x) = fst (gen_image o' x).
Proof. exact gen_image_pure. Qed.
Print Assumptions C17_image_independent_of_history.
Theorem C17_inverse_independent_of_history : forall o o' y, same_config o o' -> fst (gen_inverse o y) = fst (gen_inverse o' y).
Proof. exact gen_inverse_pure. Qed.
Print Assumptions C17_inverse_independent_of_history.
Theorem C17_preimages_independent_of_history : forall o o' y, same_config o o' -> fst (gen_preimages o y) = fst (gen_preimages o' y).
Proof. exact gen_preimages_pure. Qed.
Print Assumptions C17_preimages_independent_of_history.

(* queries change nothing but the scratch vector; SetBounds changes only the bounds *)
Theorem C17_image_frame : forall o x, same_config (snd (gen_image o x)) o.
Proof. exact gen_image_frame. Qed.
Print Assumptions C17_image_frame.
Theorem C17_inverse_frame : forall o y, same_config (snd (gen_inverse o y)) o.
Proof. exact gen_inverse_frame. Qed.
Print Assumptions C17_inverse_frame.
Theorem C17_preimages_frame : forall o y, same_config (snd (gen_preimages o y)) o.
Proof. exact gen_preimages_frame. Qed.
Print Assumptions C17_preimages_frame.
Theorem C17_setbounds_frame : forall o lo hi, let o' := gen_setbounds o lo hi in
  eN o' = eN o /\ em o' = em o /\ enexp o' = enexp o /\ ey o' = ey o /\ elo o' = lo /\ ehi o' = hi.
Proof. exact gen_setbounds_frame. Qed.
Print Assumptions C17_setbounds_frame.

(* aliasing policy read from the source: what is handed out is a copy, what is taken in is copied, the only
   instance attribute a query writes is the scratch vector, no module- or class-level state *)
Open Scope string_scope.
Theorem C17_copy_policy : evolvent_copy_policy =
  [("GetImage:return", "np.copy(self.yValues)"); ("GetInverseImage:yValues", "np.array(y, dtype=np.double)"); ("GetInverseImage:return", "x");
   ("GetPreimages:yValues", "np.array(y, dtype=np.double)"); ("GetPreimages:return", "x");
   ("SetBounds:lowerBoundOfFloatVariables", "np.copy(lowerBoundOfFloatVariables)");
   ("SetBounds:upperBoundOfFloatVariables", "np.copy(upperBoundOfFloatVariables)");
   ("__init__:numberOfFloatVariables", "numberOfFloatVariables");
   ("__init__:lowerBoundOfFloatVariables", "np.copy(lowerBoundOfFloatVariables)");
   ("__init__:upperBoundOfFloatVariables", "np.copy(upperBoundOfFloatVariables)");
   ("__init__:evolventDensity", "evolventDensity");
   ("__init__:yValues", "np.zeros(self.numberOfFloatVariables, dtype=np.double)")].
Proof. reflexivity. Qed.
Print Assumptions C17_copy_policy.
Theorem C17_write_sets : evolvent_write_sets =
  [("GetImage", ["yValues"]); ("GetInverseImage", ["yValues"]); ("GetPreimages", ["yValues"])] /\ evolvent_module_state = [] /\
  evolvent_external_writes = [].      (* nothing outside evolvent.py reconfigures or writes into an Evolvent object (e.g. the solver's) *)
Proof. repeat split; reflexivity. Qed.
Print Assumptions C17_write_sets.

Example C17_nonvacuous : let o := gen_new [0; 0]%Q [1; 1]%Q 2 3 in wf o /\ wf (snd (gen_image o (1 # 3)%Q)) /\
  fst (gen_image (snd (gen_inverse (snd (gen_image o (1 # 3)%Q)) [3 # 4; 1 # 4]%Q)) (5 # 7)%Q) = fst (gen_image o (5 # 7)%Q).
Proof. vm_compute. repeat split; auto. Qed.
