(* C02 - every trial is placed by the AGP decision rule computed from all previous trials. Only statements. *)
From Coq Require Import ZArith List Bool.
From IOptV Require Import AGP.Ops gen.MethodGen AGP.Impl AGP.Laws AGP.Termination AGP.Invariant AGP.Preserve AGP.Step AGP.Main
  AGP.QOps gen.SourceFacts AGP.Skeleton.
Import ListNotations.

Section C02.
Context {T : Type} (o : Ops T) (L : OrdLaws o).
Variable p : params (T := T).
Variable ans : nat -> answer T.      (* the objective: an arbitrary stream of answers *)
Hypothesis zero_lt_half : ltb o (of_Z o 0%Z) (half o) = true.
Hypothesis half_lt_one : ltb o (half o) (of_Z o 1%Z) = true.

(* the first trial is at x = 0.5 *)
Theorem C02_first_trial_at_half : forall s' x, step o p (init_st o) (ans 0%nat) = (s', Done x) -> x = half o.
Proof. exact (first_trial_is_half o L p ans zero_lt_half half_lt_one). Qed.

(* every later trial, at every iteration index k, for every history of objective values: the subdivided interval
   [l, old] of the partition has maximal characteristic among ALL intervals, the characteristics being the ones
   under the current M and z* (R_current), the new point is the decision rule's point, strictly inside *)
Theorem C02_selection_is_argmax : forall k s xs s' x, (1 <= k)%nat ->
  steps o p ans k (init_st o) = Some (s, xs) -> step o p s (ans (calls s)) = (s', Done x) -> Selected o p s s' x.
Proof. exact (selection_rule o L p ans zero_lt_half half_lt_one). Qed.

(* M is floored at 1, is 1 or a slope actually seen, dominates every slope ever seen, and every current
   neighbouring pair's slope has been seen; z* is the best value; recorded characteristics and the queue are
   coherent whenever no recalculation is pending *)
Theorem C02_estimates_invariant : forall k s xs, (1 <= k)%nat -> steps o p ans k (init_st o) = Some (s, xs) ->
  MInv o s /\ BestInv o s /\ CacheInv o p s.
Proof. intros k s xs Hk E. destruct (reachable_inv o L p ans zero_lt_half half_lt_one k s xs Hk E) as (_ & _ & B & M & C). auto. Qed.

(* a returned next point is strictly inside the chosen interval (the code's own guard), so, the record being
   strictly sorted, it differs from every point evaluated before *)
Theorem C02_new_point_strictly_inside : forall xl xr idl idr zl zr M r x,
  gen_CalculateNextPointCoordinate o xl xr idl idr zl zr M r = Some x -> ltb o xl x = true /\ ltb o x xr = true.
Proof. exact (next_point_inside o L). Qed.
End C02.

Print Assumptions C02_first_trial_at_half.
Print Assumptions C02_selection_is_argmax.
Print Assumptions C02_estimates_invariant.
Print Assumptions C02_new_point_strictly_inside.

(* the hypotheses are satisfiable: the exact rational instance meets them *)
Theorem C02_hypotheses_satisfiable : OrdLaws q_ops /\ ltb q_ops (of_Z q_ops 0%Z) (half q_ops) = true /\ ltb q_ops (half q_ops) (of_Z q_ops 1%Z) = true.
Proof. exact (conj q_ord_laws (conj q_zero_lt_half q_half_lt_one)). Qed.
Print Assumptions C02_hypotheses_satisfiable.

(* the control flow the state machine mirrors is the control flow of the source *)
Theorem C02_skeleton_tie :
  sk_Method_FirstIteration = expected_sk_Method_FirstIteration /\
  sk_Method_CalculateIterationPoint = expected_sk_Method_CalculateIterationPoint /\
  sk_Method_RecalcAllCharacteristics = expected_sk_Method_RecalcAllCharacteristics /\
  sk_Method_RenewSearchData = expected_sk_Method_RenewSearchData /\
  sk_Method_CalculateM = expected_sk_Method_CalculateM /\
  sk_Method_CalculateGlobalR = expected_sk_Method_CalculateGlobalR /\
  sk_Method_CalculateNextPointCoordinate = expected_sk_Method_CalculateNextPointCoordinate /\
  sk_SearchData_InsertDataItem = expected_sk_SearchData_InsertDataItem /\
  sk_SearchData_InsertFirstDataItem = expected_sk_SearchData_InsertFirstDataItem /\
  sk_SearchData_GetDataItemWithMaxGlobalR = expected_sk_SearchData_GetDataItemWithMaxGlobalR /\
  sk_SearchData_RefillQueue = expected_sk_SearchData_RefillQueue /\
  sk_SearchData_ClearQueue = expected_sk_SearchData_ClearQueue /\
  sk_CharacteristicsQueue_Insert = expected_sk_CharacteristicsQueue_Insert /\
  sk_CharacteristicsQueue_GetBestItem = expected_sk_CharacteristicsQueue_GetBestItem /\
  sk_CharacteristicsQueue_init = expected_sk_CharacteristicsQueue_init /\
  sk_SearchData_init = expected_sk_SearchData_init /\
  sk_Process_DoGlobalIteration = expected_sk_Process_DoGlobalIteration.
Proof. repeat split; reflexivity. Qed.
Print Assumptions C02_skeleton_tie.
