(* C06 - the search information is a faithful, ordered and complete record of the trials. Only statements. *)
From Coq Require Import ZArith List Bool.
From IOptV Require Import AGP.Ops gen.MethodGen AGP.Impl AGP.Laws AGP.Termination AGP.Invariant AGP.Preserve AGP.Step AGP.Main
  gen.SourceFacts AGP.Skeleton.
Import ListNotations.

Section C06.
Context {T : Type} (o : Ops T) (L : OrdLaws o).
Variable p : params (T := T).
Variable ans : nat -> answer T.
Hypothesis zero_lt_half : ltb o (of_Z o 0%Z) (half o) = true.
Hypothesis half_lt_one : ltb o (half o) (of_Z o 1%Z) = true.

(* after any number of iterations: the record runs from (0, unevaluated) through evaluated items to (1, unevaluated),
   strictly increasing in the curve coordinate, every stored length is hroot(x - x_left), the number of items is
   trials + 2 and item identities are distinct *)
Theorem C06_record_invariant : forall k s xs, (1 <= k)%nat -> steps o p ans k (init_st o) = Some (s, xs) -> RecInv o s.
Proof. intros k s xs Hk E. destruct (reachable_inv o L p ans zero_lt_half half_lt_one k s xs Hk E) as (_ & R & _). exact R. Qed.

(* each successful iteration inserts exactly the new trial between the ends of the subdivided interval and changes
   nothing else but the stored length/characteristic of the right end *)
Theorem C06_insertion : forall k s xs s' x, (1 <= k)%nat -> steps o p ans k (init_st o) = Some (s, xs) ->
  step o p s (ans (calls s)) = (s', Done x) ->
  exists A l old after new2 old2, order (recalc_all o p s) = A ++ l :: old :: after /\ order s' = A ++ l :: new2 :: old2 :: after /\
    ix new2 = x /\ evaluated new2 /\ xi old2 = xi old /\ uid old2 = uid old /\ iz old2 = iz old /\ SC (order s) (order (recalc_all o p s)).
Proof.
  intros k s xs s' x Hk E St. destruct (selection_rule o L p ans zero_lt_half half_lt_one k s xs s' x Hk E St) as [C _ (_ & _ & HSC)].
  destruct C as (A & l & old & after & new2 & old2 & H1 & H2 & H3 & H4 & H5 & H6 & H7 & _).
  exists A, l, old, after, new2, old2. repeat split; assumption.
Qed.

(* and it still holds after a failing evaluation: the failed point is not recorded *)
Theorem C06_record_after_failure : forall k s xs, (1 <= k)%nat -> steps o p ans k (init_st o) = Some (s, xs) ->
  stop o p s = false -> ans (calls s) = Raised ->
  exists s', Solves o p ans s s' [] true /\ SC (order s) (order s') /\ RecInv o s'.
Proof.
  intros k s xs Hk E Hs Ha. destruct (failure_contained o L p ans zero_lt_half half_lt_one k s xs Hk E Hs Ha) as (s' & So & _ & _ & HSC & R & _).
  exists s'. auto.
Qed.
End C06.
Print Assumptions C06_record_invariant.
Print Assumptions C06_insertion.
Print Assumptions C06_record_after_failure.

Theorem C06_skeleton_tie :
  sk_SearchData_InsertDataItem = expected_sk_SearchData_InsertDataItem /\ sk_SearchData_InsertFirstDataItem = expected_sk_SearchData_InsertFirstDataItem /\
  sk_SearchData_iter = expected_sk_SearchData_iter /\ sk_SearchData_next = expected_sk_SearchData_next /\ sk_SearchData_GetCount = expected_sk_SearchData_GetCount /\
  sk_Method_RenewSearchData = expected_sk_Method_RenewSearchData /\ sk_Method_FirstIteration = expected_sk_Method_FirstIteration /\
  sk_Method_CalculateFunctionals = expected_sk_Method_CalculateFunctionals /\ sk_Method_CalculateDelta = expected_sk_Method_CalculateDelta /\
  refine_writes_through_best_trial = [] /\ mutable_defaults_written = [].
Proof. repeat split; reflexivity. Qed.
Print Assumptions C06_skeleton_tie.
