(* C04 - the reported optimum is the best trial actually evaluated. Only statements. *)
From Coq Require Import ZArith List Bool.
From IOptV Require Import AGP.Ops gen.MethodGen AGP.Impl AGP.Laws AGP.Termination AGP.Invariant AGP.Preserve AGP.Step AGP.Main
  gen.SourceFacts AGP.Skeleton.
Import ListNotations.

Section C04.
Context {T : Type} (o : Ops T) (L : OrdLaws o).
Variable p : params (T := T).
Variable ans : nat -> answer T.
Hypothesis zero_lt_half : ltb o (of_Z o 0%Z) (half o) = true.
Hypothesis half_lt_one : ltb o (half o) (of_Z o 1%Z) = true.

(* after any number k >= 1 of iterations, for any objective: the current best is an evaluated item of the record
   with exactly that coordinate and value, z* equals its value, and no evaluated item has a smaller value *)
Theorem C04_best_is_minimum_of_evaluated : forall k s xs, (1 <= k)%nat -> steps o p ans k (init_st o) = Some (s, xs) -> BestInv o s.
Proof. intros k s xs Hk E. destruct (reachable_inv o L p ans zero_lt_half half_lt_one k s xs Hk E) as (_ & _ & B & _). exact B. Qed.

(* the same after a failing evaluation *)
Theorem C04_best_survives_failure : forall k s xs, (1 <= k)%nat -> steps o p ans k (init_st o) = Some (s, xs) ->
  stop o p s = false -> ans (calls s) = Raised -> exists s', Solves o p ans s s' [] true /\ best s' = best s /\ BestInv o s'.
Proof.
  intros k s xs Hk E Hs Ha. destruct (failure_contained o L p ans zero_lt_half half_lt_one k s xs Hk E Hs Ha) as (s' & So & _ & Bs & _ & _ & B & _).
  exists s'. auto.
Qed.

(* replacement rule (generated from UpdateOptimum): strictly smaller values replace, ties keep the earlier trial *)
Theorem C04_replacement_rule : forall best_none zb zp rc Zs,
  gen_UpdateOptimum o best_none 0%Z 0%Z zb zp rc Zs = if best_none || ltb o zp zb then (true, true, zp) else (false, rc, Zs).
Proof. exact (updopt_spec o). Qed.
End C04.
Print Assumptions C04_best_is_minimum_of_evaluated.
Print Assumptions C04_best_survives_failure.
Print Assumptions C04_replacement_rule.

Theorem C04_skeleton_tie :
  sk_Method_UpdateOptimum = expected_sk_Method_UpdateOptimum /\ sk_Process_GetResults = expected_sk_Process_GetResults /\
  sk_Method_CalculateFunctionals = expected_sk_Method_CalculateFunctionals /\ sk_OptimizationTask_Calculate = expected_sk_OptimizationTask_Calculate /\
  sk_Process_DoGlobalIteration = expected_sk_Process_DoGlobalIteration /\ mutable_defaults_written = [] /\ class_level_mutables = [].
Proof. repeat split; reflexivity. Qed.
Print Assumptions C04_skeleton_tie.
