(* C16 - an objective failure is contained: Solve returns the best-so-far result. Only statements. *)
From Coq Require Import ZArith List Bool.
From IOptV Require Import AGP.Ops gen.MethodGen AGP.Impl AGP.Laws AGP.Termination AGP.Invariant AGP.Preserve AGP.Step AGP.Main
  gen.SourceFacts AGP.Skeleton.
Import ListNotations.

Section C16.
Context {T : Type} (o : Ops T) (L : OrdLaws o).
Variable p : params (T := T).
Variable ans : nat -> answer T.
Hypothesis zero_lt_half : ltb o (of_Z o 0%Z) (half o) = true.
Hypothesis half_lt_one : ltb o (half o) (of_Z o 1%Z) = true.

(* if, after k >= 1 completed trials (any k, any earlier answers), the next evaluation raises: the Solve loop ends
   with the exception flag, the trial count, the best trial and every item of the record (up to the cached
   characteristic) are those after the k completed trials, and the record / optimum / estimate invariants hold *)
Theorem C16_failure_contained : forall k s xs, (1 <= k)%nat -> steps o p ans k (init_st o) = Some (s, xs) ->
  stop o p s = false -> ans (calls s) = Raised ->
  exists s', Solves o p ans s s' [] true /\ ntr s' = ntr s /\ best s' = best s /\ SC (order s) (order s') /\
             RecInv o s' /\ BestInv o s' /\ MInv o s'.
Proof. exact (failure_contained o L p ans zero_lt_half half_lt_one). Qed.

(* and Solve as a whole = the completed iterations followed by that failing step *)
Theorem C16_solve_is_prefix_then_failure : forall k s1 xs1 s' xs e, steps o p ans k (init_st o) = Some (s1, xs1) ->
  (forall j sj xsj, (j < k)%nat -> steps o p ans j (init_st o) = Some (sj, xsj) -> stop o p sj = false) ->
  Solves o p ans s1 s' xs e -> Solves o p ans (init_st o) s' (xs1 ++ xs) e.
Proof. intros k. exact (solve_after_batches o p ans k (init_st o)). Qed.

(* the search can go on after the failure: the state after a failed evaluation still satisfies the whole invariant (the
   recalculation flag is raised, so the characteristics queue is rebuilt from ALL intervals before the next selection), hence the
   next trial - and by iteration_inv every later one - is again placed by the decision rule on the full partition *)
Theorem C16_search_continues_by_the_rule : forall s s1 x, AllInv o p s -> iteration o p s Raised = (s1, ObjectiveRaised x) ->
  mind s1 = mind s /\      (* the reported accuracy is that of the completed trials: the selected interval was not subdivided *)
  AllInv o p s1 /\ forall z s2 x2, iteration o p s1 (Value z) = (s2, Done x2) -> AllInv o p s2 /\ Selected o p s1 s2 x2.
Proof.
  intros s s1 x A H. pose proof (failure_keeps_invariant o L p zero_lt_half half_lt_one s s1 x A H) as A1.
  split; [exact (iteration_raised_mind o p s s1 x H)|]. split; [exact A1|]. intros z s2 x2 It. exact (iteration_inv o L p zero_lt_half half_lt_one s1 z s2 x2 A1 It).
Qed.
End C16.
Print Assumptions C16_failure_contained.
Print Assumptions C16_solve_is_prefix_then_failure.
Print Assumptions C16_search_continues_by_the_rule.

(* where the exception is caught, and that evaluation comes before counting, optimum update and insertion *)
Theorem C16_skeleton_tie :
  sk_Process_Solve = expected_sk_Process_Solve /\ sk_Process_DoGlobalIteration = expected_sk_Process_DoGlobalIteration /\
  sk_Method_CalculateFunctionals = expected_sk_Method_CalculateFunctionals /\ sk_Method_CalculateIterationPoint = expected_sk_Method_CalculateIterationPoint /\
  sk_Method_RenewSearchData = expected_sk_Method_RenewSearchData /\ sk_OptimizationTask_Calculate = expected_sk_OptimizationTask_Calculate.
Proof. repeat split; reflexivity. Qed.
Print Assumptions C16_skeleton_tie.
