(* C01 - certified eps-optimality of the result under the Lipschitz reliability condition.
   Proved here in full for dimension N = 1 (K_1 = 2, no grid term). For N >= 2 the statement additionally needs the
   evolvent's Hoelder bound (C08) and covering (C07) composed with Euclidean norms: that composition is not done in this
   version; N >= 2 is covered by the search oracle only (stated in the evidence and in DESIGN.md). *)
From Coq Require Import Reals ZArith QArith List Bool Lra Lia.
From IOptV Require Import AGP.Ops gen.MethodGen AGP.Impl AGP.Laws AGP.Termination AGP.Invariant AGP.Preserve AGP.Step AGP.RealOps
  AGP.Optimality AGP.QOps AGP.Refuted.
Import ListNotations.

(* for EVERY objective phi on [0,1] with Lipschitz constant H, every r > 1, eps, and every number k >= 1 of iterations
   driven by phi: if the next iteration subdivides an interval shorter than eps (so Solve stops by accuracy right
   after it) and r * M >= 2 H for the estimate M in force when that interval was selected, then the best value found
   exceeds phi NOWHERE on [0,1] by (r M / 2) eps or more *)
Theorem C01_certificate_dimension_one : forall (p : params (T := R)) (phi : R -> R) (H : R),
  (1 < p_r p)%R -> (0 <= H)%R -> (forall x y, (0 <= x <= 1)%R -> (0 <= y <= 1)%R -> (Rabs (phi x - phi y) <= H * Rabs (x - y))%R) ->
  forall k s s' x eps, (1 <= k)%nat -> PhiRun p phi k s -> step r_ops p s (Value (phi x)) = (s', Done x) ->
  (2 * H <= p_r p * sM s)%R -> ltb r_ops (mind s) eps = false -> ltb r_ops (mind s') eps = true ->
  forall y, (0 <= y <= 1)%R -> (sZ s - phi y < p_r p * sM s / 2 * eps)%R.
Proof. exact agp_certificate_1d. Qed.
Print Assumptions C01_certificate_dimension_one.

(* "flat enough" objectives: M >= 1 always (invariant), so 2 H <= r suffices *)
Theorem C01_flat_objectives_unconditional : forall (p : params (T := R)) (phi : R -> R) (H : R),
  (1 < p_r p)%R -> (0 <= H)%R -> (forall x y, (0 <= x <= 1)%R -> (0 <= y <= 1)%R -> (Rabs (phi x - phi y) <= H * Rabs (x - y))%R) ->
  (2 * H <= p_r p)%R ->
  forall k s s' x eps, (1 <= k)%nat -> PhiRun p phi k s -> step r_ops p s (Value (phi x)) = (s', Done x) ->
  ltb r_ops (mind s) eps = false -> ltb r_ops (mind s') eps = true ->
  forall y, (0 <= y <= 1)%R -> (sZ s - phi y < p_r p * sM s / 2 * eps)%R.
Proof.
  intros p phi H Hr HH Lip Hflat k s s' x eps Hk Hrun St. apply (agp_certificate_1d p phi H Hr HH Lip k s s' x eps Hk Hrun St).
  destruct (phirun_inv p phi k s Hrun) as [[C _]|[(_ & _ & _ & [Mf _ _ _] & _) _]]; [lia|].
  cbn [leb r_ops of_Z] in Mf. apply rleb_true in Mf. nra.
Qed.
Print Assumptions C01_flat_objectives_unconditional.

(* the interval-wise lower bound and the "selected characteristic < 2 x length" facts the certificate is made of *)
Theorem C01_interior_lower_bound : forall (mu H D zl zr zs f dl dr : R),
  (0 < mu -> 0 < D -> 0 <= H -> 2 * H <= mu -> 0 <= dl -> 0 <= dr -> dl + dr = D -> zl - H * dl <= f -> zr - H * dr <= f ->
   zs - f <= mu / 4 * (D + (zr - zl) * (zr - zl) / (mu * mu * D) - 2 * (zr + zl - 2 * zs) / mu))%R.
Proof. exact interior_lb. Qed.
Print Assumptions C01_interior_lower_bound.

(* the literal reading (M = largest slope seen by the time Solve returns) is FALSE of the algorithm: kernel-evaluated witness *)
Theorem C01_final_M_reading_refuted :
  exists s, phi_steps cex_phi 12 (init_st q_ops) = Some s /\ stop q_ops cex_p s = true /\ Qle_bool (p_eps cex_p) (mind s) = false /\
            slopes_ok cex_L cex_pts = true /\ Qle_bool (2 * cex_L) (p_r cex_p * sM s) = true /\
            Qle_bool ((p_r cex_p * sM s / 2) * p_eps cex_p) (best_value s - cex_phi (7 # 8)) = true.
Proof. exact final_M_reading_refuted. Qed.
Print Assumptions C01_final_M_reading_refuted.
