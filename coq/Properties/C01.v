(* C01 - certified eps-optimality of the result under the Lipschitz reliability condition.
   Dimension N = 1: K_1 = 2, no grid term (AGP/Optimality.v). Dimensions N = 2..5: the same covering argument over the
   Hoelder metric |dx|^(1/N) (AGP/OptimalityN.v, AGP/RootN.v) composed with the evolvent's Hoelder inequality, box
   containment and density of the images (Evolvent/HolderReal.v, Evolvent/ImageR.v): AGP/OptimalityBox.v.
   In both, M is the estimate in force when the last interval was selected (see C01_final_M_reading_refuted). *)
From Coq Require Import Reals ZArith QArith List Bool Lra Lia.
From IOptV Require Import AGP.Ops gen.MethodGen AGP.Impl AGP.Laws AGP.Termination AGP.Invariant AGP.Preserve AGP.Step AGP.RealOps
  AGP.Optimality AGP.QOps AGP.Refuted gen.SourceFacts AGP.Skeleton AGP.OptimalityN AGP.RootN AGP.OptimalityBox Evolvent.Ev Evolvent.Dims Evolvent.ImageR.
Import ListNotations.

(* for EVERY objective phi on [0,1] with Lipschitz constant H, every r > 1, eps, and every number k >= 1 of iterations
   driven by phi: if the next iteration subdivides an interval shorter than eps (so Solve stops by accuracy right
   after it) and r * M >= 2 H for the estimate M in force when that interval was selected, then the best value found
   exceeds phi NOWHERE on [0,1] by (r M / 2) eps or more *)
Theorem C01_certificate_dimension_one : forall (p : params (T := R)) (phi : R -> R) (H : R),
  (1 < p_r p)%R -> (0 <= H)%R -> (forall x y, (0 <= x <= 1)%R -> (0 <= y <= 1)%R -> (Rabs (phi x - phi y) <= H * Rabs (x - y))%R) ->
  forall k s s' x eps, (1 <= k)%nat -> PhiRun p phi k s -> Impl.step r_ops p s (Value (phi x)) = (s', Done x) ->
  (2 * H <= p_r p * sM s)%R -> ltb r_ops (mind s) eps = false -> ltb r_ops (mind s') eps = true ->
  forall y, (0 <= y <= 1)%R -> (sZ s - phi y < p_r p * sM s / 2 * eps)%R.
Proof. exact agp_certificate_1d. Qed.
Print Assumptions C01_certificate_dimension_one.

(* "flat enough" objectives: M >= 1 always (invariant), so 2 H <= r suffices *)
Theorem C01_flat_objectives_unconditional : forall (p : params (T := R)) (phi : R -> R) (H : R),
  (1 < p_r p)%R -> (0 <= H)%R -> (forall x y, (0 <= x <= 1)%R -> (0 <= y <= 1)%R -> (Rabs (phi x - phi y) <= H * Rabs (x - y))%R) ->
  (2 * H <= p_r p)%R ->
  forall k s s' x eps, (1 <= k)%nat -> PhiRun p phi k s -> Impl.step r_ops p s (Value (phi x)) = (s', Done x) ->
  ltb r_ops (mind s) eps = false -> ltb r_ops (mind s') eps = true ->
  forall y, (0 <= y <= 1)%R -> (sZ s - phi y < p_r p * sM s / 2 * eps)%R.
Proof.
  intros p phi H Hr HH Lip Hflat k s s' x eps Hk Hrun St. apply (agp_certificate_1d p phi H Hr HH Lip k s s' x eps Hk Hrun St).
  destruct (phirun_inv p phi k s Hrun) as [[C _]|[(_ & _ & _ & [Mf _ _ _] & _) _]]; [lia|].
  cbn [leb r_ops of_Z] in Mf. apply rleb_true in Mf. nra.
Qed.
Print Assumptions C01_flat_objectives_unconditional.

(* the interval-wise lower bound and the "selected characteristic < 2 x length" facts the certificate is made of *)
Theorem C01_interior_lower_bound : forall (mu H D zl zr zs f dl dr : R),
  (0 < mu -> 0 < D -> 0 <= H -> 2 * H <= mu -> 0 <= dl -> 0 <= dr -> dl + dr = D -> zl - H * dl <= f -> zr - H * dr <= f ->
   zs - f <= mu / 4 * (D + (zr - zl) * (zr - zl) / (mu * mu * D) - 2 * (zr + zl - 2 * zs) / mu))%R.
Proof. exact interior_lb. Qed.
Print Assumptions C01_interior_lower_bound.

(* dimensions 2..5: for EVERY objective f with Lipschitz constant L (Euclidean norm) on EVERY box with sides in (0, S], every
   density m >= 1, every r > 1, eps and every number k >= 1 of iterations driven by f through the evolvent: if the next
   iteration subdivides an interval of Hoelder length below eps and r * M >= K_N * (L S), K_N = 2^(3 - 1/N) sqrt(N + 3)
   (written 4 c_N * 2 sqrt(N+3), see C01_K_N), then the best value exceeds f NOWHERE in the box by
   (r M / 2) eps + L S 2^-m (sqrt(N+3) + sqrt(N)/2) or more *)
Theorem C01_certificate_dimensions_2_to_5 : forall (n m : nat) (lo hi : list R) (S : R) (f : list R -> R) (L : R) (p : params (T := R)),
  dim_ok n -> (1 <= m)%nat -> length lo = n -> length hi = n -> (0 <= S)%R -> sides_ok S lo hi -> (0 <= L)%R ->
  (forall Y Y', in_boxR lo hi Y -> in_boxR lo hi Y' -> (Rabs (f Y - f Y') <= L * sqrt (dist2R Y Y'))%R) ->
  (1 < p_r p)%R ->
  forall k s s' x eps, (1 <= k)%nat -> PhiRunN (rootn n) (fun a => (a ^ n)%R) p (phi_of n m lo hi f) k s ->
  Impl.step (rn_ops n) p s (Value (phi_of n m lo hi f x)) = (s', Done x) ->
  (4 * cn n * (2 * sqrt (INR n + 3) * L * S) <= p_r p * sM s)%R ->
  ltb (rn_ops n) (mind s) eps = false -> ltb (rn_ops n) (mind s') eps = true ->
  forall Y, in_boxR lo hi Y ->
  (sZ s - f Y < p_r p * sM s / 2 * eps + L * S / 2 ^ m * (sqrt (INR n + 3) + sqrt (INR n) / 2))%R.
Proof.
  intros n m lo hi S f L p Hd Hm Llo Lhi HS Sides HL Lip Hr.
  apply (certificate_box n (all_ok_dim n Hd) ltac:(unfold dim_ok in Hd; lia) m Hm lo hi S Llo Lhi HS Sides f L HL Lip p Hr).
Qed.
Print Assumptions C01_certificate_dimensions_2_to_5.

(* the constant: 4 c_N * 2 sqrt(N+3) = 2^(3 - 1/N) sqrt(N+3) = K_N *)
Theorem C01_K_N : forall n, (1 <= n)%nat -> (4 * cn n * (2 * sqrt (INR n + 3)) = Rpower 2 (3 - / INR n) * sqrt (INR n + 3))%R.
Proof.
  intros n Hn. unfold cn, Rminus. rewrite Rpower_plus.
  replace (Rpower 2 3) with 8%R; [ring|].
  replace 3%R with (INR 3) by (simpl; lra). rewrite Rpower_pow by lra. simpl. lra.
Qed.
Print Assumptions C01_K_N.

(* what Solve RETURNS is the best value after that last trial, which is not larger: the same bounds hold for it *)
Theorem C01_reported_best_dimension_one : forall (p : params (T := R)) (phi : R -> R) (H : R),
  (1 < p_r p)%R -> (0 <= H)%R -> (forall x y, (0 <= x <= 1)%R -> (0 <= y <= 1)%R -> (Rabs (phi x - phi y) <= H * Rabs (x - y))%R) ->
  forall k s s' x eps, (1 <= k)%nat -> PhiRun p phi k s -> Impl.step r_ops p s (Value (phi x)) = (s', Done x) ->
  (2 * H <= p_r p * sM s)%R -> ltb r_ops (mind s) eps = false -> ltb r_ops (mind s') eps = true ->
  forall y, (0 <= y <= 1)%R -> (sZ s' - phi y < p_r p * sM s / 2 * eps)%R.
Proof. exact agp_certificate_1d_final. Qed.
Print Assumptions C01_reported_best_dimension_one.

Theorem C01_reported_best_dimensions_2_to_5 : forall (n m : nat) (lo hi : list R) (S : R) (f : list R -> R) (L : R) (p : params (T := R)),
  dim_ok n -> (1 <= m)%nat -> length lo = n -> length hi = n -> (0 <= S)%R -> sides_ok S lo hi -> (0 <= L)%R ->
  (forall Y Y', in_boxR lo hi Y -> in_boxR lo hi Y' -> (Rabs (f Y - f Y') <= L * sqrt (dist2R Y Y'))%R) ->
  (1 < p_r p)%R ->
  forall k s s' x eps, (1 <= k)%nat -> PhiRunN (rootn n) (fun a => (a ^ n)%R) p (phi_of n m lo hi f) k s ->
  Impl.step (rn_ops n) p s (Value (phi_of n m lo hi f x)) = (s', Done x) ->
  (4 * cn n * (2 * sqrt (INR n + 3) * L * S) <= p_r p * sM s)%R ->
  ltb (rn_ops n) (mind s) eps = false -> ltb (rn_ops n) (mind s') eps = true ->
  forall Y, in_boxR lo hi Y ->
  (sZ s' - f Y < p_r p * sM s / 2 * eps + L * S / 2 ^ m * (sqrt (INR n + 3) + sqrt (INR n) / 2))%R.
Proof.
  intros n m lo hi S f L p Hd Hm Llo Lhi HS Sides HL Lip Hr.
  apply (certificate_box_final n (all_ok_dim n Hd) ltac:(unfold dim_ok in Hd; lia) m Hm lo hi S Llo Lhi HS Sides f L HL Lip p Hr).
Qed.
Print Assumptions C01_reported_best_dimensions_2_to_5.

(* The statement in terms of Solve itself. A fresh solver; the answers are the objective at the (images of the) trial points
   (Driven); Solve ends without an exception and the accuracy test is what holds at the end ("the requested accuracy eps was
   reached"). Then the state s in which the last interval was selected is a state of the run, the trial made from it yields the
   final state, and if the reliability condition holds for the estimate M of that state, the RETURNED best value is within the
   bound of the objective everywhere. (pinf is the initial value of the accuracy estimate: eps below it means that the
   accuracy was not "reached" before the first subdivision.) *)
Theorem C01_solve_dimension_one : forall (p : params (T := R)) (phi : R -> R) (ans : nat -> answer R) (H : R),
  (1 < p_r p)%R -> (0 <= H)%R -> (forall x y, (0 <= x <= 1)%R -> (0 <= y <= 1)%R -> (Rabs (phi x - phi y) <= H * Rabs (x - y))%R) ->
  Driven (fun d => d) (fun a => a) p phi ans -> ltb r_ops (pinf r_ops) (p_eps p) = false ->
  forall s_f xs, Solves r_ops p ans (init_st r_ops) s_f xs false -> ltb r_ops (mind s_f) (p_eps p) = true ->
  exists s x, (exists k xs0, steps r_ops p ans k (init_st r_ops) = Some (s, xs0)) /\
              Impl.step r_ops p s (Value (phi x)) = (s_f, Done x) /\ ltb r_ops (mind s) (p_eps p) = false /\
              ((2 * H <= p_r p * sM s)%R -> forall y, (0 <= y <= 1)%R -> (sZ s_f - phi y < p_r p * sM s / 2 * p_eps p)%R).
Proof. exact solve_certificate_1d. Qed.
Print Assumptions C01_solve_dimension_one.

Theorem C01_solve_dimensions_2_to_5 : forall (n m : nat) (lo hi : list R) (S : R) (f : list R -> R) (L : R) (p : params (T := R)) (ans : nat -> answer R),
  dim_ok n -> (1 <= m)%nat -> length lo = n -> length hi = n -> (0 <= S)%R -> sides_ok S lo hi -> (0 <= L)%R ->
  (forall Y Y', in_boxR lo hi Y -> in_boxR lo hi Y' -> (Rabs (f Y - f Y') <= L * sqrt (dist2R Y Y'))%R) ->
  (1 < p_r p)%R ->
  Driven (rootn n) (fun a => (a ^ n)%R) p (phi_of n m lo hi f) ans -> ltb (rn_ops n) (pinf (rn_ops n)) (p_eps p) = false ->
  forall s_f xs, Solves (rn_ops n) p ans (init_st (rn_ops n)) s_f xs false -> ltb (rn_ops n) (mind s_f) (p_eps p) = true ->
  exists s x, (exists k xs0, steps (rn_ops n) p ans k (init_st (rn_ops n)) = Some (s, xs0)) /\
              Impl.step (rn_ops n) p s (Value (phi_of n m lo hi f x)) = (s_f, Done x) /\ ltb (rn_ops n) (mind s) (p_eps p) = false /\
              ((4 * cn n * (2 * sqrt (INR n + 3) * L * S) <= p_r p * sM s)%R ->
               forall Y, in_boxR lo hi Y ->
               (sZ s_f - f Y < p_r p * sM s / 2 * p_eps p + L * S / 2 ^ m * (sqrt (INR n + 3) + sqrt (INR n) / 2))%R).
Proof.
  intros n m lo hi S f L p ans Hd Hm Llo Lhi HS Sides HL Lip Hr.
  apply (solve_certificate_box n (all_ok_dim n Hd) ltac:(unfold dim_ok in Hd; lia) m Hm lo hi S Llo Lhi HS Sides f L HL Lip p ans Hr).
Qed.
Print Assumptions C01_solve_dimensions_2_to_5.

(* the literal reading (M = largest slope seen by the time Solve returns) is FALSE of the algorithm: kernel-evaluated witness *)
Theorem C01_final_M_reading_refuted :
  exists s, phi_steps cex_phi 12 (init_st q_ops) = Some s /\ stop q_ops cex_p s = true /\ Qle_bool (p_eps cex_p) (mind s) = false /\
            slopes_ok cex_L cex_pts = true /\ Qle_bool (2 * cex_L) (p_r cex_p * sM s) = true /\
            Qle_bool ((p_r cex_p * sM s / 2) * p_eps cex_p) (best_value s - cex_phi (7 # 8)) = true.
Proof. exact final_M_reading_refuted. Qed.
Print Assumptions C01_final_M_reading_refuted.

(* the control flow the state machine mirrors is the control flow of the source: selection, recalculation, insertion, the
   Solve loop and its stop rule, the update of the reported optimum and the local refinement *)
Theorem C01_skeleton_tie :
  sk_Method_FirstIteration = expected_sk_Method_FirstIteration /\
  sk_Method_CalculateIterationPoint = expected_sk_Method_CalculateIterationPoint /\
  sk_Method_RecalcAllCharacteristics = expected_sk_Method_RecalcAllCharacteristics /\
  sk_Method_RenewSearchData = expected_sk_Method_RenewSearchData /\
  sk_Method_CalculateM = expected_sk_Method_CalculateM /\
  sk_Method_CalculateGlobalR = expected_sk_Method_CalculateGlobalR /\
  sk_Method_CalculateNextPointCoordinate = expected_sk_Method_CalculateNextPointCoordinate /\
  sk_SearchData_InsertDataItem = expected_sk_SearchData_InsertDataItem /\
  sk_SearchData_InsertFirstDataItem = expected_sk_SearchData_InsertFirstDataItem /\
  sk_SearchData_GetDataItemWithMaxGlobalR = expected_sk_SearchData_GetDataItemWithMaxGlobalR /\
  sk_SearchData_RefillQueue = expected_sk_SearchData_RefillQueue /\
  sk_SearchData_ClearQueue = expected_sk_SearchData_ClearQueue /\
  sk_CharacteristicsQueue_Insert = expected_sk_CharacteristicsQueue_Insert /\
  sk_CharacteristicsQueue_GetBestItem = expected_sk_CharacteristicsQueue_GetBestItem /\
  sk_CharacteristicsQueue_init = expected_sk_CharacteristicsQueue_init /\
  sk_SearchData_init = expected_sk_SearchData_init /\
  sk_Process_DoGlobalIteration = expected_sk_Process_DoGlobalIteration /\
  sk_Process_Solve = expected_sk_Process_Solve /\ sk_Method_CheckStopCondition = expected_sk_Method_CheckStopCondition /\
  sk_Method_FinalizeIteration = expected_sk_Method_FinalizeIteration /\ sk_Method_CalculateFunctionals = expected_sk_Method_CalculateFunctionals /\
  sk_Method_init = expected_sk_Method_init /\ gen_init_ok = true /\
  sk_Method_UpdateOptimum = expected_sk_Method_UpdateOptimum /\ sk_Process_GetResults = expected_sk_Process_GetResults /\
  refine_skeleton = expected_refine_skeleton /\ solver_evolvent_args = expected_solver_evolvent_args /\ evolvent_external_writes = [].
Proof. repeat split; reflexivity. Qed.
Print Assumptions C01_skeleton_tie.
