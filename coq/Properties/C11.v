(* C11 - determinism and independence from how iterations are batched. Only statements. *)
From Coq Require Import ZArith List Bool.
From IOptV Require Import AGP.Ops gen.MethodGen AGP.Impl AGP.Laws AGP.Termination gen.SourceFacts AGP.Skeleton.
Import ListNotations.

Section C11.
Context {T : Type} (o : Ops T).
Variable p : params (T := T).
Variable ans : nat -> answer T.

(* DoGlobalIteration(a) then DoGlobalIteration(b) = DoGlobalIteration(a + b): same state, same trial sequence *)
Theorem C11_batches_compose : forall a b s, steps o p ans (a + b) s =
  match steps o p ans a s with
  | Some (s1, xs1) => match steps o p ans b s1 with Some (s2, xs2) => Some (s2, xs1 ++ xs2) | None => None end
  | None => None
  end.
Proof. exact (steps_compose o p ans). Qed.

(* DoGlobalIteration(k) without exception = k steps *)
Theorem C11_do_iterations_is_steps : forall k s acc s' xs,
  do_iterations o k p s ans acc = (s', xs, false) <-> exists ys, steps o p ans k s = Some (s', ys) /\ xs = rev acc ++ ys.
Proof. exact (do_iterations_steps o p ans). Qed.

(* iterations made before the stop point, then Solve = plain Solve (same final state, same sequence) *)
Theorem C11_solve_after_batches : forall k s s1 xs1 s' xs e, steps o p ans k s = Some (s1, xs1) ->
  (forall j sj xsj, (j < k)%nat -> steps o p ans j s = Some (sj, xsj) -> stop o p sj = false) ->
  Solves o p ans s1 s' xs e -> Solves o p ans s s' (xs1 ++ xs) e.
Proof. exact (solve_after_batches o p ans). Qed.

(* the result of Solve is unique: the run is a function of the answers *)
Theorem C11_deterministic : forall s s1 xs1 e1, Solves o p ans s s1 xs1 e1 -> forall s2 xs2 e2, Solves o p ans s s2 xs2 e2 -> s1 = s2 /\ xs1 = xs2 /\ e1 = e2.
Proof. exact (Solves_det o p ans). Qed.

(* Solve on a finished solver performs no trial *)
Theorem C11_solve_again_no_trials : forall s, stop o p s = true -> solve o p s ans = (s, [], false, false).
Proof. exact (solve_again_no_trials o p ans). Qed.
End C11.

Print Assumptions C11_batches_compose.
Print Assumptions C11_do_iterations_is_steps.
Print Assumptions C11_solve_after_batches.
Print Assumptions C11_deterministic.
Print Assumptions C11_solve_again_no_trials.

(* once the criterion holds it keeps holding under further iterations (needs the order laws) *)
Theorem C11_stop_monotone : forall {T} (o : Ops T), OrdLaws o -> forall p ans s s' x, WF s -> stop o p s = true ->
  step o p s (ans (calls s)) = (s', Done x) -> stop o p s' = true.
Proof. intros T o L p ans. exact (stop_monotone o L p ans). Qed.
Print Assumptions C11_stop_monotone.

Theorem C11_skeleton_tie :
  sk_Process_Solve = expected_sk_Process_Solve /\ sk_Process_DoGlobalIteration = expected_sk_Process_DoGlobalIteration /\
  sk_Process_init = expected_sk_Process_init /\ solver_delegation = expected_solver_delegation /\ solver_components = expected_solver_components /\
  sk_Method_init = expected_sk_Method_init /\
  configuration_object_writes = [] /\ mutable_defaults_written = [] /\ class_level_mutables = [] /\ module_level_mutables = [].
  (* the library writes nothing into the parameters / problem objects it is given, so repeating a run with the same objects repeats it *)
Proof. repeat split; reflexivity. Qed.
Print Assumptions C11_skeleton_tie.
