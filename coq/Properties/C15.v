(* C15 - benchmark evaluation is a pure function of the point. Only statements. *)
From Coq Require Import List Arith Bool String.
From IOptV Require Import Problems.Purity gen.SourceFacts.
Import ListNotations.

(* for an evaluation whose only write is the supplied holder's value: same value whatever was evaluated before,
   the holder is returned, the point and everything else is untouched *)
Theorem C15_value_independent_of_history : forall (V Pt : Type) (f : Pt -> V) s calls p h,
  holders V Pt (fst (calculate V Pt f (run V Pt f s calls) p h)) h = Some (f (points V Pt s p)).
Proof. exact value_independent_of_history. Qed.
Print Assumptions C15_value_independent_of_history.

Theorem C15_frame : forall (V Pt : Type) (f : Pt -> V) s p h,
  snd (calculate V Pt f s p h) = h /\ points V Pt (fst (calculate V Pt f s p h)) = points V Pt s /\
  others V Pt (fst (calculate V Pt f s p h)) = others V Pt s /\
  (forall h', h' <> h -> holders V Pt (fst (calculate V Pt f s p h)) h' = holders V Pt s h').
Proof. exact calculate_frame. Qed.
Print Assumptions C15_frame.

(* the source meets the hypothesis: along the whole evaluation path of every shipped problem (Calculate and what it calls,
   including GKLSFunction and GrishaginFunction) nothing is assigned except local names and the holder's value; Calculate
   returns the supplied holder; no class-level / module-level mutable state; no mutable default argument is written through *)
Open Scope string_scope.
Theorem C15_source_write_sets :
  calculate_extra_writes = [("Hill", []); ("Shekel", []); ("Shekel4", []); ("Rastrigin", []); ("XSquared", []); ("StronginC3", []); ("Grishagin", []); ("GKLS", [])] /\
  calculate_returns = [("Hill", ["functionValue"]); ("Shekel", ["functionValue"]); ("Shekel4", ["functionValue"]); ("Rastrigin", ["functionValue"]);
                       ("XSquared", ["functionValue"]); ("StronginC3", ["functionValue"]); ("Grishagin", ["functionValue"]); ("GKLS", ["functionValue"])] /\
  class_level_mutables = [] /\ module_level_mutables = [] /\ mutable_defaults_written = [] /\
  process_global_state_calls = [] /\ memoised_functions = [] /\
  calculate_holder_reads = [].      (* the supplied holder is only written, never read: its previous content cannot matter *)      (* no process-wide numeric/warning state is set, nothing is memoised *)
Proof. repeat split; reflexivity. Qed.
Print Assumptions C15_source_write_sets.
