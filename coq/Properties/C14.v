(* C14 - GKLS functions have the promised structure and are reproducible. Statements proved once; the per-instance
   obligation `wf_q <exported parameters> = true` (kernel evaluation over exact rationals) is generated on every run
   for the instances listed in the evidence (quick: seeded sample; thorough: all 400). *)
From Coq Require Import Reals QArith Qreals List Lra.
From IOptV Require Import Problems.GKLS Problems.GKLSCheck gen.SourceFacts.
Import ListNotations.

(* inside its attraction ball the cubic never goes below the prescribed local minimum value *)
Theorem C14_cubic_not_below_minimum : forall T t m x, ball_ok T t m -> length x = length T ->
  (0 < norm (vsub x (mpt m)))%R -> (norm (vsub x (mpt m)) <= mrho m)%R -> (mf m <= cubic T t m x)%R.
Proof. exact cubic_ge_fi. Qed.
Print Assumptions C14_cubic_not_below_minimum.

(* continuity across every ball boundary: there the cubic equals the paraboloid *)
Theorem C14_continuous_at_ball_boundary : forall T t m x, (0 < mrho m)%R -> length x = length T -> length (mpt m) = length T ->
  norm (vsub x (mpt m)) = mrho m -> cubic T t m x = paraboloid T t x.
Proof. exact cubic_meets_paraboloid. Qed.
Print Assumptions C14_continuous_at_ball_boundary.

(* outside the balls the function is the paraboloid; at each minimiser it takes exactly the prescribed value *)
Theorem C14_paraboloid_outside_balls : forall T t ms x, Forall (fun m => (mrho m < norm (vsub (mpt m) x))%R) ms -> gkls T t ms x = paraboloid T t x.
Proof. exact gkls_outside_is_paraboloid. Qed.
Print Assumptions C14_paraboloid_outside_balls.

Theorem C14_value_at_minimiser : forall T t pre m post, (0 <= mrho m)%R ->
  Forall (fun q => (mrho q < norm (vsub (mpt q) (mpt m)))%R) pre -> gkls T t (pre ++ m :: post) (mpt m) = mf m.
Proof. exact gkls_at_minimiser. Qed.
Print Assumptions C14_value_at_minimiser.

(* the whole structure for any parameter set accepted by the rational predicate: global value -1 attained at the first
   minimiser (at the class distance, with the class radius), every other minimum strictly higher, nothing below -1,
   every minimiser takes its prescribed value, minimisers inside the box, balls pairwise disjoint (part of wf_q) *)
Theorem C14_accepted_parameters_have_the_structure : forall n T t rho0 ms gd2lo gd2hi grad,
  wf_q n T t rho0 ms gd2lo gd2hi grad = true -> length T = n ->
  (forall x, length x = n -> (-1 <= gkls (map Q2R T) (Q2R t) (map toR ms) x)%R) /\
  (forall pre m post, ms = pre ++ m :: post -> gkls (map Q2R T) (Q2R t) (map toR ms) (map Q2R (qpt m)) = Q2R (qf m)) /\
  (exists g rest, ms = g :: rest /\ Q2R (qf g) = (-1)%R /\ Q2R (qrho g) = Q2R grad /\
                  Forall (fun m => (-1 < Q2R (qf m))%R) rest /\
                  (Q2R gd2lo <= nsq (vsub (map Q2R T) (map Q2R (qpt g))) <= Q2R gd2hi)%R) /\
  Forall (ball_ok (map Q2R T) (Q2R t)) (map toR ms).
Proof. exact wf_certifies. Qed.
Print Assumptions C14_accepted_parameters_have_the_structure.

(* reproducibility, source side: function (n, k) cannot depend on what else was constructed or evaluated in the process - no class-level or
   module-level mutable state, no memoised constructor or evaluation, no process-wide numeric state set by the library *)
Theorem C14_no_shared_state :
  class_level_mutables = List.nil /\ module_level_mutables = List.nil /\ memoised_functions = List.nil /\ process_global_state_calls = List.nil /\
  mutable_defaults_written = List.nil.
Proof. repeat split; reflexivity. Qed.
Print Assumptions C14_no_shared_state.
