(* C09 - inverse image consistent with image. Only statements; proofs live in Evolvent/. *)
From Coq Require Import ZArith QArith Qabs List Lia.
From IOptV Require Import gen.EvolventGen Evolvent.Ev Evolvent.Adj Evolvent.Bij Evolvent.Curve Evolvent.Image Evolvent.Dims Evolvent.Bridge Evolvent.Purity.
Import ListNotations.
Open Scope Z_scope.

(* inverse(image(x)) = x rounded down to the subinterval grid (index form; x = 1 belongs to the last subinterval) *)
Theorem C09_inverse_of_image : forall n m lo hi x, dim_ok n -> length lo = n -> length hi = n -> Forall2 Qlt lo hi ->
  inverse_index n m lo hi (image n m lo hi x) = sub_index n m x.
Proof. intros n m lo hi x H. exact (inverse_of_image n (all_ok_dim n H) m lo hi x). Qed.
Print Assumptions C09_inverse_of_image.

(* the inverse of any y returns the subinterval whose cell is the cell containing y *)
Theorem C09_image_of_inverse_is_cell_of_y : forall n m lo hi y, dim_ok n -> length lo = n -> length hi = n -> length y = n ->
  0 <= inverse_index n m lo hi y < B n m /\ cellI n m (inverse_index n m lo hi y) = cell_of_point m lo hi y.
Proof. intros n m lo hi y H. exact (image_of_inverse n (all_ok_dim n H) m lo hi y). Qed.
Print Assumptions C09_image_of_inverse_is_cell_of_y.

(* ... and the centre of that cell is within half a cell width of y on every axis *)
Theorem C09_half_cell : forall m lo hi y, (lo < hi)%Q -> (lo <= y)%Q -> (y <= hi)%Q ->
  (Qabs (box_coord m lo hi (cell_coord m lo hi y) - y) <= (hi - lo) / inject_Z (2 ^ (Z.of_nat m + 1)))%Q.
Proof. exact cell_coord_half_cell. Qed.
Print Assumptions C09_half_cell.

Theorem C09_dimension_one : forall lo hi x, (lo < hi)%Q ->
  (inverse1 lo hi (image1 lo hi x) == x)%Q /\ (image1 lo hi (inverse1 lo hi x) == x)%Q.
Proof. intros lo hi x H. split; [apply inverse1_image1 | apply image1_inverse1]; exact H. Qed.
Print Assumptions C09_dimension_one.

(* GetPreimages is GetInverseImage (on the model generated from the source) *)
Theorem C09_preimages_is_inverse : forall o y, gen_preimages o y = gen_inverse o y.
Proof. exact gen_preimages_is_inverse. Qed.
Print Assumptions C09_preimages_is_inverse.

Theorem C09_tie_generated_numbr : forallb numbr_agrees [2; 3; 4; 5]%nat = true.
Proof. exact gen_numbr_is_numbr. Qed.
Print Assumptions C09_tie_generated_numbr.
Theorem C09_tie_generated_queries : forallb (fun nm => query_agrees (fst nm) (snd nm))
    [(2, 1); (2, 2); (2, 3); (2, 4); (3, 1); (3, 2); (3, 3); (4, 1); (4, 2); (5, 1); (5, 2)]%nat = true.
Proof. exact gen_queries_agree_small. Qed.
Print Assumptions C09_tie_generated_queries.
Theorem C09_tie_generated_affine : forallb affine_agrees [0; 1; 1 # 2; 1 # 3; 7 # 8; 123 # 1000]%Q = true.
Proof. exact gen_affine_1d. Qed.
Print Assumptions C09_tie_generated_affine.

Example C09_nonvacuous : inverse_index 2 3 [0; 0]%Q [1; 1]%Q [3 # 10; 7 # 10]%Q = 29 /\ cellI 2 3 29 = [2; 5] /\
  cell_of_point 3 [0; 0]%Q [1; 1]%Q [3 # 10; 7 # 10]%Q = [2; 5].
Proof. repeat split; vm_compute; reflexivity. Qed.
