(* C08 - the evolvent is a continuous (Hoelder) space-filling curve. Only statements; proofs live in Evolvent/. *)
From Coq Require Import ZArith QArith Qreals Reals List Lia Lra.
From IOptV Require Import Evolvent.Ev Evolvent.Adj Evolvent.Bij Evolvent.Curve Evolvent.Image Evolvent.Holder Evolvent.Dims Evolvent.Bridge Evolvent.HolderReal Evolvent.HolderImage.
Import ListNotations.
Open Scope Z_scope.

(* consecutive subintervals map to face-adjacent cells: exactly one coordinate differs, by exactly one cell *)
Theorem C08_consecutive_face_adjacent : forall n m i, dim_ok n -> 0 <= i -> i + 1 < B n m ->
  adjacent (cellI n m i) (cellI n m (i + 1)).
Proof. intros n m i H. exact (cellI_adjacent n (all_ok_dim n H) m i). Qed.
Print Assumptions C08_consecutive_face_adjacent.

(* the 2^N cells of density m+1 subdividing subinterval i lie inside the density-m cell of i *)
Theorem C08_nested : forall n m j, dim_ok n -> 0 <= j < B n (m + 1) ->
  map (fun z => z / 2) (cellI n (m + 1) j) = cellI n m (j / 2 ^ Z.of_nat n).
Proof.
  intros n m j H Hj. pose proof (cellI_nested n (all_ok_dim n H) m 1 j Hj) as N.
  replace (B n 1) with (2 ^ Z.of_nat n) in N by (unfold B; rewrite Nat.mul_1_r; reflexivity). exact N.
Qed.
Print Assumptions C08_nested.

(* general nesting over k levels *)
Theorem C08_nested_k : forall n m k j, dim_ok n -> 0 <= j < B n (m + k) ->
  map (fun z => z / 2 ^ Z.of_nat k) (cellI n (m + k) j) = cellI n m (j / B n k).
Proof. intros n m k j H. exact (cellI_nested n (all_ok_dim n H) m k j). Qed.
Print Assumptions C08_nested_k.

(* Hoelder bound at cell level: subintervals whose depth-k ancestors coincide or are consecutive (in particular
   |i - j| < 2^(n(m-k)), i.e. |x' - x''| < 2^(-n k)) have cells with squared distance < (n+3) 4^(m-k) cell widths,
   i.e. ||y' - y''||^2 < (n+3) 4^(-k) in cube units *)
Theorem C08_holder_cells : forall n m k i j, dim_ok n -> (k <= m)%nat -> 0 <= i < B n m -> 0 <= j < B n m ->
  Z.abs (i - j) < B n (m - k) ->
  sumsq (cellI n m i) (cellI n m j) < (Z.of_nat n + 3) * 4 ^ Z.of_nat (m - k).
Proof. intros n m k i j H. apply (holder_cells n (all_ok_dim n H)). unfold dim_ok in H. lia. Qed.
Print Assumptions C08_holder_cells.

Theorem C08_holder_cells_close : forall n m k i j, dim_ok n -> (k <= m)%nat -> 0 <= i < B n m -> 0 <= j < B n m ->
  Z.abs (i / B n (m - k) - j / B n (m - k)) <= 1 ->
  sumsq (cellI n m i) (cellI n m j) < (Z.of_nat n + 3) * 4 ^ Z.of_nat (m - k).
Proof. intros n m k i j H. apply (holder_cells_close n (all_ok_dim n H)). unfold dim_ok in H. lia. Qed.
Print Assumptions C08_holder_cells_close.

(* the inequality itself, for the images of any two points of [0,1] at least one subinterval apart, any box, any density:
   ||y(x') - y(x'')||_2 <= 2 sqrt(N+3) |x' - x''|^(1/N) * S, S bounding the box sides *)
Theorem C08_holder_inequality : forall n m lo hi S x x', dim_ok n -> (1 <= m)%nat -> length lo = n -> length hi = n -> (0 <= S)%Q ->
  Forall2 (fun l h => l < h /\ h - l <= S)%Q lo hi -> (0 <= x)%Q -> (x <= 1)%Q -> (0 <= x')%Q -> (x' <= 1)%Q ->
  (/ 2 ^ (n * m) <= Rabs (Q2R x - Q2R x'))%R ->
  (sqrt (Q2R (qdist2 (image n m lo hi x) (image n m lo hi x'))) <= 2 * sqrt (INR n + 3) * Rpower (Rabs (Q2R x - Q2R x')) (/ INR n) * Q2R S)%R.
Proof.
  intros n m lo hi S x x' H Hm L1 L2 HS F X0 X1 X0' X1' Hq.
  apply (holder_image n (all_ok_dim n H) ltac:(unfold dim_ok in H; lia) m lo hi S x x'); try assumption.
  rewrite IZR_B. assert (P : (0 < 2 ^ (n * m))%R) by (apply pow_lt; lra).
  apply (Rmult_le_compat_r (2 ^ (n * m))) in Hq; [|lra]. rewrite Rinv_l in Hq by lra. exact Hq.
Qed.
Print Assumptions C08_holder_inequality.

Theorem C08_tie_generated_node : forallb node_agrees [2; 3; 4; 5]%nat = true.
Proof. exact gen_node_is_node. Qed.
Print Assumptions C08_tie_generated_node.
Theorem C08_tie_generated_queries : forallb (fun nm => query_agrees (fst nm) (snd nm))
    [(2, 1); (2, 2); (2, 3); (2, 4); (3, 1); (3, 2); (3, 3); (4, 1); (4, 2); (5, 1); (5, 2)]%nat = true.
Proof. exact gen_queries_agree_small. Qed.
Print Assumptions C08_tie_generated_queries.

Example C08_nonvacuous : dim_ok 2 /\ adjacent (cellI 2 3 21) (cellI 2 3 22) /\
  map (fun z => z / 2) (cellI 2 3 22) = cellI 2 2 5 /\ sumsq (cellI 2 3 3) (cellI 2 3 12) = 9.
Proof. unfold dim_ok. repeat split; try lia; vm_compute; reflexivity. Qed.
