(* C08 - the evolvent is a continuous (Hoelder) space-filling curve. Only statements; proofs live in Evolvent/. *)
From Coq Require Import ZArith QArith List Lia.
From IOptV Require Import Evolvent.Ev Evolvent.Adj Evolvent.Bij Evolvent.Curve Evolvent.Image Evolvent.Holder Evolvent.Dims Evolvent.Bridge.
Import ListNotations.
Open Scope Z_scope.

(* consecutive subintervals map to face-adjacent cells: exactly one coordinate differs, by exactly one cell *)
Theorem C08_consecutive_face_adjacent : forall n m i, dim_ok n -> 0 <= i -> i + 1 < B n m ->
  adjacent (cellI n m i) (cellI n m (i + 1)).
Proof. intros n m i H. exact (cellI_adjacent n (all_ok_dim n H) m i). Qed.
Print Assumptions C08_consecutive_face_adjacent.

(* the 2^N cells of density m+1 subdividing subinterval i lie inside the density-m cell of i *)
Theorem C08_nested : forall n m j, dim_ok n -> 0 <= j < B n (m + 1) ->
  map (fun z => z / 2) (cellI n (m + 1) j) = cellI n m (j / 2 ^ Z.of_nat n).
Proof.
  intros n m j H Hj. pose proof (cellI_nested n (all_ok_dim n H) m 1 j Hj) as N.
  replace (B n 1) with (2 ^ Z.of_nat n) in N by (unfold B; rewrite Nat.mul_1_r; reflexivity). exact N.
Qed.
Print Assumptions C08_nested.

(* general nesting over k levels *)
Theorem C08_nested_k : forall n m k j, dim_ok n -> 0 <= j < B n (m + k) ->
  map (fun z => z / 2 ^ Z.of_nat k) (cellI n (m + k) j) = cellI n m (j / B n k).
Proof. intros n m k j H. exact (cellI_nested n (all_ok_dim n H) m k j). Qed.
Print Assumptions C08_nested_k.

(* Hoelder bound at cell level: subintervals whose depth-k ancestors coincide or are consecutive (in particular
   |i - j| < 2^(n(m-k)), i.e. |x' - x''| < 2^(-n k)) have cells with squared distance < (n+3) 4^(m-k) cell widths,
   i.e. ||y' - y''||^2 < (n+3) 4^(-k) in cube units *)
Theorem C08_holder_cells : forall n m k i j, dim_ok n -> (k <= m)%nat -> 0 <= i < B n m -> 0 <= j < B n m ->
  Z.abs (i - j) < B n (m - k) ->
  sumsq (cellI n m i) (cellI n m j) < (Z.of_nat n + 3) * 4 ^ Z.of_nat (m - k).
Proof. intros n m k i j H. apply (holder_cells n (all_ok_dim n H)). unfold dim_ok in H. lia. Qed.
Print Assumptions C08_holder_cells.

Theorem C08_holder_cells_close : forall n m k i j, dim_ok n -> (k <= m)%nat -> 0 <= i < B n m -> 0 <= j < B n m ->
  Z.abs (i / B n (m - k) - j / B n (m - k)) <= 1 ->
  sumsq (cellI n m i) (cellI n m j) < (Z.of_nat n + 3) * 4 ^ Z.of_nat (m - k).
Proof. intros n m k i j H. apply (holder_cells_close n (all_ok_dim n H)). unfold dim_ok in H. lia. Qed.
Print Assumptions C08_holder_cells_close.

Theorem C08_tie_generated_node : forallb node_agrees [2; 3; 4; 5]%nat = true.
Proof. exact gen_node_is_node. Qed.
Print Assumptions C08_tie_generated_node.
Theorem C08_tie_generated_queries : forallb (fun nm => query_agrees (fst nm) (snd nm))
    [(2, 1); (2, 2); (2, 3); (2, 4); (3, 1); (3, 2); (3, 3); (4, 1); (4, 2); (5, 1); (5, 2)]%nat = true.
Proof. exact gen_queries_agree_small. Qed.
Print Assumptions C08_tie_generated_queries.

Example C08_nonvacuous : dim_ok 2 /\ adjacent (cellI 2 3 21) (cellI 2 3 22) /\
  map (fun z => z / 2) (cellI 2 3 22) = cellI 2 2 5 /\ sumsq (cellI 2 3 3) (cellI 2 3 12) = 9.
Proof. unfold dim_ok. repeat split; try lia; vm_compute; reflexivity. Qed.
