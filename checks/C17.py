"""C17 - evolvent queries are pure."""
from vlib import core, evo_corr, oracles as O, harness as H


def random_history(rng, length):
    n = rng.choice([1, 2, 3, 4, 5])
    m = 10 if n == 1 else rng.choice([2, 3, 5, 10, 50 // n])
    lo, hi = H.random_box(rng, n, nice=rng.random() < 0.4)
    if rng.random() < 0.15:
        lo, hi = [-0.5] * n, [0.5] * n
    elif rng.random() < 0.2:      # the first box given as python ints (as the project's own tests do); later SetBounds calls give real bounds
        lo, hi = [-1] * n, [rng.choice([1, 2])] * n
    cur = (lo, hi)
    ops = []
    xs = [rng.random() for _ in range(3)] + [0.0, 1.0, 0.5]
    for _ in range(length):
        k = rng.random()
        if k < 0.45:
            ops.append(('img', rng.choice(xs)))
        elif k < 0.8:
            dt = rng.choice(['float64', 'float64', 'float64', 'list', 'int', 'float32'])
            y = [a + (b - a) * rng.random() for a, b in zip(*cur)]
            if dt == 'int':
                y = [float(rng.randint(int(a) + 1, max(int(a) + 1, int(b)))) for a, b in zip(*cur)]
            if dt == 'float32':
                y = [a + (b - a) * rng.randrange(0, 1025) / 1024.0 for a, b in zip(*cur)] if all(float(a).is_integer() and float(b).is_integer() for a, b in zip(*cur)) else None
            if y is None:
                dt = 'float64'; y = [a + (b - a) * rng.random() for a, b in zip(*cur)]
            ops.append((rng.choice(['inv', 'pre']), y, dt))
        else:
            cur = H.random_box(rng, n, nice=rng.random() < 0.4)
            ops.append(('bounds', cur[0], cur[1]))
    return {'n': n, 'm': m, 'lo': lo, 'hi': hi, 'ops': ops}


def shrink(case):
    ops = list(case['ops'])
    i = 0
    while i < len(ops):
        trial = ops[:i] + ops[i + 1:]
        if O.guarded(O.c17_history, dict(case, ops=trial)):
            ops = trial
        else:
            i += 1
    return dict(case, ops=ops)


def run(chk):
    rng = H.rng_for(chk.seed, 'C17')
    thorough = chk.tier == 'thorough'
    core.proof_stage(chk, 'Properties/C17.v', extra_targets=['Evolvent/Corr.vo'])
    ok2, bad_img = evo_corr.run_image_corr(chk, rng, 1500 if thorough else 400)
    chk.obligation('correspondence: GetImage = generated/clean model image', ok2 and not bad_img, 'first: %r' % bad_img[:3])
    chk.assumptions += ['numpy arrays modelled as immutable lists; aliasing enters through the copy policy read from the source (C17_copy_policy) '
                        'and is exercised by the history-differential runs', 'arguments are float64 arrays / python floats']
    found = 0
    nops = 0
    for _ in range(1200 if thorough else 250):
        case = random_history(rng, rng.randint(2, 14))
        fails = O.guarded(O.c17_history, case)
        chk.evaluations += 1
        nops += len(case['ops'])
        if fails:
            small = shrink(case)
            found += chk.violation('history', O.guarded(O.c17_history, small)[0], {'kind': 'history', 'case': small})
            if found > 2:
                break
    # the solver's own evolvent: the same queries answer the same before and after a search, and like a fresh object
    for _ in range(24 if thorough else 8):
        n = rng.choice([2, 2, 3])
        lo, hi = H.random_box(rng, n, nice=rng.random() < 0.5)
        case = {'n': n, 'lo': lo, 'hi': hi, 'r': rng.choice([2.5, 3.5]), 'eps': rng.choice([0.01, 0.001]), 'iters': rng.choice([150, 400]), 'density': rng.choice([2, 3, 4, 5]),
                'objective': H.random_objective(rng, n, kinds=('quad', 'cones', 'sin'), lo=lo, hi=hi)}
        fails = O.guarded(solver_evolvent_pure, case)
        chk.evaluations += 1
        if fails:
            found += chk.violation('history', fails[0], {'kind': 'solver', 'case': case})
    chk.cov['history_ops'] = nops
    chk.nontrivial += chk.evaluations
    if not found:
        for c in bad_img[:2]:
            chk.violation('image-mismatch', 'GetImage disagrees with the model (code %d)' % c['code'], {'kind': 'image-corr', 'case': c}, found_input=False)


def solver_evolvent_pure(case):
    import numpy as np
    from iOpt.evolvent.evolvent import Evolvent
    p, s = O.build(case)
    xs = [0.0, 0.1234, 0.5, 0.75, 0.999, 1.0] + [i / 37.0 for i in range(1, 37, 5)]
    ys = [[a + (b - a) * t for a, b in zip(case['lo'], case['hi'])] for t in (0.1, 0.37, 0.62, 0.9)]

    def ask(ev):
        return [tuple(float(v) for v in ev.GetImage(x)) for x in xs] + [float(ev.GetInverseImage(np.array(y, dtype=np.double))) for y in ys]
    before = ask(s.evolvent)
    from iOpt.method.listener import Listener
    handed = []      # (the array object a listener was given as a trial's point, its content at that time, the trial's curve coordinate)

    class Keep(Listener):
        def OnEndIteration(self, pts, sol=None):
            for q in pts:
                a = q.GetY().floatVariables
                handed.append((a, [float(v) for v in a], q.GetX()))
    s.AddListener(Keep())
    sol, out = H.run_script(s, [('iter', 7), ('refine', 25), ('iter', 6), ('solve',)])
    after = ask(s.evolvent)
    fresh = ask(Evolvent(case['lo'], case['hi'], case['n'], case['density']))
    fails = []
    for a, was, x in handed:
        if [float(v) for v in a] != was:
            fails.append('the point array handed to a listener for the trial at x=%r was changed afterwards: %r -> %r' % (x, was, [float(v) for v in a])); break
    if before != after:
        k = next(i for i in range(len(before)) if before[i] != after[i])
        fails.append('the solver\'s evolvent answers query %d differently after the search (%r -> %r; N=%d, density %d, %d trials)' % (k, before[k], after[k], case['n'], case['density'], len(p.log)))
    elif after != fresh:
        k = next(i for i in range(len(fresh)) if fresh[i] != after[i])
        fails.append('the solver\'s evolvent answers query %d unlike a fresh Evolvent with the same configuration (%r vs %r)' % (k, after[k], fresh[k]))
    return fails


def replay(chk, rp):
    if rp.get('kind') == 'solver':
        fails = O.guarded(solver_evolvent_pure, rp['case']); print(fails); return not fails
    c = rp['case']
    c['ops'] = [tuple(o) for o in c['ops']]
    fails = O.guarded(O.c17_history, c)
    print(fails)
    return not fails
