"""C17 - evolvent queries are pure."""
from vlib import core, evo_corr, oracles as O, harness as H


def random_history(rng, length):
    n = rng.choice([1, 2, 3, 4, 5])
    m = 10 if n == 1 else rng.choice([2, 3, 5, 10, 50 // n])
    lo, hi = H.random_box(rng, n, nice=rng.random() < 0.4)
    if rng.random() < 0.15:
        lo, hi = [-0.5] * n, [0.5] * n
    cur = (lo, hi)
    ops = []
    xs = [rng.random() for _ in range(3)] + [0.0, 1.0, 0.5]
    for _ in range(length):
        k = rng.random()
        if k < 0.45:
            ops.append(('img', rng.choice(xs)))
        elif k < 0.8:
            dt = rng.choice(['float64', 'float64', 'float64', 'list', 'int', 'float32'])
            y = [a + (b - a) * rng.random() for a, b in zip(*cur)]
            if dt == 'int':
                y = [float(rng.randint(int(a) + 1, max(int(a) + 1, int(b)))) for a, b in zip(*cur)]
            if dt == 'float32':
                y = [a + (b - a) * rng.randrange(0, 1025) / 1024.0 for a, b in zip(*cur)] if all(float(a).is_integer() and float(b).is_integer() for a, b in zip(*cur)) else None
            if y is None:
                dt = 'float64'; y = [a + (b - a) * rng.random() for a, b in zip(*cur)]
            ops.append((rng.choice(['inv', 'pre']), y, dt))
        else:
            cur = H.random_box(rng, n, nice=rng.random() < 0.4)
            ops.append(('bounds', cur[0], cur[1]))
    return {'n': n, 'm': m, 'lo': lo, 'hi': hi, 'ops': ops}


def shrink(case):
    ops = list(case['ops'])
    i = 0
    while i < len(ops):
        trial = ops[:i] + ops[i + 1:]
        if O.guarded(O.c17_history, dict(case, ops=trial)):
            ops = trial
        else:
            i += 1
    return dict(case, ops=ops)


def run(chk):
    rng = H.rng_for(chk.seed, 'C17')
    thorough = chk.tier == 'thorough'
    core.proof_stage(chk, 'Properties/C17.v', extra_targets=['Evolvent/Corr.vo'])
    ok2, bad_img = evo_corr.run_image_corr(chk, rng, 1500 if thorough else 400)
    chk.obligation('correspondence: GetImage = generated/clean model image', ok2 and not bad_img, 'first: %r' % bad_img[:3])
    chk.assumptions += ['numpy arrays modelled as immutable lists; aliasing enters through the copy policy read from the source (C17_copy_policy) '
                        'and is exercised by the history-differential runs', 'arguments are float64 arrays / python floats']
    found = 0
    nops = 0
    for _ in range(1200 if thorough else 250):
        case = random_history(rng, rng.randint(2, 14))
        fails = O.guarded(O.c17_history, case)
        chk.evaluations += 1
        nops += len(case['ops'])
        if fails:
            small = shrink(case)
            found += chk.violation('history', O.guarded(O.c17_history, small)[0], {'kind': 'history', 'case': small})
            if found > 2:
                break
    chk.cov['history_ops'] = nops
    chk.nontrivial += chk.evaluations
    if not found:
        for c in bad_img[:2]:
            chk.violation('image-mismatch', 'GetImage disagrees with the model (code %d)' % c['code'], {'kind': 'image-corr', 'case': c})


def replay(chk, rp):
    c = rp['case']
    c['ops'] = [tuple(o) for o in c['ops']]
    fails = O.guarded(O.c17_history, c)
    print(fails)
    return not fails
