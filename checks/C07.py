"""C07 - evolvent visits every grid cell exactly once."""
from vlib import core, evo_corr, oracles as O, harness as H

GRIDS_QUICK = [(2, 1), (2, 2), (2, 3), (2, 4), (2, 5), (3, 1), (3, 2), (3, 3), (4, 1), (4, 2), (5, 1), (5, 2)]
GRIDS_THOROUGH = GRIDS_QUICK + [(2, 6), (2, 7), (3, 4), (4, 3), (5, 3), (2, 8), (3, 5), (4, 4)]


def search(chk, rng, n_points):
    """direct oracle on the implementation: concrete failing inputs"""
    found = 0
    for n, m in [(2, 3), (3, 2), (2, 5), (4, 2), (5, 2), (2, 4), (3, 3), (2, 2)]:
        lo, hi = H.random_box(rng, n, nice=True)
        pre = O.random_prehistory(rng, n, lo, hi) if (n, m) not in ((2, 3), (3, 2)) else []
        fails = O.guarded(lambda c: O.c07_cells(n, m, lo, hi, pre)[0], None)
        chk.evaluations += 2 ** (n * m)
        for f in fails[:1]:
            found += chk.violation('cells', f, {'kind': 'cells', 'n': n, 'm': m, 'lo': lo, 'hi': hi, 'prehistory': pre})
    for _ in range(n_points):
        n = rng.choice([1, 2, 3, 4, 5])
        m = 10 if n == 1 else rng.choice([1, 2, 3, 5, 10, 50 // n])
        lo, hi = H.random_box(rng, n)
        for x in evo_corr.edge_xs(rng, n, m)[:6] + [rng.random()]:
            case = {'n': n, 'm': m, 'lo': lo, 'hi': hi, 'x': x, 'prehistory': O.random_prehistory(rng, n, lo, hi)}
            fails = O.guarded(O.c07_point, case)
            chk.evaluations += 1
            if fails:
                found += chk.violation('point', fails[0], {'kind': 'point', 'case': case})
                if found > 3:
                    return found
    return found


def run(chk):
    rng = H.rng_for(chk.seed, 'C07')
    thorough = chk.tier == 'thorough'
    proved = core.proof_stage(chk, 'Properties/C07.v', extra_targets=['Evolvent/Corr.vo'])
    # correspondence: implementation vs clean model vs generated model
    ok1, bad_cells, _ = evo_corr.run_cells_corr(chk, GRIDS_THOROUGH if thorough else GRIDS_QUICK) if proved or True else (True, [], {})
    ok2, bad_img = evo_corr.run_image_corr(chk, rng, 6000 if thorough else 1200)
    chk.obligation('correspondence: implementation cells = model cells on exhaustive small grids', ok1 and not bad_cells,
                   'first disagreements: %r' % bad_cells[:3])
    chk.obligation('correspondence: GetImage = model image (random N, m<=50/N, boxes, edge x)', ok2 and not bad_img,
                   'first disagreements: %r' % bad_img[:3])
    chk.trusted += ['exact binary64 arithmetic of the digit machine (products by 2^N, int(), sums of +-2^-k) - validated by the comparison itself',
                    'affine cube-to-box map compared with tolerance 2^-48 * scale']
    chk.assumptions += ['N in 2..5 for the curve statements (finite local lemmas enumerated per N); N = 1 affine',
                        'theorems are over exact rationals; the float execution is tied by the correspondence']
    # search for a concrete failing input (always run: cheap, and it is the replay when something above broke)
    found = search(chk, rng, 400 if thorough else 60)
    if not found:
        for c in bad_img[:2]:
            chk.violation('image-mismatch', 'GetImage disagrees with the model (code %d: 1 = generated model differs from clean model, 2 = implementation differs)' % c['code'],
                          {'kind': 'image-corr', 'case': c})
        for c in bad_cells[:2]:
            chk.violation('cell-mismatch', 'implementation cell differs from model cell', {'kind': 'cells-corr', 'case': c})


def replay(chk, rp):
    if rp.get('kind') == 'point' or 'case' in rp and 'x' in rp['case']:
        c = rp['case']
        fails = O.guarded(O.c07_point, {k: c.get(k) for k in ('n', 'm', 'lo', 'hi', 'x', 'prehistory')})
        print(fails)
        return not fails
    if rp.get('kind') == 'cells':
        fails, _ = O.c07_cells(rp['n'], rp['m'], rp.get('lo'), rp.get('hi'), rp.get('prehistory'))
        print(fails)
        return not fails
    print('replay names a broken obligation; re-run the check')
    return False
