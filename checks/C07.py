"""C07 - evolvent visits every grid cell exactly once."""
from vlib import core, evo_corr, oracles as O, harness as H

GRIDS_QUICK = [(2, 1), (2, 2), (2, 3), (2, 4), (2, 5), (3, 1), (3, 2), (3, 3), (4, 1), (4, 2), (5, 1), (5, 2)]
GRIDS_THOROUGH = GRIDS_QUICK + [(2, 6), (2, 7), (3, 4), (4, 3), (5, 3), (2, 8), (3, 5), (4, 4)]


def search(chk, rng, n_points):
    """direct oracle on the implementation: concrete failing inputs"""
    found = 0
    for n, m in [(2, 3), (3, 2), (2, 5), (4, 2), (5, 2), (2, 4), (3, 3), (2, 2)]:
        lo, hi = H.random_box(rng, n, nice=True)
        pre = O.random_prehistory(rng, n, lo, hi) if (n, m) not in ((2, 3), (3, 2)) else []
        fails = O.guarded(lambda c: O.c07_cells(n, m, lo, hi, pre)[0], None)
        chk.evaluations += 2 ** (n * m)
        for f in fails[:1]:
            found += chk.violation('cells', f, {'kind': 'cells', 'n': n, 'm': m, 'lo': lo, 'hi': hi, 'prehistory': pre})
    for _ in range(n_points):
        n = rng.choice([1, 2, 3, 4, 5])
        m = 10 if n == 1 else rng.choice([1, 2, 3, 5, 10, 50 // n])
        lo, hi = H.random_box(rng, n)
        for x in evo_corr.edge_xs(rng, n, m)[:6] + [rng.random()]:
            case = {'n': n, 'm': m, 'lo': lo, 'hi': hi, 'x': x, 'prehistory': O.random_prehistory(rng, n, lo, hi)}
            fails = O.guarded(O.c07_point, case)
            chk.evaluations += 1
            if fails:
                found += chk.violation('point', fails[0], {'kind': 'point', 'case': case})
                if found > 3:
                    return found
    # N = 1 (recorded finding F9): the literal statement "the image is the centre of a grid cell" does not hold, the map is affine
    from iOpt.evolvent.evolvent import Evolvent
    y = float(Evolvent([0.0], [1.0], 1, 10).GetImage(0.3)[0])
    j = y * 1024 - 0.5
    chk.evaluations += 1
    if abs(j - round(j)) > 1e-9:
        found += chk.violation('n1-affine', 'N = 1: GetImage(0.3) = %r on [0,1] with density 10 is not the centre (j+1/2)/1024 of a grid cell' % y, {'kind': 'n1', 'witness': 'n1-affine'})
    found += deep_distinct(chk, rng, n_points)
    found += thin_boxes(chk, rng)
    return found


def deep_case(c):
    from fractions import Fraction as Fr
    n, m, lo, hi, i, j, k = c['n'], c['m'], c['lo'], c['hi'], c['i'], c['j'], c['k']
    K = 2 ** (n * m)
    ev = O.evolvent_of(c)
    w = [(b - a) / 2.0 ** m for a, b in zip(lo, hi)]
    ys = [[float(v) for v in ev.GetImage(float(Fr(2 * (i + t) + 1, 2 * K)))] for t in range(3)]
    out = []
    if ys[0] == ys[1] or ys[1] == ys[2] or ys[0] == ys[2]:
        out.append('subintervals %d, %d, %d of 2^%d (just beside the coarse boundary %d/2^%d) do not map to three different cells: %r' % (i, i + 1, i + 2, n * m, k, n * j, ys))
    q = [float(v) for v in ev.GetImage(float(Fr(4 * i + 1, 4 * K)))]
    if q != ys[0]:
        out.append('two points of subinterval %d of 2^%d map to different cells %r, %r' % (i, n * m, q, ys[0]))
    for a_, b_ in ((ys[0], ys[1]), (ys[1], ys[2])):
        d = sorted(round(abs(u - v) / c_, 6) for u, v, c_ in zip(a_, b_, w))
        if d != [0.0] * (n - 1) + [1.0] and not out:
            out.append('consecutive subintervals near %d of 2^%d map to cells %r apart (in cell widths)' % (i, n * m, d))
    return out


def deep_distinct(chk, rng, count):
    """fine grids (N*m up to 50): subintervals just left and right of coarse boundaries k/2^(N j) must map to pairwise different cells
    (consecutive ones to neighbouring cells), and every point of one subinterval to the same cell"""
    from fractions import Fraction as Fr
    found = 0
    for _ in range(count):
        n = rng.choice([2, 3, 4, 5])
        m = rng.choice([50 // n, 50 // n - 1, max(2, 34 // n + 1), 10 if n * 10 <= 50 else 50 // n])
        lo, hi = H.random_box(rng, n, nice=rng.random() < 0.5)
        case = {'n': n, 'm': m, 'lo': lo, 'hi': hi, 'prehistory': O.random_prehistory(rng, n, lo, hi), 'm_type': 'int32' if _ % 3 == 2 else 'int'}
        K = 2 ** (n * m)
        j = rng.randint(0, min(m - 1, 3))
        k = rng.randrange(0, 2 ** (n * j)) if j else 0
        base = k * 2 ** (n * (m - j))
        off = rng.choice([0, 1, 2, rng.randrange(1, 2 ** 10), rng.randrange(1, 2 ** 17)]) * rng.choice([1, 1, -1])
        i = min(max(base + off, 0), K - 3)

        case.update(i=i, j=j, k=k)
        fails = O.guarded(deep_case, case)
        chk.evaluations += 1
        if fails:
            found += chk.violation('cells', fails[0], {'kind': 'deep', 'case': case})
            if found > 2:
                break
    return found


def thin_boxes(chk, rng):
    """boxes with very thin or very large sides: images are still the cell centres (different cells -> different points, inside the box)"""
    found = 0
    for side in (1e-12, 3e-11, 1e-9, 1e-6, 1e6, 1e9):
        for n, m in ((1, 10), (2, 3), (3, 2)):
            lo = [rng.choice([0.0, 5.0, -3.0])] * n
            hi = [a + (side if t == 0 else 1.0) for t, a in enumerate(lo)]

            def one(_):
                from iOpt.evolvent.evolvent import Evolvent
                ev = Evolvent(lo, hi, n, m)
                K = 2 ** (n * m) if n > 1 else 64
                ys = [tuple(float(v) for v in ev.GetImage((2 * i + 1) / (2.0 * K))) for i in range(K)]
                out = []
                if len(set(ys)) != K:
                    out.append('box with a side of %g (N=%d, m=%d): %d subintervals map to only %d different points' % (side, n, m, K, len(set(ys))))
                firsts = sorted(set(y[0] for y in ys))
                exp = (2 ** m if n > 1 else K)
                if len(firsts) != exp:
                    out.append('box with a side of %g (N=%d, m=%d): first coordinate takes %d values, expected %d' % (side, n, m, len(firsts), exp))
                if any(not (lo[0] <= y[0] <= hi[0]) for y in ys):
                    out.append('box with a side of %g: an image leaves the box' % side)
                return out
            fails = O.guarded(one, None)
            chk.evaluations += 1
            if fails:
                found += chk.violation('cells', fails[0], {'kind': 'thin', 'side': side, 'n': n, 'm': m, 'lo': lo, 'hi': hi})
                break
    return found


def run(chk):
    rng = H.rng_for(chk.seed, 'C07')
    thorough = chk.tier == 'thorough'
    proved = core.proof_stage(chk, 'Properties/C07.v', extra_targets=['Evolvent/Corr.vo'])
    # correspondence: implementation vs clean model vs generated model
    ok1, bad_cells, _ = evo_corr.run_cells_corr(chk, GRIDS_THOROUGH if thorough else GRIDS_QUICK) if proved or True else (True, [], {})
    ok2, bad_img = evo_corr.run_image_corr(chk, rng, 6000 if thorough else 1200)
    chk.obligation('correspondence: implementation cells = model cells on exhaustive small grids', ok1 and not bad_cells,
                   'first disagreements: %r' % bad_cells[:3])
    chk.obligation('correspondence: GetImage = model image (random N, m<=50/N, boxes, edge x)', ok2 and not bad_img,
                   'first disagreements: %r' % bad_img[:3])
    chk.trusted += ['exact binary64 arithmetic of the digit machine (products by 2^N, int(), sums of +-2^-k) - validated by the comparison itself',
                    'affine cube-to-box map compared with tolerance 2^-48 * scale']
    chk.assumptions += ['N in 2..5 for the curve statements (finite local lemmas enumerated per N); N = 1 affine',
                        'theorems are over exact rationals; the float execution is tied by the correspondence']
    # search for a concrete failing input (always run: cheap, and it is the replay when something above broke)
    found = search(chk, rng, 400 if thorough else 60)
    if not found:
        for c in bad_img[:2]:
            chk.violation('image-mismatch', 'GetImage disagrees with the model (code %d: 1 = generated model differs from clean model, 2 = implementation differs)' % c['code'],
                          {'kind': 'image-corr', 'case': c}, found_input=False)
        for c in bad_cells[:2]:
            chk.violation('cell-mismatch', 'implementation cell differs from model cell', {'kind': 'cells-corr', 'case': c})


def replay(chk, rp):
    if rp.get('kind') == 'deep':
        fails = O.guarded(deep_case, rp['case']); print(fails); return not fails
    if rp.get('kind') == 'point' or 'case' in rp and 'x' in rp['case']:
        c = rp['case']
        fails = O.guarded(O.c07_point, {k: c.get(k) for k in ('n', 'm', 'lo', 'hi', 'x', 'prehistory')})
        print(fails)
        return not fails
    if rp.get('kind') == 'cells':
        fails, _ = O.c07_cells(rp['n'], rp['m'], rp.get('lo'), rp.get('hi'), rp.get('prehistory'))
        print(fails)
        return not fails
    print('replay names a broken obligation; re-run the check')
    return False
