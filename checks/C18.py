"""C18 - problem metadata is well-formed; published tables agree with the functions."""
import math

import os

from vlib import core, bench, bench_checks as B, harness as H

PT = bench.PT

META_HEADER = """From Coq Require Import ZArith QArith List Bool.
From IOptV Require Import Problems.Meta.
Import ListNotations.
"""


def all_instances(thorough, rng):
    out = [('Hill', {'k': k}) for k in range(1000)] + [('Shekel', {'k': k}) for k in range(1000)] + [('Shekel4', {'k': k}) for k in (1, 2, 3)]
    out += [('Grishagin', {'k': k}) for k in (range(1, 101) if thorough else rng.sample(range(1, 101), 6))]
    out += [('GKLS', {'dim': d, 'k': k}) for d in (2, 3, 4, 5) for k in (range(1, 101) if thorough else rng.sample(range(1, 101), 8))]
    out += [('Rastrigin', {'dim': n}) for n in range(1, 9)] + [('XSquared', {'dim': n}) for n in range(1, 9)] + [('StronginC3', {})]
    return out


def meta_of(fam, kw):
    pb = B.problem(fam, **kw)
    ko = pb.knownOptimum[0]
    return {'family': fam, 'args': kw, 'dim': int(pb.numberOfFloatVariables), 'names': len(pb.floatVariableNames),
            'lower': [float(v) for v in pb.lowerBoundOfFloatVariables], 'upper': [float(v) for v in pb.upperBoundOfFloatVariables],
            'objectives': int(pb.numberOfObjectives), 'optimum': [float(v) for v in ko.point.floatVariables],
            'dimension_attr': int(getattr(pb, 'dimension', pb.numberOfFloatVariables))}


def meta_v(ms):
    rows = ['mkMeta %d %d %s %s %d %s' % (m['dim'], m['names'], core.coq_list([core.qlit(v) for v in m['lower']]), core.coq_list([core.qlit(v) for v in m['upper']]),
                                        m['objectives'], core.coq_list([core.qlit(v) for v in m['optimum']])) for m in ms]
    return META_HEADER + 'Definition dump : list meta := [\n' + ';\n'.join(rows) + '\n].\n' + \
        'Eval vm_compute in (map fst (filter (fun p => negb (wf_meta (snd p))) (combine (seq 0 (length dump)) dump))).\n'


def table_row_numeric(fam, k):
    """direct oracle on the real Calculate for one table row"""
    gen = PT.load_tables(core.REPO, PT.FAMILIES[fam][2][list(PT.FAMILIES[fam][2])[0]])
    mn, mx, lc = bench.tables_1d(core.REPO, fam)
    pb = B.problem(fam, k=k)
    lo, hi = float(pb.lowerBoundOfFloatVariables[0]), float(pb.upperBoundOfFloatVariables[0])
    side = hi - lo
    n = 20001
    xs = [lo + side * i / (n - 1) for i in range(n)]
    vals = [B.calc(pb, [x]) for x in xs]
    out = []
    for tag, row, pick in (('minimum', mn[k], min), ('maximum', mx[k], max)):
        i = vals.index(pick(vals))
        # refine by ternary search around the grid extremum
        a, b = xs[max(i - 1, 0)], xs[min(i + 1, n - 1)]
        sgn = 1 if tag == 'minimum' else -1
        for _ in range(60):
            m1, m2 = a + (b - a) / 3, b - (b - a) / 3
            if sgn * B.calc(pb, [m1]) < sgn * B.calc(pb, [m2]):
                b = m2
            else:
                a = m1
        x = (a + b) / 2; v = B.calc(pb, [x])
        if abs(v - float(row[0])) > 1e-4:
            out.append('%s row %d: tabulated %s value %r, function has %r (at %r)' % (fam, k, tag, float(row[0]), v, x))
        if abs(x - float(row[1])) > 1e-4 * side + 2e-5 * side and abs(B.calc(pb, [float(row[1])]) - v) > 1e-7:
            out.append('%s row %d: tabulated %s location %r, function has it at %r' % (fam, k, tag, float(row[1]), x))
    h = side / (n - 1)
    slope = max(abs(vals[i + 1] - vals[i]) / h for i in range(n - 1))
    L = float(lc[k])
    if abs(slope - L) > 1e-3 * L + 2e-3 * L:      # finite-difference estimate: generous band; the theorem has the exact band
        out.append('%s row %d: tabulated Lipschitz constant %r, function has about %r' % (fam, k, L, slope))
    return out


def run(chk):
    rng = H.rng_for(chk.seed, 'C18')
    thorough = chk.tier == 'thorough'
    core.proof_stage(chk, 'Properties/C18.v', extra_targets=['Problems/Families.vo', 'Problems/Simple.vo', 'Problems/Meta.vo'])
    chk.trusted += ['coq-interval and Coquelicot (auto_derive)', 'decimal literals of the tables are used as written']
    chk.assumptions += ['table rows proved in this run are listed in coverage.instances_proved (quick: seeded sample of 10 + 10 rows; thorough: 100 + 100 rows chosen by --seed; VERIF_ALL_ROWS=1: all 2 x 1000)',
                        'variable names are empty strings for the numpy-built families (dtype=str of width 0): the property does not forbid that',
                        'location statements: every global extremiser lies within 1e-4 of the range of the tabulated one (c18_min_located / c18_max_located: derivative sign near the tabulated point + '
                        'separation beyond 0.5%, combined by Problems/Locate.v, mean value theorem); the derivative bound is turned into a Lipschitz statement by lipschitz_from_derivative']
    found = 0
    # (a) metadata of every constructed instance: kernel check + direct check
    insts = all_instances(thorough, rng)
    ms = []
    for fam, kw in insts:
        try:
            ms.append(meta_of(fam, kw))
        except BaseException as e:  # noqa
            if isinstance(e, KeyboardInterrupt):
                raise
            found += chk.violation('metadata', '%s%r: construction / metadata access raised %s: %s' % (fam, kw, type(e).__name__, str(e)[:150]), {'kind': 'meta', 'family': fam, 'args': kw})
    rc, out, _ = core.coq_eval(meta_v(ms), tag='meta')
    vals = core.parse_eval_lines(out) if rc == 0 else None
    bad_idx = None
    if vals:
        import re
        bad_idx = [int(t) for t in re.findall(r'\d+', vals[-1].split(':')[0])] if vals[-1].strip() not in ('[]', 'nil') else []
    chk.obligation('metadata dump of %d constructed instances satisfies wf_meta (kernel evaluation)' % len(ms), bad_idx == [], 'bad: %r %s' % (bad_idx, out[-300:] if bad_idx is None else ''))
    chk.evaluations += len(ms)
    chk.nontrivial += len(ms)
    for m in ms:
        probs = []
        if m['names'] != m['dim'] or len(m['lower']) != m['dim'] or len(m['upper']) != m['dim'] or m['dimension_attr'] != m['dim']:
            probs.append('dimension %d, %d names, %d/%d bounds, dimension attribute %d' % (m['dim'], m['names'], len(m['lower']), len(m['upper']), m['dimension_attr']))
        if not all(a < b for a, b in zip(m['lower'], m['upper'])):
            probs.append('bounds not lower < upper')
        if m['objectives'] != 1:
            probs.append('%d objectives' % m['objectives'])
        if len(m['optimum']) != m['dim'] or not all(a <= c <= b for a, c, b in zip(m['lower'], m['optimum'], m['upper'])):
            probs.append('known optimum %r not inside the box' % (m['optimum'],))
        if probs and found < 4:
            found += chk.violation('metadata', '%s%r: %s' % (m['family'], m['args'], '; '.join(probs)), {'kind': 'meta', 'family': m['family'], 'args': m['args']})
    # (b) table rows
    allrows = bool(os.environ.get('VERIF_ALL_ROWS'))      # soak: every one of the 2 x 1000 rows (hours); thorough: a seeded sample of 100 + 100
    ks = {fam: (list(range(1000)) if allrows else sorted(set(rng.sample(range(1000), 98 if thorough else 8) + [0, 999]))) for fam in ('Hill', 'Shekel')}
    texts, tie = [], []
    try:
        for fam in ('Hill', 'Shekel'):
            for k in ks[fam]:
                tx, names, info = bench.instance_1d(core.REPO, fam, k)
                texts.append(((fam, k), tx, names))
                if len(tie) < 40:
                    tie.append((fam, {'k': k}, info['expr'], [info['box'][0]], [info['box'][1]]))
        gen_ok = True
    except Exception as e:
        gen_ok = False
        chk.obligation('benchmark formulas and tables re-read from the source', False, '%s: %s' % (type(e).__name__, e))
    res = B.run_batches(chk, texts, 'C18 table-row theorems') if gen_ok else {}
    if gen_ok:
        B.formula_tie(chk, rng, tie)
    chk.sample({'table_row': 'Shekel %d' % ks['Shekel'][0], 'lemmas': [n for n in (texts[-1][2] if texts else []) if n.startswith('c18')]})
    failing = [k for k, v in res.items() if not v[0]]
    rows = failing + [(fam, k) for fam in ('Hill', 'Shekel') for k in ks[fam] if (fam, k) not in failing][:(2000 if thorough else 12)]
    # history: rows evaluated one after another in one process, also revisiting earlier rows (tables must describe each row's own function)
    for fam, k in rows + rows[:4]:
        for msg in table_row_numeric(fam, k):
            found += chk.violation('table-row', msg, {'kind': 'row', 'family': fam, 'k': k})
        chk.evaluations += 1
        if found > 4:
            break
    # every one of the 2 x 1000 rows: the function never goes beyond its published extreme values (numpy scan over the coefficient
    # tables re-read from the source; a candidate is confirmed with the real Calculate before it is reported)
    for fam in ('Hill', 'Shekel'):
        try:
            hits, nrows = B.scan_all_rows(fam)
        except Exception as e:  # noqa
            chk.obligation('scan of all %s rows' % fam, False, '%s: %s' % (type(e).__name__, str(e)[:200])); continue
        chk.evaluations += nrows
        for k, msg, wit in hits[:3]:
            found += chk.violation('table-row', msg, {'kind': 'row', 'family': fam, 'k': k, 'witness': wit})
    if not found:
        for key, v in res.items():
            if not v[0]:
                chk.violation('row-theorem', 'table-row theorem %s of %s no longer checks' % (v[1], key), {'kind': 'lemma', 'instance': list(key), 'lemma': v[1], 'coq': v[2]}, found_input=False)


def replay(chk, rp):
    if rp.get('kind') == 'row':
        fails = table_row_numeric(rp['family'], rp['k']); print(fails); return not fails
    if rp.get('kind') == 'meta':
        m = meta_of(rp['family'], rp['args']); print(m); return True
    print('re-run the check')
    return False
