"""C05 - evaluations and result inside the box; refinement never worsens."""
from vlib import core, evo_corr, agp_corr as A, oracles as O, harness as H


def case_for(rng):
    n = rng.choice([1, 2, 2, 3, 4, 5])
    lo, hi = H.random_box(rng, n, nice=rng.random() < 0.3)
    k = rng.random()
    if k < 0.4:      # unconstrained minimum outside / on the boundary of the box
        c = [rng.choice([a - rng.uniform(0.5, 3), b + rng.uniform(0.5, 3), a, b]) for a, b in zip(lo, hi)]
        obj = {'kind': 'quad', 'c': c}
    elif k < 0.6:
        obj = {'kind': 'linear', 'a': [round(rng.uniform(-2, 2), 2) or 1.0 for _ in range(n)]}
    else:
        obj = H.random_objective(rng, n, kinds=('sin', 'multi', 'prod', 'cones'), lo=lo, hi=hi)
    return {'n': n, 'lo': lo, 'hi': hi, 'objective': obj, 'r': round(rng.uniform(1.5, 4), 2), 'eps': rng.choice([0.05, 0.01]),
            'iters': rng.choice([20, 40, 80]), 'refine': rng.random() < 0.7, 'density': rng.choice([None, None, 4, 8]) if n > 1 else None}


def run(chk):
    rng = H.rng_for(chk.seed, 'C05')
    thorough = chk.tier == 'thorough'
    core.proof_stage(chk, 'Properties/C05.v', extra_targets=['Evolvent/Corr.vo'])
    ok2, bad_img = evo_corr.run_image_corr(chk, rng, 2000 if thorough else 400)
    chk.obligation('correspondence: GetImage = model image (every trial point is such an image)', ok2 and not bad_img, 'first: %r' % bad_img[:3])
    chk.assumptions += ['scipy.optimize Nelder-Mead is an assumed contract (bounds passed => evaluations and result inside the bounds); it is exercised, not modelled',
                        'float rounding of the affine cube-to-box map for boxes narrower than ~2^11 ulps of their magnitude is not covered']
    found = 0
    for _ in range(200 if thorough else 50):
        case = case_for(rng)
        fails = O.guarded(O.c05, case)
        chk.evaluations += 1
        chk.nontrivial += 1
        if fails:
            found += chk.violation('outside-box' if 'outside' in fails[0] else 'refinement', fails[0], {'kind': 'solve', 'case': case})
            if found > 2:
                break
    # explicit DoLocalRefinement calls, repeated
    for _ in range(40 if thorough else 10):
        case = case_for(rng); case['refine'] = False
        fails = O.guarded(refine_twice, case)
        chk.evaluations += 1
        if fails:
            found += chk.violation('refinement', fails[0], {'kind': 'refine-twice', 'case': case})
    # 1-D searches driven to the resolution of binary64 towards the faces of the box (linear objectives, tiny eps): every evaluation stays inside
    for _ in range(240 if thorough else 80):
        lo, hi = H.random_box(rng, 1)
        case = {'n': 1, 'lo': lo, 'hi': hi, 'objective': {'kind': 'linear', 'a': [(1 if _ % 2 else -1) * round(rng.uniform(0.3, 2), 2)]}, 'r': round(rng.uniform(1.6, 3), 2),
                'eps': 1e-18, 'iters': 90, 'refine': False, 'density': None}
        fails = O.guarded(O.c05, case)
        chk.evaluations += 1
        if fails:
            found += chk.violation('outside-box', fails[0], {'kind': 'solve', 'case': case})
            if found > 2:
                break
    # an evolvent that already served queries for another box and was then given this one (SetBounds): images lie in the CURRENT box
    for _ in range(60 if thorough else 20):
        n = rng.choice([1, 2, 3])
        lo, hi = H.random_box(rng, n)
        lo2 = [a - rng.choice([0.5, 2, 7]) for a in lo]; hi2 = [b + rng.choice([0.5, 1, 4]) for b in hi]
        if rng.random() < 0.5:
            lo2, hi2 = [b + 1.0 for b in hi], [b + 3.0 for b in hi]
        case = {'n': n, 'm': 10 if n == 1 else rng.choice([3, 6, 10]), 'lo': lo, 'hi': hi, 'x': rng.choice([rng.random(), 0.5, 0.25]),
                'prehistory': [('other_bounds', lo2, hi2), ('img', rng.random()), ('img', 0.5)]}
        fails = O.guarded(O.c07_point, case)
        chk.evaluations += 1
        if fails:
            found += chk.violation('outside-box', fails[0], {'kind': 'setbounds', 'case': case})
            if found > 2:
                break
    if not found:
        for c in bad_img[:2]:
            chk.violation('image-mismatch', 'GetImage disagrees with the model (code %d)' % c['code'], {'kind': 'image-corr', 'case': c}, found_input=False)


def refine_twice(case):
    fails = []
    p, s = O.build(case)
    f = H.objective(case['objective'])
    with H.quiet():
        try:
            s.DoGlobalIteration(case['iters'])
        except Exception as e:  # noqa
            # driving DoGlobalIteration past convergence (no stop check) ends in the float-resolution guard of
            # CalculateNextPointCoordinate: that is outside C05 (see finding F8 under C03); the trials made so far are still checked
            if 'x is outside of interval' not in str(e):
                raise
        g = min(v for _, v in p.log)
        for k in (30, 5):
            s.DoLocalRefinement(k)
            sol = s.GetResults()
            pt = [float(v) for v in sol.bestTrials[0].point.floatVariables]
            val = sol.bestTrials[0].functionValues[0].value
            if any(not (a <= c <= b) for a, c, b in zip(case['lo'], pt, case['hi'])):
                fails.append('after DoLocalRefinement(%d): returned point %r outside the box' % (k, pt))
            if val > g:
                fails.append('after DoLocalRefinement(%d): value %r worse than the best global trial %r' % (k, val, g))
            if f(pt) != val:
                fails.append('after DoLocalRefinement(%d): reported value %r != objective at the returned point %r' % (k, val, f(pt)))
            g = min(g, val)
        # the search goes on after a refinement: what is reported must stay the objective at the reported point
        for k in (1, 3):
            try:
                s.DoGlobalIteration(k)
            except Exception as e:  # noqa
                if 'x is outside of interval' not in str(e):
                    raise
                break
            sol = s.GetResults()
            pt = [float(v) for v in sol.bestTrials[0].point.floatVariables]
            val = sol.bestTrials[0].functionValues[0].value
            if f(pt) != val:
                fails.append('after refinement and %d more global iteration(s): reported value %r != objective at the reported point %r' % (k, val, f(pt)))
            if any(not (a <= c <= b) for a, c, b in zip(case['lo'], pt, case['hi'])):
                fails.append('after refinement and more global iterations: reported point %r outside the box' % (pt,))
    for y, v in p.log:
        if any(not (a <= c <= b) for a, c, b in zip(case['lo'], y, case['hi'])):
            fails.append('evaluation at %r outside the box' % (y,)); break
    return fails


def replay(chk, rp):
    if rp.get('kind') == 'setbounds':
        c = rp['case']; c['prehistory'] = [tuple(o) for o in c['prehistory']]
        fails = O.guarded(O.c07_point, c); print(fails); return not fails
    fails = O.guarded(O.c05 if rp.get('kind') == 'solve' else refine_twice, rp['case'])
    print(fails)
    return not fails
