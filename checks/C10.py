"""C10 - declared optimum of every benchmark instance is its global minimum."""
import os

from vlib import core, bench, bench_checks as B, harness as H

PT = bench.PT


def run(chk):
    rng = H.rng_for(chk.seed, 'C10')
    thorough = chk.tier == 'thorough'
    core.proof_stage(chk, 'Properties/C10.v', extra_targets=['Problems/Families.vo', 'Problems/Simple.vo'])
    chk.trusted += ['coq-interval (interval tactic: kernel-checked interval arithmetic over primitive floats) and Coquelicot (auto_derive)',
                    'decimal literals of the tables are used as written (they differ from the binary64 values the code uses by < 1e-16 relative)']
    chk.assumptions += ['per-instance statements are proved for the instances listed in coverage.instances_proved (quick: seeded sample of 10 + 10 rows; thorough: 100 + 100 rows chosen by --seed; VERIF_ALL_ROWS=1: all 1000 + 1000; Shekel4 and StronginC3 always)',
                        'GKLS: structure theorem + parameter check are under C14; StronginC3: proved over its feasible set by a Lagrangian-relaxation certificate (multiplier and feasible witness found numerically, checked by interval); Grishagin: numeric search only (stated in DESIGN.md)']
    allrows = bool(os.environ.get('VERIF_ALL_ROWS'))      # soak: every one of the 2 x 1000 rows (hours); thorough: a seeded sample of 100 + 100
    ks = {fam: (list(range(1000)) if allrows else sorted(set(rng.sample(range(1000), 98 if thorough else 8) + [0, 999]))) for fam in ('Hill', 'Shekel')}
    texts, insts, infos = [], [], {}
    try:
        for fam in ('Hill', 'Shekel'):
            for k in ks[fam]:
                tx, names, info = bench.instance_1d(core.REPO, fam, k)
                # C10 uses the optimum lemmas and the tie; the table lemmas belong to C18
                texts.append(((fam, k), tx, names)); infos[(fam, k)] = info
                if len(insts) < 60:
                    insts.append((fam, {'k': k}, info['expr'], [info['box'][0]], [info['box'][1]]))
        for k in (1, 2, 3):
            tx, names, info = bench.instance_shekel4(core.REPO, k)
            texts.append((('Shekel4', k), tx, names)); infos[('Shekel4', k)] = info
            insts.append(('Shekel4', {'k': k}, info['expr'], info['box'][0], info['box'][1]))
        tx, names, info = bench.instance_strongin(core.REPO)
        texts.append((('StronginC3', 0), tx, names)); infos[('StronginC3', 0)] = info
        chk.cov['strongin_certificate'] = {k: info[k] for k in ('constraint_used', 'multiplier', 'witness', 'witness_value_bound', 'numeric_margins')}
        tx, names = bench.simple_ties(core.REPO)
        texts.append((('Rastrigin/XSquared ties', 0), tx, names))
        for fam in ('Rastrigin', 'XSquared'):
            for n in (1, 2, 3, 5, 8, 16):
                ins = PT.instance(core.REPO, fam, dim=n)
                insts.append((fam, {'dim': n}, ins['expr'], ins['lo'], ins['hi']))
        gen_ok = True
    except Exception as e:  # the formula / table extraction is fail-closed
        gen_ok = False
        chk.obligation('benchmark formulas and tables re-read from the source', False, '%s: %s' % (type(e).__name__, e))
    res = B.run_batches(chk, texts, 'C10/C18 instance theorems') if gen_ok else {}
    if gen_ok:
        B.formula_tie(chk, rng, insts)
    chk.sample({'instance': 'Hill %d' % ks['Hill'][0], 'lemmas': texts[0][2] if texts else []})
    # direct numeric search on the real implementation
    found = 0
    targets = [(fam, k) for fam in ('Hill', 'Shekel') for k in ks[fam]]
    failing = [k for k, v in res.items() if not v[0] and k[0] in ('Hill', 'Shekel')]
    for fam, k in failing + [t for t in targets if t not in failing][:(2000 if thorough else 24)]:
        for msg, wit in B.numeric_c10_1d(fam, k):
            found += chk.violation('optimum', msg, {'kind': 'instance', 'family': fam, 'k': k, 'witness': wit})
        chk.evaluations += 1
        if found > 3:
            break
    for fam in ('Hill', 'Shekel'):      # all 1000 + 1000 rows: numpy scan for a point below the declared optimum value, confirmed with the real Calculate
        try:
            hits, nrows = B.scan_all_rows(fam)
        except Exception as e:  # noqa
            chk.obligation('scan of all %s rows' % fam, False, '%s: %s' % (type(e).__name__, str(e)[:200])); continue
        chk.evaluations += nrows
        for k, msg, wit in [h for h in hits if 'minimum' in h[1]][:3]:
            pb = B.problem(fam, k=k)
            v = float(pb.knownOptimum[0].functionValues[0].value)
            if B.calc(pb, wit['point']) < v - 2e-3 * max(1.0, abs(v)):
                found += chk.violation('optimum', '%s(%d): f(%r) = %r is lower than the declared optimum %r by more than 2e-3*max(1,|f*|)' % (fam, k, wit['point'][0], B.calc(pb, wit['point']), v),
                                       {'kind': 'instance', 'family': fam, 'k': k, 'witness': wit})
    found += strongin_feasible_search(chk)
    found += other_families(chk, rng, thorough)
    if not found:
        for key, v in res.items():
            if not v[0]:
                chk.violation('instance-theorem', 'instance theorem %s of %s no longer checks' % (v[1], key), {'kind': 'lemma', 'instance': list(key), 'lemma': v[1], 'coq': v[2]}, found_input=False)


def strongin_feasible_search(chk):
    """dense search of the FEASIBLE set of StronginC3 on the real Calculate (objective and the three constraints)"""
    import numpy as np
    from iOpt.trial import Point, FunctionValue, FunctionType
    pb = B.problem('StronginC3')
    lo = [float(v) for v in pb.lowerBoundOfFloatVariables]; hi = [float(v) for v in pb.upperBoundOfFloatVariables]
    ko = pb.knownOptimum[0]
    p = [float(v) for v in ko.point.floatVariables]; v = float(ko.functionValues[0].value)

    def val(y, kind, fid=0):
        fv = FunctionValue(kind, fid)
        return float(pb.Calculate(Point(np.array(y, dtype=np.double), []), fv).value)
    found = 0
    fp = val(p, FunctionType.OBJECTIV)
    if abs(fp - v) > 1e-4:
        found += chk.violation('optimum', 'StronginC3: objective at the declared optimum point is %r, declared value %r' % (fp, v), {'kind': 'instance', 'family': 'StronginC3'})
    best = (np.inf, None)

    def scan(x0s, x1s):
        nonlocal best
        for a in x0s:
            for b in x1s:
                if all(val([a, b], FunctionType.CONSTRAINT, j) <= 0 for j in range(3)):
                    z = val([a, b], FunctionType.OBJECTIV)
                    if z < best[0]:
                        best = (z, [float(a), float(b)])
    scan(np.linspace(lo[0], hi[0], 161), np.linspace(lo[1], hi[1], 161))
    for _ in range(3):      # refine around the incumbent
        if best[1] is None:
            break
        c, h = best[1], (hi[0] - lo[0]) / 160 / (4 ** _)
        scan(np.clip(np.linspace(c[0] - h, c[0] + h, 21), lo[0], hi[0]), np.clip(np.linspace(c[1] - h, c[1] + h, 21), lo[1], hi[1]))
    chk.evaluations += 1
    chk.cov['strongin_feasible_search'] = {'best_feasible_value': best[0], 'at': best[1], 'declared': [p, v]}
    if best[1] is None:
        return found
    if best[0] < v - 2e-3 * max(1.0, abs(v)):
        found += chk.violation('optimum', 'StronginC3: feasible point %r has value %r, lower than the declared optimum %r by more than 2e-3*max(1,|f*|)' % (best[1], best[0], v),
                               {'kind': 'instance', 'family': 'StronginC3', 'witness': {'point': best[1]}})
    elif max(abs(a - b) / (h_ - l_) for a, b, l_, h_ in zip(best[1], p, lo, hi)) > 0.005:
        found += chk.violation('optimum', 'StronginC3: the best feasible point found %r (value %r) lies farther than 0.5%% of the box side from the declared optimum %r' % (best[1], best[0], p),
                               {'kind': 'instance', 'family': 'StronginC3', 'witness': {'point': best[1]}})
    return found


def other_families(chk, rng, thorough):
    """numeric search (multistart) on the real Calculate for the families without per-instance theorems here"""
    import numpy as np
    from scipy.optimize import minimize
    found = 0
    plans = [('Shekel4', {'k': k}) for k in (1, 2, 3)] + [('Rastrigin', {'dim': n}) for n in (1, 2, 4, 8, 12, 20)] + [('XSquared', {'dim': n}) for n in (1, 3, 5, 9, 24)]
    plans += [('Grishagin', {'k': k}) for k in (range(1, 101) if thorough else rng.sample(range(2, 101), 5))]
    plans += [('GKLS', {'dim': d, 'k': k}) for d in (2, 3, 4, 5) for k in (range(1, 101) if thorough else rng.sample(range(1, 101), 2))]
    # every one of the 400 GKLS instances: the declared optimum lies in the box and has the declared value
    for d in (2, 3, 4, 5):
        for k in range(1, 101):
            pb = B.problem('GKLS', dim=d, k=k)
            ko = pb.knownOptimum[0]
            p = [float(v) for v in ko.point.floatVariables]; v = float(ko.functionValues[0].value)
            chk.evaluations += 1
            if any(not (-1.0 <= c <= 1.0) for c in p):
                found += chk.violation('optimum', 'GKLS(%d,%d): declared optimum point %r outside the box' % (d, k, p), {'kind': 'instance', 'family': 'GKLS', 'args': {'dim': d, 'k': k}})
            elif abs(B.calc(pb, p) - v) > 1e-4:
                found += chk.violation('optimum', 'GKLS(%d,%d): objective at the declared optimum point is %r, declared value %r' % (d, k, B.calc(pb, p), v),
                                       {'kind': 'instance', 'family': 'GKLS', 'args': {'dim': d, 'k': k}})
            if found > 3:
                return found
    # several instances alive at once (built first, validated afterwards): each is still the function its declared optimum describes
    live = [('GKLS', dict(dim=d, k=k)) for d, k in ((3, rng.randint(1, 100)), (2, rng.randint(1, 100)), (3, rng.randint(1, 100)), (5, rng.randint(1, 100)), (2, rng.randint(1, 100)))]
    live += [('Grishagin', dict(k=k)) for k in rng.sample(range(1, 101), 3)] + [('Hill', dict(k=7)), ('Shekel', dict(k=11)), ('Hill', dict(k=8))]
    live += [('Shekel4', dict(k=1)), ('Shekel4', dict(k=2)), ('Shekel4', dict(k=3))]
    objs = [(fam, kw, B.problem(fam, **kw)) for fam, kw in live]
    for fam, kw, pb in reversed(objs):      # warm every instance once (the later-built ones first), then validate in construction order
        try:
            B.calc(pb, [float(t) for t in pb.knownOptimum[0].point.floatVariables])
        except Exception:  # noqa
            pass
    for fam, kw, pb in objs:
        ko = pb.knownOptimum[0]
        p = [float(t) for t in ko.point.floatVariables]; v = float(ko.functionValues[0].value)
        chk.evaluations += 1
        try:
            fp = B.calc(pb, p)
        except Exception as e:  # noqa
            fp = None
            found += chk.violation('optimum', '%s%r raised %s when evaluated after other instances had been constructed' % (fam, kw, type(e).__name__), {'kind': 'instance', 'family': fam, 'args': kw, 'live': [list(map(str, x[:2])) for x in live]})
            continue
        if abs(fp - v) > 1e-4:
            found += chk.violation('optimum', '%s%r, evaluated after %d other instances had been constructed: objective at the declared optimum point is %r, declared value %r' % (fam, kw, len(live) - 1, fp, v),
                                   {'kind': 'instance', 'family': fam, 'args': kw, 'live': [list(map(str, x[:2])) for x in live]})
    for fam, kw in plans:
        if fam == 'Grishagin':      # an instance is the same function however often and in whatever order it is constructed
            B.problem(fam, k=kw['k'] - 1 if kw['k'] > 1 else 2)
            first = B.problem(fam, **kw)
        pb = B.problem(fam, **kw)
        if fam == 'Grishagin':
            ys = [[rng.random(), rng.random()] for _ in range(5)]
            if any(B.calc(first, y) != B.calc(pb, y) for y in ys) or [float(t) for t in first.knownOptimum[0].point.floatVariables] != [float(t) for t in pb.knownOptimum[0].point.floatVariables]:
                found += chk.violation('optimum', 'Grishagin(%d) constructed twice gives two different functions / declared optima' % kw['k'], {'kind': 'instance', 'family': fam, 'args': kw})
                continue
        lo = [float(v) for v in pb.lowerBoundOfFloatVariables]; hi = [float(v) for v in pb.upperBoundOfFloatVariables]
        ko = pb.knownOptimum[0]
        p = [float(v) for v in ko.point.floatVariables]; v = float(ko.functionValues[0].value)
        fp = B.calc(pb, p)
        chk.evaluations += 1
        if abs(fp - v) > 1e-4:
            found += chk.violation('optimum', '%s%r: objective at the declared optimum point is %r, declared value %r' % (fam, kw, fp, v), {'kind': 'instance', 'family': fam, 'args': kw, 'witness': {'point': p}})
            continue
        if any(not (a <= c <= b) for a, c, b in zip(lo, p, hi)):
            found += chk.violation('optimum', '%s%r: declared optimum point %r outside the box' % (fam, kw, p), {'kind': 'instance', 'family': fam, 'args': kw})
            continue
        best, bx = fp, p
        starts = [[a + (b - a) * rng.random() for a, b in zip(lo, hi)] for _ in range(30 if thorough else 10)]
        # coarse grid sample first
        pts = [[a + (b - a) * rng.random() for a, b in zip(lo, hi)] for _ in range(400)]
        pts.sort(key=lambda y: B.calc(pb, y))
        for y0 in pts[:4] + starts[:4]:
            r = minimize(lambda y: B.calc(pb, list(y)), np.array(y0), method='L-BFGS-B', bounds=list(zip(lo, hi)))
            if r.fun < best:
                best, bx = float(r.fun), [float(t) for t in r.x]
        if best < v - 2e-3 * max(1.0, abs(v)):
            found += chk.violation('optimum', '%s%r: f(%r) = %r is lower than the declared optimum %r by more than 2e-3*max(1,|f*|)' % (fam, kw, bx, best, v),
                                   {'kind': 'instance', 'family': fam, 'args': kw, 'witness': {'point': bx}})
        elif best < fp - 1e-7 and max(abs(a - b) / (h - l) for a, b, l, h in zip(bx, p, lo, hi)) > 0.005:
            found += chk.violation('optimum', '%s%r: a lower point %r (value %r) lies farther than 0.5%% of the box side from the declared optimum %r (value %r)' % (fam, kw, bx, best, p, fp),
                                   {'kind': 'instance', 'family': fam, 'args': kw, 'witness': {'point': bx}})
    return found


def replay(chk, rp):
    if rp.get('kind') == 'instance' and 'k' in rp and rp.get('family') in ('Hill', 'Shekel'):
        fails = B.numeric_c10_1d(rp['family'], rp['k'])
        print(fails)
        return not fails
    print('re-run the check')
    return False
