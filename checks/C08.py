"""C08 - evolvent is a continuous (Hoelder) space-filling curve."""
import math
from fractions import Fraction as Fr

from vlib import core, evo_corr, oracles as O, harness as H

GRIDS_QUICK = [(2, 1), (2, 2), (2, 3), (2, 4), (2, 5), (3, 1), (3, 2), (3, 3), (4, 1), (4, 2), (5, 1), (5, 2)]
GRIDS_THOROUGH = GRIDS_QUICK + [(2, 6), (2, 7), (3, 4), (4, 3), (5, 3), (2, 8), (3, 5), (4, 4)]


def holder_pairs(rng, count):
    """direct oracle for the inequality on the implementation, incl. pairs straddling coarse boundaries at deep densities"""
    from iOpt.evolvent.evolvent import Evolvent
    fails = []
    n_eval = 0
    for _ in range(count):
        n = rng.choice([2, 3, 4, 5])
        m = rng.choice([2, 3, 5, 8, 50 // n])
        lo, hi = H.random_box(rng, n)
        pre = O.random_prehistory(rng, n, lo, hi)
        try:
            ev = O.evolvent_of({'n': n, 'm': m, 'lo': lo, 'hi': hi, 'prehistory': pre})
            ev.GetImage(0.25)
        except Exception as e:
            fails.append(({'n': n, 'm': m, 'lo': lo, 'hi': hi, 'x1': 0.25, 'x2': 0.75, 'prehistory': pre}, 'implementation raised %s: %s' % (type(e).__name__, str(e)[:150])))
            continue
        K = 2 ** (n * m)
        side = max(b - a for a, b in zip(lo, hi))
        for _ in range(6):
            kind = rng.random()
            if kind < 0.4:   # around a coarse-level boundary j / 2^(n L)
                L = rng.randint(1, min(m, 4))
                j = rng.randrange(1, 2 ** (n * L))
                d = Fr(rng.randrange(1, 2 ** 20), 2 ** 20) * Fr(4, K)
                x1 = float(Fr(j, 2 ** (n * L)) - d * Fr(rng.randrange(0, 8), 8)); x2 = float(Fr(j, 2 ** (n * L)) + d)
            elif kind < 0.7:  # consecutive / near subintervals
                i = rng.randrange(K - 4)
                x1 = float(Fr(2 * i + 1, 2 * K)); x2 = float(Fr(2 * (i + rng.randint(1, 3)) + 1, 2 * K))
            else:
                x1, x2 = rng.random(), rng.random()
            x1 = min(max(x1, 0.0), 1.0); x2 = min(max(x2, 0.0), 1.0)
            if abs(x1 - x2) < 2.0 ** (-n * m):
                continue
            y1 = ev.GetImage(x1).copy(); y2 = ev.GetImage(x2).copy()
            dist = math.sqrt(sum((float(a) - float(b)) ** 2 for a, b in zip(y1, y2)))
            bound = 2 * math.sqrt(n + 3) * abs(x1 - x2) ** (1.0 / n) * side
            n_eval += 1
            if dist > bound * (1 + 1e-9):
                fails.append(({'n': n, 'm': m, 'lo': lo, 'hi': hi, 'x1': x1, 'x2': x2, 'prehistory': pre},
                              '||y(x1)-y(x2)|| = %.6g exceeds 2 sqrt(N+3) |x1-x2|^(1/N) side = %.6g (N=%d m=%d)' % (dist, bound, n, m)))
    return fails, n_eval


def bounds_not_aliased(rng, count):
    """the curve fills the box it was GIVEN: editing the caller's bound arrays in place afterwards (re-using the buffers for the next
    box, shrinking a problem's box) must not move it - otherwise images taken before and after belong to two different curves"""
    import numpy as np
    from iOpt.evolvent.evolvent import Evolvent
    fails = []
    for _ in range(count):
        n = rng.choice([2, 3, 4])
        m = rng.choice([3, 6, 10])
        lo, hi = H.random_box(rng, n)
        la, ha = np.array(lo, dtype=np.double), np.array(hi, dtype=np.double)
        if _ % 4 == 3:      # the box is moved by assigning the two public attributes, in either order: the curve fills the NEW box
            shift = rng.choice([3.0, -3.0])
            lo2, hi2 = [a + shift * (1 + (b - a)) for a, b in zip(lo, hi)], [b + shift * (1 + (b - a)) for a, b in zip(lo, hi)]
            ev = Evolvent(lo, hi, n, m)
            if rng.random() < 0.5:
                ev.lowerBoundOfFloatVariables = np.array(lo2, dtype=np.double); ev.upperBoundOfFloatVariables = np.array(hi2, dtype=np.double)
            else:
                ev.upperBoundOfFloatVariables = np.array(hi2, dtype=np.double); ev.lowerBoundOfFloatVariables = np.array(lo2, dtype=np.double)
            fresh = Evolvent(lo2, hi2, n, m)
            for x in [rng.random() for _k in range(3)]:
                a1 = [float(v) for v in ev.GetImage(x)]; a2 = [float(v) for v in fresh.GetImage(x)]
                if a1 != a2:
                    fails.append(({'n': n, 'm': m, 'lo': lo, 'hi': hi, 'lo2': lo2, 'hi2': hi2, 'x': x},
                                  'after the bounds were re-assigned to %r..%r the image of x=%r is %r, a new evolvent of that box gives %r' % (lo2, hi2, x, a1, a2))); break
            continue
        via_setbounds = rng.random() < 0.5
        if via_setbounds:
            ev = Evolvent([0.0] * n, [1.0] * n, n, m); ev.SetBounds(la, ha)
        else:
            ev = Evolvent(la, ha, n, m)
        xs = [rng.random() for _ in range(4)] + [0.5]
        before = [[float(v) for v in ev.GetImage(x)] for x in xs]
        la += rng.choice([1.0, 5.0]); ha *= 2.0; ha += 7.0
        after = [[float(v) for v in ev.GetImage(x)] for x in xs]
        if before != after:
            k = next(i for i in range(len(xs)) if before[i] != after[i])
            fails.append(({'n': n, 'm': m, 'lo': lo, 'hi': hi, 'via_setbounds': via_setbounds, 'x': xs[k]},
                          'after the caller edited its bound arrays in place the image of x=%r moved from %r to %r (N=%d, m=%d): the evolvent shares memory with the arrays it was given' % (xs[k], before[k], after[k], n, m)))
    return fails


def deep_adjacency(rng, count):
    """adjacency of consecutive subintervals and nesting m -> m+1 at deep densities, around coarse boundaries, used objects"""
    fails = []
    n_eval = 0
    for _ in range(count):
        n = rng.choice([2, 3, 4, 5])
        m = rng.choice([3, 6, 50 // n - 1, 50 // n])
        lo, hi = H.random_box(rng, n, nice=rng.random() < 0.5)
        pre = O.random_prehistory(rng, n, lo, hi)
        case = {'n': n, 'm': m, 'lo': lo, 'hi': hi, 'prehistory': pre}
        try:
            ev = O.evolvent_of(case)
            ev.GetImage(0.25)
        except Exception as e:
            fails.append((dict(case, i=0), 'implementation raised %s: %s' % (type(e).__name__, str(e)[:150])))
            continue
        K = 2 ** (n * m)
        w = [(b - a) / 2.0 ** m for a, b in zip(lo, hi)]
        for _ in range(8):
            if rng.random() < 0.6:
                L = rng.randint(1, min(m, 3))
                i = rng.randrange(1, 2 ** (n * L)) * 2 ** (n * (m - L)) - rng.randint(0, 6)
            else:
                i = rng.randrange(K - 1)
            i = min(max(i, 0), K - 2)
            y1 = [float(v) for v in ev.GetImage(float(Fr(2 * i + 1, 2 * K)))]
            y2 = [float(v) for v in ev.GetImage(float(Fr(2 * i + 3, 2 * K)))]
            d = [abs(a - b) / c for a, b, c in zip(y1, y2, w)]
            n_eval += 1
            if sorted(round(v, 6) for v in d) != [0.0] * (n - 1) + [1.0]:
                fails.append((dict(case, i=i), 'cells of consecutive subintervals %d, %d differ by %r cell widths per axis, expected exactly one 1 (N=%d m=%d)'
                              % (i, i + 1, [round(v, 4) for v in d], n, m)))
                continue
            if n * (m + 1) <= 50:
                ev2 = O.evolvent_of(dict(case, m=m + 1))
                j = i * 2 ** n + rng.randrange(2 ** n)
                y3 = [float(v) for v in ev2.GetImage(float(Fr(2 * j + 1, 2 * K * 2 ** n)))]
                if any(abs(a - b) > c / 2 * (1 + 1e-9) for a, b, c in zip(y3, y1, w)):
                    fails.append((dict(case, i=i, j=j), 'density %d cell of subinterval %d is not inside the density %d cell of subinterval %d' % (m + 1, j, m, i)))
    return fails, n_eval


def run(chk):
    rng = H.rng_for(chk.seed, 'C08')
    thorough = chk.tier == 'thorough'
    core.proof_stage(chk, 'Properties/C08.v', extra_targets=['Evolvent/Corr.vo'])
    grids = GRIDS_THOROUGH if thorough else GRIDS_QUICK
    ok1, bad_cells, allcells = evo_corr.run_cells_corr(chk, grids)
    ok2, bad_img = evo_corr.run_image_corr(chk, rng, 4000 if thorough else 800, dims=(2, 3, 4, 5))
    chk.obligation('correspondence: implementation cells = model cells on exhaustive small grids', ok1 and not bad_cells, 'first: %r' % bad_cells[:3])
    chk.obligation('correspondence: GetImage = model image (random N, m, boxes, edge x)', ok2 and not bad_img, 'first: %r' % bad_img[:3])
    chk.assumptions += ['N in 2..5; cell-level theorems over Z; the inequality itself (C08_holder_inequality) over R for rational points x, x\' of [0,1] and any box with sides <= S; '
                        'binary64 rounding of the affine box map is not part of the theorem (tied by the correspondence)']
    # direct oracles: adjacency + nesting exhaustively on the implementation, inequality on pairs
    found = 0
    for (n, m) in grids:
        nxt = allcells.get((n, m + 1))
        fails = O.c08_cells(n, m, [tuple(c) for c in allcells[(n, m)]], [tuple(c) for c in nxt] if nxt else None)
        for f in fails[:1]:
            found += chk.violation('adjacency-nesting', f, {'kind': 'grid', 'n': n, 'm': m})
    fails, n_eval = holder_pairs(rng, 600 if thorough else 120)
    chk.evaluations += n_eval
    for case, msg in fails[:3]:
        found += chk.violation('holder', msg, {'kind': 'pair', 'case': case})
    fails, n_eval = deep_adjacency(rng, 300 if thorough else 60)
    chk.evaluations += n_eval
    for case, msg in fails[:3]:
        found += chk.violation('deep-adjacency', msg, {'kind': 'deep', 'case': case})
    for case, msg in bounds_not_aliased(rng, 40 if thorough else 12)[:2]:
        chk.evaluations += 1
        found += chk.violation('holder', msg, {'kind': 'alias', 'case': case})
    if not found:
        for c in bad_img[:2]:
            chk.violation('image-mismatch', 'GetImage disagrees with the model (code %d)' % c['code'], {'kind': 'image-corr', 'case': c}, found_input=False)
        for c in bad_cells[:2]:
            chk.violation('cell-mismatch', 'implementation cell differs from model cell', {'kind': 'cells-corr', 'case': c})


def replay(chk, rp):
    if rp.get('kind') == 'grid':
        f, cells = O.c07_cells(rp['n'], rp['m']); _, nxt = O.c07_cells(rp['n'], rp['m'] + 1)
        fails = O.c08_cells(rp['n'], rp['m'], cells, nxt)
        print(fails); return not fails
    if rp.get('kind') == 'pair':
        from iOpt.evolvent.evolvent import Evolvent
        c = rp['case']; ev = O.evolvent_of(c)
        y1 = ev.GetImage(c['x1']).copy(); y2 = ev.GetImage(c['x2']).copy()
        dist = math.sqrt(sum((float(a) - float(b)) ** 2 for a, b in zip(y1, y2)))
        bound = 2 * math.sqrt(c['n'] + 3) * abs(c['x1'] - c['x2']) ** (1.0 / c['n']) * max(b - a for a, b in zip(c['lo'], c['hi']))
        print(dist, bound); return dist <= bound * (1 + 1e-9)
    if rp.get('kind') == 'deep':
        print('re-run the check with the same seed (%r) to re-evaluate this case' % rp.get('seed'))
    return False
