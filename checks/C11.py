"""C11 - determinism and independence from batching."""
from vlib import core, solver_checks as S, agp_corr as A, oracles as O, harness as H


def compositions(total):
    for cuts in range(2 ** (total - 1)):
        comp = []; c = 1
        for b in range(total - 1):
            if cuts >> b & 1:
                comp.append(c); c = 1
            else:
                c += 1
        comp.append(c)
        yield comp


def run(chk):
    rng = H.rng_for(chk.seed, 'C11')
    thorough = chk.tier == 'thorough'
    S.proof(chk, 'C11')
    bad, errors = S.lockstep(chk, rng, 120 if thorough else 30)
    found = 0
    # all compositions of short runs
    for _ in range(6 if thorough else 2):
        case = A.random_case(rng, dims=(1, 2, 3))
        case['iters'] = rng.choice([5, 7, 9]); case['eps'] = rng.choice([0.3, 0.1, 0.05])
        top = 8 if thorough else 6
        for total in range(1, top + 1):
            for comp in compositions(total):
                fails = O.guarded(O.c11, dict(case, script=comp))
                chk.evaluations += 1
                chk.nontrivial += 1
                if fails:
                    found += chk.violation('batching', fails[0], {'kind': 'batches', 'case': dict(case, script=comp)})
                    break
            if found:
                break
    # random long compositions, incl. batch boundaries late in the run and GetResults() reads in between
    for _ in range(60 if thorough else 16):
        case = A.random_case(rng)
        case['iters'] = rng.choice([40, 80, 150]); case['eps'] = rng.choice([0.05, 0.02, 0.01])
        base = O.trajectory(case, [('solve',)])[0]
        n = len(base)
        if n < 6:
            continue
        comp = []
        left = rng.randint(max(1, n - 12), n - 1)
        while left > 0:
            b = rng.randint(1, min(left, 9)); comp.append(b); left -= b
        fails = O.guarded(O.c11, dict(case, script=comp))
        if not fails:
            fails = O.guarded(c11_with_reads, dict(case, script=comp))
        chk.evaluations += 1
        if fails:
            found += chk.violation('batching', fails[0], {'kind': 'batches', 'case': dict(case, script=comp)})
            if found > 2:
                break
    # alignments of fixed-size batches over whole runs (a value that is stale only inside a batch shows only at particular
    # offsets and only on runs where the estimate M grows a little late in the run: many moderately long runs)
    for _ in range(18 if thorough else 6):      # an interrupted call inside a mixture of calls
        n = rng.choice([1, 2])
        lo, hi = H.random_box(rng, n)
        case = {'n': n, 'lo': lo, 'hi': hi, 'objective': H.random_objective(rng, n, kinds=('sin', 'quad', 'cones'), lo=lo, hi=hi), 'r': 2.5, 'eps': rng.choice([1e-9, 0.02]),
                'iters': rng.choice([30, 50]), 'density': None, 'fail_at': rng.randint(3, 14), 'exc': rng.choice(['RuntimeError', 'KeyboardInterrupt', 'SystemExit', 'ValueError'])}
        fails = O.guarded(interrupted_then_continued, case)
        chk.evaluations += 1
        if fails:
            found += chk.violation('batching', fails[0], {'kind': 'interrupted', 'case': case})
    for _ in range(12 if thorough else 4):      # the caller's objects are re-used for several solvers
        n = rng.choice([1, 2])
        lo, hi = H.random_box(rng, n)
        case = {'n': n, 'lo': lo, 'hi': hi, 'objective': H.random_objective(rng, n, kinds=('sin', 'quad', 'cones'), lo=lo, hi=hi), 'r': 2.5,
                'eps': rng.choice([1e-9, 0.01]), 'iters': rng.choice([40, 60]), 'refine': _ % 2 == 0}
        fails = O.guarded(reused_objects, case)
        chk.evaluations += 1
        if fails:
            found += chk.violation('batching', fails[0], {'kind': 'reuse', 'case': case})
    for _ in range(300 if thorough else 70):
        n = rng.choice([1, 1, 2])
        lo, hi = H.random_box(rng, n)
        case = {'n': n, 'lo': lo, 'hi': hi, 'objective': H.random_objective(rng, n, kinds=('multi', 'prod', 'sin'), lo=lo, hi=hi),
                'r': round(rng.uniform(2, 3.5), 2), 'eps': rng.choice([0.0002, 0.0005, 0.002]) if n == 1 else rng.choice([0.01, 0.005]), 'iters': 400}
        base = O.trajectory(case, [('solve',)])[0]
        nb = len(base)
        hit = False
        for b in (3, 8):
            for off in range(0, b, 2):
                comp = ([off] if off else []) + [b] * ((nb - 1 - off) // b)
                if not comp:
                    continue
                tr = O.trajectory(case, [('iter', k) for k in comp] + [('solve',)])[0]
                chk.evaluations += 1
                if tr != base:
                    i = next((j for j, (u, v) in enumerate(zip(tr, base)) if u != v), min(len(tr), len(base)))
                    found += chk.violation('batching', 'batches %s.. then Solve: trial sequence differs from the plain Solve run at trial %d (%d vs %d trials)'
                                           % (comp[:3], i + 1, len(tr), len(base)), {'kind': 'batches', 'case': dict(case, script=comp)})
                    hit = True
                    break
            if hit:
                break
        if found > 1:
            break
    S.report_corr(chk, bad, errors, found)


def c11_with_reads(case):
    """reading the intermediate result (Solver.GetResults) between batches must not change the run"""
    base = O.trajectory(case, [('solve',)])[0]
    p, s = O.build(case)
    with H.quiet():
        for k in case['script']:
            s.DoGlobalIteration(k)
            s.GetResults()
        s.Solve()
    tr = [tuple(y) for y, _ in p.log]
    if sum(case['script']) <= len(base) and tr != base:
        return ['batches %r with GetResults() reads in between, then Solve: %d trials, plain Solve makes %d' % (case['script'], len(tr), len(base))]
    return []


def interrupted_then_continued(case):
    """one evaluation fails (exception or interrupt) in the middle of a mixture of calls; the caller catches it and goes on: the trial
    sequence is the one of the undisturbed Solve (the failed point is simply tried again)"""
    base = O.trajectory(dict(case, fail_at=None), [('solve',)])[0]
    # explicit calls do not test the stop rule: their total stays below the stop point of the undisturbed run (one call is lost to the failure)
    room = len(base) - 2
    if room < 3 or case['fail_at'] > len(base):
        return []
    b1 = max(1, room // 4); b2 = max(1, room // 3); b3 = max(1, room - b1 - b2 - 2)
    p, s = O.build(case)
    for op in [('iter', b1), ('iter', b2), ('iter', b3), ('solve',), ('solve',)]:
        try:
            H.run_script(s, [op])
        except BaseException as e:  # noqa
            if isinstance(e, KeyboardInterrupt) and case.get('exc') != 'KeyboardInterrupt':
                raise
    tr = [tuple(y) for y, _ in p.log]
    if tr != base:
        i = next((j for j, (u, v) in enumerate(zip(tr, base)) if u != v), min(len(tr), len(base)))
        return ['evaluation %d failed with %s, the caller went on: %d trials, first difference from the undisturbed run (%d trials) at trial %d'
                % (case['fail_at'], case.get('exc'), len(tr), len(base), i + 1)]
    return []


def reused_objects(case):
    """the same SolverParameters object and the same Problem object used for several solvers, one after the other: every run is the same
    run, and the objects still say what the caller put in them"""
    import numpy as np
    from iOpt.solver import Solver
    from iOpt.solver_parametrs import SolverParameters
    fails = []
    params = SolverParameters(eps=case['eps'], r=case['r'], itersLimit=case['iters'], refineSolution=case.get('refine', False))
    before = dict(vars(params))
    runs = []
    for k in range(3):
        p = H.make_problem(case['n'], case['lo'], case['hi'], case['objective'])
        lo0, hi0 = np.array(p.lowerBoundOfFloatVariables, copy=True), np.array(p.upperBoundOfFloatVariables, copy=True)
        s = Solver(p, parameters=params)
        with H.quiet():
            if k == 1:
                s.DoGlobalIteration(3)
            sol = s.Solve()
        runs.append(([tuple(y) for y, _ in p.log][:sol.numberOfGlobalTrials], sol.numberOfGlobalTrials))
        if not (np.array_equal(lo0, p.lowerBoundOfFloatVariables) and np.array_equal(hi0, p.upperBoundOfFloatVariables)):
            fails.append('the bounds stored in the Problem object were changed by a run: %r..%r -> %r..%r' % (list(lo0), list(hi0), list(p.lowerBoundOfFloatVariables), list(p.upperBoundOfFloatVariables)))
        now = dict(vars(params))
        if {k_: v for k_, v in now.items() if k_ != 'startPoint'} != {k_: v for k_, v in before.items() if k_ != 'startPoint'}:
            diff = {k_: (before[k_], now[k_]) for k_ in before if k_ != 'startPoint' and before[k_] != now[k_]}
            fails.append('the SolverParameters object handed to Solver was modified: %r' % diff); break
    if not fails and any(r != runs[0] for r in runs[1:]):
        fails.append('repeating the run with the same SolverParameters object gives %r trials, the first run made %d' % ([r[1] for r in runs], runs[0][1]))
    return fails


def replay(chk, rp):
    if rp.get('kind') == 'interrupted':
        fails = O.guarded(interrupted_then_continued, rp['case']); print(fails); return not fails
    if rp.get('kind') == 'reuse':
        fails = O.guarded(reused_objects, rp['case']); print(fails); return not fails
    if rp.get('kind') == 'batches':
        fails = O.guarded(O.c11, rp['case']) or O.guarded(c11_with_reads, rp['case'])
        print(fails); return not fails
    return S.replay_lockstep(rp)
