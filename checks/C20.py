"""C20 - configured evolvent density is honoured."""
from vlib import core, evo_corr, oracles as O, harness as H


def run(chk):
    rng = H.rng_for(chk.seed, 'C20')
    thorough = chk.tier == 'thorough'
    core.proof_stage(chk, 'Properties/C20.v', extra_targets=['Evolvent/Corr.vo'])
    ok2, bad_img = evo_corr.run_image_corr(chk, rng, 2000 if thorough else 400, dims=(2, 3, 4, 5))
    chk.obligation('correspondence: GetImage = model image at the configured density', ok2 and not bad_img, 'first: %r' % bad_img[:3])
    found = 0
    for _ in range(160 if thorough else 44):
        n = rng.choice([2, 3, 4, 5])
        m = rng.randint(2, 12)      # the whole configured range for every dimension (beyond N*m = 52 the deepest digits of a double are zero, still on the grid)
        if _ < 8:      # the extremes of the configured range are always covered
            n, m = [(5, 12), (5, 11), (4, 12), (3, 12), (2, 12), (5, 2), (2, 2), (4, 11)][_]
        lo, hi = H.random_box(rng, n, nice=rng.random() < 0.5)
        if _ % 4 == 3:      # one very thin (or very wide) side: the grid scales with the box
            t = rng.randrange(n); a = rng.choice([1e-9, 0.0, 5.0, -2.0]); w = rng.choice([4e-9, 1e-7, 3e-6, 1e7])
            lo[t], hi[t] = a, a + w
        case = {'n': n, 'lo': lo, 'hi': hi, 'objective': H.random_objective(rng, n, lo=lo, hi=hi), 'density_type': 'numpy' if _ % 5 == 4 else ('assign' if _ % 5 == 2 else 'int'), 'r': round(rng.uniform(1.5, 4), 2), 'eps': rng.choice([1e-9, 1e-5, 5e-4, 1e-3, 0.01]),
                'iters': rng.choice([12, 25, 40]), 'density': m}
        fails = O.guarded(O.c20, case)
        chk.evaluations += case['iters']
        chk.nontrivial += 1
        if len(chk.samples) < 3:
            chk.sample({'solver_case': {k: case[k] for k in ('n', 'lo', 'hi', 'density', 'iters')}})
        if fails:
            found += chk.violation('off-grid', fails[0], {'kind': 'solver', 'case': case})
            if found > 2:
                break
    if not found:
        for c in bad_img[:2]:
            chk.violation('image-mismatch', 'GetImage disagrees with the model (code %d)' % c['code'], {'kind': 'image-corr', 'case': c}, found_input=False)


def replay(chk, rp):
    fails = O.guarded(O.c20, rp['case'])
    print(fails)
    return not fails
