"""C13 - listener contract."""
import itertools
import os
import re
import shutil
import tempfile

from vlib import core, agp_corr as A, oracles as O, harness as H


def shipped(name, tmp):
    from iOpt.method import listener as Lm
    return {
        'console-full': lambda: Lm.ConsoleFullOutputListener(mode='full'),
        'console-custom': lambda: Lm.ConsoleFullOutputListener(mode='custom', iters=5),
        'console-result': lambda: Lm.ConsoleFullOutputListener(mode='result'),
        'static-objective': lambda: Lm.StaticPaintListener('a.png', tmp, mode='objective function'),
        'static-points': lambda: Lm.StaticPaintListener('a2.png', tmp, mode='only points'),
        'static-interpolation': lambda: Lm.StaticPaintListener('a3.png', tmp, mode='interpolation'),
        'static-approximation': lambda: Lm.StaticPaintListener('a4.png', tmp, mode='approximation'),
        'animation': lambda: Lm.AnimationPaintListener('b.png', tmp),
        'staticND-lines': lambda: Lm.StaticNDPaintListener('c.png', tmp, varsIndxs=[0, 1], mode='lines layers', calc='objective function'),
        'staticND-surface': lambda: Lm.StaticNDPaintListener('c3.png', tmp, varsIndxs=[0, 1], mode='surface', calc='interpolation'),
        'animationND': lambda: Lm.AnimationNDPaintListener('d.png', tmp, varsIndxs=[0, 1]),
    }[name]()


def with_listener(case, script, names, tmp):
    """trial sequence / result with shipped listeners attached must equal the listener-free run; console report = solution"""
    fails = []
    base = observe(case, script, [], tmp)
    got = observe(case, script, names, tmp)
    if got['exc']:
        fails.append('listeners %r: %s' % (names, got['exc']))
        return fails
    for k in ('trials', 'result'):
        if base[k] != got[k]:
            fails.append('attaching %r changed the %s: %s vs %s' % (names, k, O._short(got[k]), O._short(base[k])))
    if any(n.startswith('console') for n in names) and script[-1][0] == 'solve':
        rep = parse_report(got['out'])
        sol = got['result']
        if rep is None:
            fails.append('console listener printed no final report')
        else:
            exp = {'global iteration count': sol[0], 'local iteration count': sol[4], 'solution value': sol[2], 'accuracy': sol[3]}
            for key, val in exp.items():
                try:
                    shown = float(rep.get(key))
                except (TypeError, ValueError):
                    fails.append('console final report has no readable %s (%r)' % (key, rep.get(key))); continue
                if not (abs(shown - val) <= 1e-7 * max(1.0, abs(val)) or shown == val):     # printed to 8 decimals or more
                    fails.append('console final report shows %s = %r, the solution has %r' % (key, rep.get(key), val))
            nums = [float(t) for t in re.findall(r'-?\d+\.?\d*(?:[eE][-+]?\d+)?', rep.get('solution point', ''))]
            if len(nums) != len(sol[1]) or any(abs(a - b) > 1e-6 * max(1.0, abs(b)) for a, b in zip(nums, sol[1])):
                fails.append('console final report shows solution point %r, the solution has %r' % (rep.get('solution point'), sol[1]))
    return fails


def observe(case, script, names, tmp):
    p, s = O.build(case)
    for n in names:
        s.AddListener(shipped(n, tmp))
    exc = None
    try:
        sol, out = H.run_script(s, script)
    except BaseException as e:  # noqa
        if isinstance(e, KeyboardInterrupt):
            raise
        exc = '%s escaped: %s' % (type(e).__name__, str(e)[:200]); out = ''
    r = s.GetResults()
    b = r.bestTrials[0]
    # the solver's own trials (painters evaluate the objective themselves to draw it: those calls are not trials)
    trials = [(it.GetX(), tuple(float(v) for v in it.GetY().floatVariables), it.GetZ()) for it in s.searchData._allTrials if it.GetIndex() == 0]
    return {'trials': trials, 'exc': exc, 'out': out,
            'result': (r.numberOfGlobalTrials, [float(v) for v in b.point.floatVariables] if len(p.log) else [], b.functionValues[0].value if len(p.log) else None,
                       r.solutionAccuracy, r.numberOfLocalTrials),
            'point_repr': b.point.floatVariables if len(p.log) else None}


def parse_report(out):
    i = out.rfind('Result')
    if i < 0:
        return None
    rep = {}
    for line in out[i:].splitlines():
        m = re.match(r'\|\s*([a-z ]+):\s+(.*?)\s*\|$', line)
        if m:
            rep[m.group(1).strip()] = m.group(2).strip()
    return rep


def run(chk):
    rng = H.rng_for(chk.seed, 'C13')
    thorough = chk.tier == 'thorough'
    core.proof_stage(chk, 'Properties/C13.v')
    chk.assumptions += ['string formatting, matplotlib and sklearn are not modelled: the rendering half is checked by differential runs only (MPLBACKEND=Agg)']
    found = 0
    subsets = [[], ['B'], ['E'], ['S'], ['B', 'E'], ['B', 'S'], ['E', 'S'], ['B', 'E', 'S']]
    batchings = [[], [1], [3], [2, 1], [1, 1, 4], [5, 2], [0, 2]]
    for n in (1, 2, 3):
        case = dict(A.random_case(rng, dims=(n,)), iters=rng.choice([12, 25]), eps=0.05)
        for sub in subsets:
            full = [[case['iters']], [case['iters'] - 2, 2], [case['iters'] + 3]]      # the explicit calls already reach (or pass) the budget: Solve still reports the stop
            for b in (batchings + full) if thorough else (rng.sample(batchings, 3) + [rng.choice(full)]):
                c = dict(case, override=sub, script=b)
                fails = O.guarded(O.c13_protocol, c)
                chk.evaluations += 1
                chk.nontrivial += 1
                if fails:
                    found += chk.violation('protocol', fails[0], {'kind': 'protocol', 'case': c})
                    break
            if found > 2:
                break
    tmp = tempfile.mkdtemp(prefix='c13-', dir=os.environ.get('TMPDIR', '/tmp'))
    try:
        console = ['console-full', 'console-custom', 'console-result']
        one_d = ['static-objective', 'static-points', 'animation'] + (['static-interpolation', 'static-approximation'] if thorough else [])
        two_d = ['staticND-lines', 'animationND'] + (['staticND-surface'] if thorough else [])
        plans = []
        for n in (1, 2, 3):
            for name in console:
                plans.append((n, [name]))
        plans += [(1, [x]) for x in one_d] + [(2, [x]) for x in two_d] + [(1, ['console-result', 'static-points']), (2, ['console-full', 'animationND'])]
        # long runs (hundreds of trials) observed by the painters: the final picture is drawn from the whole search information
        for n, names in ((1, ['static-points']), (2, ['staticND-lines'])) + (((1, ['static-objective']), (3, ['console-result', 'staticND-lines'])) if thorough else ()):
            lo, hi = H.random_box(rng, n, nice=True)
            case = {'n': n, 'lo': lo, 'hi': hi, 'r': 2.5, 'eps': 1e-9, 'iters': 900 if n == 1 else 700, 'density': None, 'objective': {'kind': 'sin', 'w': [5.0] * n, 'a': [1.0] * n}}
            fails = O.guarded(lambda c: with_listener(c, [('solve',)], names, tmp), case)
            chk.evaluations += 1
            if fails:
                found += chk.violation('shipped-listener', fails[0], {'kind': 'shipped', 'case': case, 'script': [['solve']], 'listeners': names})
        for n, names in plans:
            case = dict(A.random_case(rng, dims=(n,)), iters=rng.choice([15, 30]), eps=0.03, density=None)
            if rng.random() < 0.4:   # objectives hitting exactly 0.0 / large magnitudes (formatting corner cases)
                case['objective'] = rng.choice([{'kind': 'const', 'c': 0.0}, {'kind': 'sin', 'w': [3.0] * n, 'a': [0.0] * n, 'q': 1.0},
                                                {'kind': 'sin', 'w': [2.0] * n, 'a': [0.5] * n, 'offset': 1e7}])
            case['refine'] = rng.random() < 0.25
            for script in ([('solve',)], [('iter', 3), ('solve',)], [('iter', 1), ('iter', 2), ('solve',)]):
                fails = O.guarded(lambda c: with_listener(c, script, names, tmp), case)
                chk.evaluations += 1
                if fails:
                    found += chk.violation('shipped-listener', fails[0], {'kind': 'shipped', 'case': case, 'script': [list(x) for x in script], 'listeners': names})
                    break
    finally:
        shutil.rmtree(tmp, ignore_errors=True)
    chk.cov['listener_configurations'] = len(plans)
    chk.sample({'protocol_case': {'override': ['B', 'E'], 'batches': [2, 1]}})


def replay(chk, rp):
    if rp.get('kind') == 'protocol':
        fails = O.guarded(O.c13_protocol, rp['case']); print(fails); return not fails
    tmp = tempfile.mkdtemp(prefix='c13-')
    try:
        fails = O.guarded(lambda c: with_listener(c, [tuple(x) for x in rp['script']], rp['listeners'], tmp), rp['case'])
    finally:
        shutil.rmtree(tmp, ignore_errors=True)
    print(fails)
    return not fails
