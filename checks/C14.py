"""C14 - GKLS functions have the promised structure and are reproducible."""
import json
import os
from fractions import Fraction as Fr

from vlib import core, bench_checks as B, harness as H

GOLDEN = os.path.join(core.ROOT, 'corpus', 'gkls_golden.json')
Q_HEADER = """From Coq Require Import QArith List Bool.
From IOptV Require Import Problems.GKLSCheck.
Import ListNotations.
"""
F_HEADER = """From Coq Require Import List Bool PrimFloat.
From IOptV Require Import Problems.GKLSFloat.
Import ListNotations.
Open Scope float_scope.
"""


def export(dim, k):
    pb = B.problem('GKLS', dim=dim, k=k)
    f = pb.function
    mn = f.GKLS_minima
    nm = int(f.GKLS_num_minima)
    pts = [[float(v) for v in mn.local_min[i]] for i in range(nm)]
    return {'dim': dim, 'k': k, 'points': pts, 'f': [float(v) for v in mn.f[:nm]], 'rho': [float(v) for v in mn.rho[:nm]],
            'gdist': float(f.GKLS_global_dist), 'gradius': float(f.GKLS_global_radius), 'gm_index': int(f.GKLS_glob.gm_index[0]),
            'n_global': int(f.GKLS_glob.num_global_minima), 'precision': float(type(f).GKLS_PRECISION), 'max_value': float(type(f).GKLS_MAX_VALUE), 'problem': pb}


def ql(v):
    return core.coq_list([core.qlit(x) for x in v])


def wf_v(es):
    out = [Q_HEADER]
    for e in es:
        ms = core.coq_list(['mkQMin %s %s %s' % (ql(e['points'][i]), core.qlit(e['f'][i]), core.qlit(e['rho'][i])) for i in range(1, len(e['points']))])
        gd2 = Fr(e['gdist']) ** 2
        out.append('Lemma wf_%d_%d : wf_q %d%%nat %s %s %s %s %s %s %s = true.\nProof. vm_compute. reflexivity. Qed.' % (
            e['dim'], e['k'], e['dim'], ql(e['points'][0]), core.qlit(e['f'][0]), core.qlit(e['rho'][0]), ms,
            core.qlit(gd2 - Fr(1, 10 ** 9)), core.qlit(gd2 + Fr(1, 10 ** 9)), core.qlit(e['gradius'])))
    return '\n'.join(out) + '\n'


def float_v(e, pts):
    fl = lambda v: core.coq_list([core.fhex(x) for x in v])
    ms = core.coq_list(['mkFMin %s %s %s' % (fl(e['points'][i]), core.fhex(e['f'][i]), core.fhex(e['rho'][i])) for i in range(1, len(e['points']))])
    rows = core.coq_list(['(%s, %s)' % (fl(x), core.fhex(v)) for x, v in pts])
    return F_HEADER + 'Eval vm_compute in (bad_points %s %s %s %s %s %s 0).\n' % (core.fhex(e['precision']), core.fhex(e['max_value']), fl(e['points'][0]), core.fhex(e['f'][0]), ms, rows)


def sample_points(rng, e, n):
    """points in every region: generic, near each minimiser, across each ball boundary, on the paraboloid, outside the domain"""
    d = e['dim']
    pts = [[rng.uniform(-1, 1) for _ in range(d)] for _ in range(n)]
    for i in range(1, len(e['points'])):
        m, rho = e['points'][i], e['rho'][i]
        u = [rng.gauss(0, 1) for _ in range(d)]
        nu = sum(t * t for t in u) ** 0.5
        for s in (0.0, 1e-12, 0.3, 0.999999, 1.0, 1.000001, 1.2):
            pts.append([min(1.0, max(-1.0, mi + s * rho * ui / nu)) for mi, ui in zip(m, u)])
    pts.append([1.0] * d); pts.append([-1.0] * d); pts.append([1.0 + 1e-9] + [0.0] * (d - 1)); pts.append(list(e['points'][0]))
    return pts


def structure_direct(e):
    """direct structural oracle on the public attributes (exact rational arithmetic)"""
    fails = []
    d, pts, f, rho = e['dim'], e['points'], e['f'], e['rho']
    tag = 'GKLS(%d,%d): ' % (d, e['k'])
    if len(pts) != 10:
        fails.append(tag + '%d minimisers instead of 10' % len(pts))
    for i, p in enumerate(pts):
        if any(abs(c) > 1.0 for c in p):
            fails.append(tag + 'minimiser %d at %r lies outside the box' % (i, p))
    dist2 = lambda a, b: sum((Fr(x) - Fr(y)) ** 2 for x, y in zip(a, b))
    for i in range(len(pts)):
        for j in range(i + 1, len(pts)):
            if dist2(pts[i], pts[j]) < (Fr(rho[i]) + Fr(rho[j])) ** 2:
                fails.append(tag + 'attraction balls of minimisers %d and %d overlap' % (i, j))
    if e['gm_index'] != 1 or e['n_global'] != 1:
        fails.append(tag + 'global minimiser index %d, %d global minima' % (e['gm_index'], e['n_global']))
    if f[1] != -1.0:
        fails.append(tag + 'global minimum value %r' % f[1])
    if any(v <= -1.0 for i, v in enumerate(f) if i != 1):
        fails.append(tag + 'another minimum is not strictly higher than -1: %r' % f)
    if abs(dist2(pts[0], pts[1]) - Fr(e['gdist']) ** 2) > Fr(1, 10 ** 9):
        fails.append(tag + 'global minimiser is at distance %.9f from the vertex, class distance %r' % (float(dist2(pts[0], pts[1])) ** 0.5, e['gdist']))
    if rho[1] != e['gradius']:
        fails.append(tag + 'global attraction radius %r, class radius %r' % (rho[1], e['gradius']))
    pb = e['problem']
    for i, p in enumerate(pts):
        v = B.calc(pb, p)
        if v != f[i]:
            fails.append(tag + 'value at minimiser %d is %r, prescribed %r' % (i, v, f[i]))
    ko = pb.knownOptimum[0]
    if [float(v) for v in ko.point.floatVariables] != pts[1] or float(ko.functionValues[0].value) != -1.0:
        fails.append(tag + 'knownOptimum is not the global minimiser with value -1')
    return fails


def golden_points(dim):
    return [[0.1 * (j + 1) - 0.35 for j in range(dim)], [(-1) ** j * 0.62 for j in range(dim)], [0.05 * j - 0.8 for j in range(dim)]]


def run(chk):
    rng = H.rng_for(chk.seed, 'C14')
    thorough = chk.tier == 'thorough'
    core.proof_stage(chk, 'Properties/C14.v', extra_targets=['Problems/GKLSFloat.vo'])
    chk.trusted += ['parameters are exported from the implementation through public attributes (GKLS.function.GKLS_minima.*) as exact binary64 rationals',
                    'IEEE-754 binary64 + correctly rounded sqrt of CPython/numpy vs Coq PrimFloat (validated by the bit-exact comparison itself)']
    chk.assumptions += ['the random generator (Knuth ranf_array port) and the construction of the parameters are not modelled in Coq: reproducibility is a committed golden record of all 400 functions plus Knuth\'s published self-test value of the generator',
                        'kernel check of wf_q covers the instances listed in coverage (quick: seeded sample; thorough: all 400)']
    todo = [(d, k) for d in (2, 3, 4, 5) for k in range(1, 101)]
    kernel = todo if thorough else sorted(rng.sample(todo, 24))
    found = 0
    exports = {}
    for d, k in todo:          # the structural oracle and the golden record always cover all 400
        try:
            e = export(d, k)
        except BaseException as ex:  # noqa
            if isinstance(ex, KeyboardInterrupt):
                raise
            found += chk.violation('structure', 'GKLS(%d,%d): construction raised %s: %s' % (d, k, type(ex).__name__, str(ex)[:150]), {'kind': 'instance', 'dim': d, 'k': k})
            continue
        exports[(d, k)] = e
        for msg in structure_direct(e)[:1]:
            if found < 4:
                found += chk.violation('structure', msg, {'kind': 'instance', 'dim': d, 'k': k})
        chk.evaluations += 1
    # golden record: function (n, k) is always the same function
    gold = json.load(open(GOLDEN))
    gbad = []
    for (d, k), e in exports.items():
        rec = gold.get('%d,%d' % (d, k))
        cur = {'values': [B.calc(e['problem'], p).hex() for p in golden_points(d)], 'optimum': [float(v).hex() for v in e['points'][1]],
               'rnd_check': None}
        if rec is None or rec['values'] != cur['values'] or rec['optimum'] != cur['optimum']:
            gbad.append((d, k))
    chk.obligation('golden record: all 400 functions equal the recorded reference values (bit-exact at 3 points + optimum point)', not gbad, 'differs: %r' % (gbad[:8],))
    for d, k in gbad[:2]:
        found += chk.violation('reproducibility', 'GKLS(%d,%d) is not the recorded function: values at the reference points / optimum point differ from corpus/gkls_golden.json' % (d, k),
                               {'kind': 'golden', 'dim': d, 'k': k})
    # Knuth's self-test of the generator
    from iOpt.problems.GKLS_function.gkls_random import GKLSRandomGenerator as G
    import numpy as np
    g = G(); g.Initialize(310952, np.zeros(1009), np.zeros(100))
    for _ in range(2009):
        g.GenerateNextNumbers()
    okk = '%.20f' % g.ran_u[0] == '0.27452626307394156768'
    chk.obligation("random generator reproduces Knuth's published self-test value (ranf_start(310952), 2009 x ranf_array(1009))", okk, '%.20f' % g.ran_u[0])
    if not okk:
        found += chk.violation('reproducibility', "the random generator no longer reproduces Knuth's self-test value 0.27452626307394156768 (got %.20f)" % g.ran_u[0], {'kind': 'ranf'})
    # kernel check of the rational well-formedness predicate
    ks = [exports[t] for t in kernel if t in exports]
    shards = [ks[i:i + 10] for i in range(0, len(ks), 10)]
    res = core.coq_eval_many([wf_v(s) for s in shards], tag='gklswf', timeout=900, procs=12)
    wbad = []
    for sh, (rc, out, path) in zip(shards, res):
        if rc != 0:
            import re
            m = re.search(r'line (\d+)', out)
            wbad.append((['%d,%d' % (e['dim'], e['k']) for e in sh], out[-300:]))
    chk.obligation('kernel evaluation of wf_q on the exported parameters of %d instances' % len(ks), not wbad, 'failed shards: %r' % (wbad[:2],))
    chk.cov['instances_kernel_checked'] = ['%d,%d' % t for t in kernel][:80]
    chk.nontrivial += len(ks)
    # bit-exact correspondence of the D-function model
    fl = [exports[t] for t in (kernel if thorough else kernel[:12]) if t in exports]
    texts, metas = [], []
    for e in fl:
        pts = sample_points(rng, e, 25)
        vals = [(p, B.calc(e['problem'], p)) for p in pts]
        texts.append(float_v(e, vals)); metas.append((e, vals))
    res = core.coq_eval_many(texts, tag='gklsf', timeout=600, procs=12)
    fbad = []
    from vlib.evo_corr import parse_bad
    for (e, vals), (rc, out, path) in zip(metas, res):
        b = parse_bad(out) if rc == 0 else None
        if b is None:
            fbad.append(((e['dim'], e['k']), out[-200:]))
        elif b:
            fbad.append(((e['dim'], e['k']), [vals[i[0]] for i in b[:2]]))
        chk.traces += len(vals)
        chk.evaluations += len(vals)
    chk.obligation('correspondence: binary64 model of CalculateDFunction = GKLS.Calculate bit-for-bit (%d instances x ~90 points in every region)' % len(fl), not fbad, 'first: %r' % (fbad[:2],))
    chk.sample({'instance': 'GKLS(%d,%d)' % kernel[0], 'global_minimiser': exports[kernel[0]]['points'][1] if kernel[0] in exports else None})
    if not found:
        for ids, msg in wbad[:2]:
            chk.violation('wf-kernel', 'the exported parameters of one of %r are rejected by wf_q' % (ids,), {'kind': 'wf', 'instances': ids, 'coq': msg}, found_input=False)
        for t, w in fbad[:2]:
            chk.violation('dfunction-mismatch', 'GKLS%r: Calculate differs from the D-function model' % (t,), {'kind': 'float', 'instance': list(t), 'detail': repr(w)[:400]})


def replay(chk, rp):
    if rp.get('kind') == 'instance':
        fails = structure_direct(export(rp['dim'], rp['k'])); print(fails); return not fails
    print('re-run the check')
    return False


if __name__ == '__main__':       # (re)record the golden file from the current tree: deliberate, reviewed action
    H.core.setup_import_path()
    out = {}
    for d in (2, 3, 4, 5):
        for k in range(1, 101):
            e = export(d, k)
            out['%d,%d' % (d, k)] = {'values': [B.calc(e['problem'], p).hex() for p in golden_points(d)], 'optimum': [float(v).hex() for v in e['points'][1]]}
    json.dump(out, open(GOLDEN, 'w'), indent=0)
    print('recorded', len(out))
