"""C02 - every trial is placed by the AGP decision rule."""
from vlib import core, solver_checks as S, agp_corr as A, oracles as O, harness as H


def case_for_c02(rng):
    c = A.random_case(rng, max_iters=200)
    c['iters'] = rng.choice([30, 60, 120, 200])
    c['eps'] = rng.choice([1e-9, 1e-4, 1e-3, 0.01])
    if rng.random() < 0.5:
        c['objective'] = H.random_objective(rng, c['n'], kinds=('sinq', 'sinq', 'const', 'cones'), lo=c['lo'], hi=c['hi'])
    return c


def run(chk):
    rng = H.rng_for(chk.seed, 'C02')
    thorough = chk.tier == 'thorough'
    S.proof(chk, 'C02')
    bad, errors = S.lockstep(chk, rng, 150 if thorough else 36, make_case=case_for_c02)
    found = 0
    stats = {'steps': 0, 'ties': 0, 'mgrowth': 0}
    for _ in range(60 if thorough else 14):
        case = case_for_c02(rng)
        case['iters'] = min(case['iters'], 150 if thorough else 80)
        if _ % 3 == 1:      # the objective fails at a few evaluations; the caller catches the exception and goes on
            case['fail_at'] = sorted(rng.sample(range(3, max(6, case['iters'])), 3)); case['eps'] = 1e-9
            case['exc'] = rng.choice(['RuntimeError', 'KeyboardInterrupt', 'SystemExit', 'ZeroDivisionError'])
        if _ % 4 == 0:      # the search is resumed (Solve on an exhausted budget, budget raised) several times
            case['n'] = max(case['n'], 2)
            case['lo'], case['hi'] = H.random_box(rng, case['n'])
            case['objective'] = H.random_objective(rng, case['n'], kinds=('multi', 'cones', 'sin'), lo=case['lo'], hi=case['hi'])
            case['resume_at'] = [8, 20, 35, 50, 65]; case['eps'] = 1e-9; case['iters'] = 80
        if _ % 3 == 2:      # refinement early in the search, then the search goes on
            case['refine_at'] = rng.choice([2, 4, 8]); case['eps'] = 1e-9
            if _ % 2 == 0:
                case['objective'] = H.random_objective(rng, case['n'], kinds=('cones', 'quad', 'sin'), lo=case['lo'], hi=case['hi'])
        res = O.guarded(lambda c: O.c02_steps(c, check04=False, check06=False), case)
        if isinstance(res, tuple):
            fails, st = res
            for k in stats:
                stats[k] += st.get(k, 0)
        else:
            fails = res
        chk.evaluations += 1
        if fails:
            found += chk.violation('decision-rule', fails[0], {'kind': 'steps', 'case': case})
            if found > 2:
                break
    # long runs with a quiet late phase (neither M nor z* changes for thousands of iterations): binary64 arg-max check at every step
    longs = []
    plans = [('cone', 1, 300), ('hinge', 1, 16000), ('rootabs', 1, 2500), ('sin', rng.choice([2, 5, 16]), 1500), ('2d', rng.choice([2, 5]), 600), ('2dresume', 1, 1200), ('3dresume', 1, 800)]
    if thorough:
        plans += [('sin', 1, 16000), ('const', 1, 16000), ('2dflat', 1, 9000), ('hinge', 16, 4000), ('rootabs', 1, 6000), ('2d', 16, 2000)]
    for kind, batch, iters in plans:
        a = round(rng.uniform(0.2, 0.5), 3)
        obj = {'hinge': {'kind': 'pwl1d', 'xs': [0.0, a - 0.17, a + 0.23, 1.0], 'vs': [a - 0.17, 0.0, 0.0, 0.77 - a]},      # a flat basin: uniform refinement inside, a quiet late phase
               'cone': {'kind': 'cones', 'centers': [[round(rng.uniform(0.2, 0.8), 3)]], 'slopes': [1.0], 'offsets': [0.0]},      # driven to the resolution of binary64: ends in the method's own guard, never in a repeated point
               'rootabs': {'kind': 'rootabs', 'c': [round(rng.uniform(0.2, 0.8), 3)], 'q': rng.choice([0.5, 0.7])},      # Hoelder, not Lipschitz, at the minimiser: M keeps growing on ever closer pairs
               'sin': {'kind': 'sin', 'w': [round(rng.uniform(2, 9), 2)], 'a': [1.0]}, 'const': {'kind': 'const', 'c': 0.5},
               '2dflat': {'kind': 'cones', 'centers': [[0.5, 0.5]], 'slopes': [0.01], 'offsets': [0.0]},
               '2d': H.random_objective(rng, 2, kinds=('sin', 'cones', 'quad'), lo=[0.0, 0.0], hi=[1.0, 1.0]),
               '2dresume': {'kind': 'gkls', 'dim': 2, 'k': rng.choice([5, 5, rng.randint(1, 100)])},
               '3dresume': {'kind': 'gkls', 'dim': 3, 'k': rng.choice([2, 2, rng.randint(1, 100)])}}[kind]
        n = 3 if kind.startswith('3d') else (2 if kind.startswith('2d') else 1)
        case = {'n': n, 'lo': [0.0] * n, 'hi': [1.0] * n, 'r': rng.choice([1.5, 2.0, 2.5]), 'eps': 1e-300, 'iters': iters, 'density': None, 'objective': obj, 'batch': batch}
        if kind.endswith('resume'):
            case.update({'resume_every': 100, 'lo': [-1.0] * n, 'hi': [1.0] * n, 'r': rng.choice([3.5, 4.5])})
        res = O.guarded(O.c02_long, case)
        chk.evaluations += 1
        if isinstance(res, tuple):
            fails, st = res
            longs.append(st); chk.nontrivial += st['steps']
        else:
            fails = res
        if fails:
            found += chk.violation('decision-rule', fails[0], {'kind': 'long', 'case': case})
    chk.cov['long_runs'] = longs
    chk.cov['oracle_stats'] = stats
    chk.nontrivial += stats['steps']
    S.report_corr(chk, bad, errors, found)


def replay(chk, rp):
    if rp.get('kind') == 'long':
        res = O.guarded(O.c02_long, rp['case']); fails = res[0] if isinstance(res, tuple) else res
        print(fails); return not fails
    if rp.get('kind') == 'steps':
        res = O.guarded(lambda c: O.c02_steps(c, check04=False, check06=False), rp['case'])
        fails = res[0] if isinstance(res, tuple) else res
        print(fails)
        return not fails
    return S.replay_lockstep(rp)
