"""C19 - search-data containers: ordered set + max-priority queues."""
import itertools

from vlib import core, harness as H
from vlib.evo_corr import parse_bad

HEADER = """From Coq Require Import ZArith List Bool PrimFloat.
From IOptV Require Import AGP.Ops AGP.FloatOps Containers.SData Containers.SDataCorr.
Import ListNotations.
Open Scope float_scope.
"""
fh = core.fhex
XS = [0.125, 0.25, 0.375, 0.5, 0.625, 0.75, 0.875]
RS = [0.5, 1.0, 1.0, 2.0, 3.0]


def execute(case):
    """run an op sequence on the real classes; returns (results, final uids, count, oracle failures)"""
    from iOpt.method.search_data import SearchData, SearchDataDualQueue, SearchDataItem
    from iOpt.trial import Point
    dual, ml = case['dual'], case['maxlen']
    sd = (SearchDataDualQueue if dual else SearchData)(None, ml)
    objs = {}
    uid_of = {}

    def mk(spec):
        u, x, R, Lr = spec
        it = SearchDataItem(Point([x], []), x)
        it.globalR = R; it.localR = Lr
        objs[u] = it; uid_of[id(it)] = u
        return it
    results = []
    fails = []
    order = []              # reference: list of uids in coordinate order (maintained from the op arguments, independent of the class)
    queued = []             # reference multiset for the global queue: list of (prio, uid) - admissible-answer oracle
    lqueued = []
    maybe_g, maybe_l = [], []      # entries that were stale when a request passed them: the implementation may or may not still hold them

    def qadd(q, p, u):
        q.append((p, u))
        if ml is not None and len(q) > ml:
            lo = min(pp for pp, _ in q)
            # any entry of lowest priority may have been dropped: keep the oracle permissive by dropping one lowest entry lazily
            cands = [e for e in q if e[0] == lo]
            q.remove(cands[-1])
    for op in case['ops']:
        kind = op[0]
        try:
            if kind == 'first':
                l, r = mk(op[1]), mk(op[2])
                sd.InsertFirstDataItem(l, r); order[:] = [op[1][0], op[2][0]]
                results.append(('none',))
            elif kind == 'ins':
                spec, hint = op[1], op[2]
                it = mk(spec)
                if hint is None:
                    sd.InsertDataItem(it)
                else:
                    sd.InsertDataItem(it, objs[hint])
                results.append(('none',))
                # reference position: before the first item with a larger coordinate
                k = next(j for j, u in enumerate(order) if objs[u].GetX() > spec[1])
                order.insert(k, spec[0])
                qadd(queued, spec[2], spec[0]); qadd(lqueued, spec[3], spec[0])
                if hint is not None:
                    qadd(queued, objs[hint].globalR, hint); qadd(lqueued, objs[hint].localR, hint)
            elif kind == 'clear':
                sd.ClearQueue(); queued.clear(); results.append(('none',))
                maybe_g.clear(); maybe_l.clear()
                if dual:
                    lqueued.clear()
            elif kind == 'refill':
                sd.RefillQueue(); queued.clear(); results.append(('none',))
                maybe_g.clear(); maybe_l.clear()
                for u in order:
                    qadd(queued, objs[u].globalR, u)
                if dual:
                    lqueued.clear()
                    for u in order:
                        qadd(lqueued, objs[u].localR, u)
            elif kind in ('bestg', 'bestl'):
                q = queued if kind == 'bestg' else lqueued
                key = (lambda u: objs[u].globalR) if kind == 'bestg' else (lambda u: objs[u].localR)
                got = sd.GetDataItemWithMaxGlobalR() if kind == 'bestg' else sd.GetDataItemWithMaxLocalR()
                u = uid_of[id(got)]
                results.append(('item', u))
                # admissible-answer oracle (exact only for unbounded queues, where the reference multiset is exact)
                if ml is None:
                    if not q and not (dual and (key(u), u) in (maybe_g if kind == 'bestg' else maybe_l)):
                        for v in order:
                            q.append((key(v), v))
                        if dual:
                            other = lqueued if kind == 'bestg' else queued
                            okey = (lambda w: objs[w].localR) if kind == 'bestg' else (lambda w: objs[w].globalR)
                            other.clear()
                            for v in order:
                                other.append((okey(v), v))
                            maybe_g.clear(); maybe_l.clear()
                    if dual:
                        mb = maybe_g if kind == 'bestg' else maybe_l
                        other = lqueued if kind == 'bestg' else queued
                        okey = (lambda w: objs[w].localR) if kind == 'bestg' else (lambda w: objs[w].globalR)

                        def refill_ref():
                            q[:] = [(key(v), v) for v in order]
                            other[:] = [(okey(v), v) for v in order]
                            maybe_g.clear(); maybe_l.clear()
                        curtop = max([e[0] for e in q if e[0] == key(e[1])], default=None)
                        if (key(u), u) in mb and (curtop is None or key(u) >= curtop):
                            # an entry that was stale when an earlier request passed it may or may not have been discarded then (that depends on its
                            # position among equal priorities); its item's characteristic has meanwhile returned to the queued value, so it is current
                            # again, and no current entry known to be queued has a higher priority: an admissible answer
                            mb.remove((key(u), u))
                            mb[:] = [e for e in mb if e[0] <= key(u)]
                            for e in [e for e in q if e[0] > key(u)]:
                                q.remove(e)
                            for e in [e for e in q if e[0] == key(u) and e[0] != key(e[1])]:
                                q.remove(e); mb.append(e)
                        else:
                            while True:
                                cur = [e for e in q if e[0] == key(e[1])]
                                top = max(p for p, _ in q)
                                if any(e[0] == top for e in cur):
                                    break
                                # all entries of the top priority are stale: they are discarded
                                for e in [e for e in q if e[0] == top]:
                                    q.remove(e)
                                if not q:
                                    refill_ref()
                            top = max(p for p, _ in q)
                            adm = [e for e in q if e[0] == top and e[0] == key(e[1])]
                            if not any(e[1] == u for e in adm):
                                fails.append('dual %s request returned item %d (R=%r); current entries of maximal priority %r: %r' % (kind, u, key(u), top, adm))
                            else:
                                q.remove(next(e for e in adm if e[1] == u))
                                mb[:] = [e for e in mb if e[0] <= top]
                                # stale entries of the same priority may or may not have been discarded on the way
                                for e in [e for e in q if e[0] == top and e[0] != key(e[1])]:
                                    q.remove(e); mb.append(e)
                    else:
                        top = max(p for p, _ in q)
                        adm = [e for e in q if e[0] == top]
                        if not any(e[1] == u for e in adm):
                            fails.append('%s request returned item %d whose queued characteristic is not maximal (max %r held by %r)' % (kind, u, top, adm))
                        else:
                            q.remove(next(e for e in adm if e[1] == u))
            elif kind == 'find':
                got = sd.FindDataItemByOneDimensionalPoint(op[1])
                results.append(('found', None if got is None else uid_of[id(got)]))
                exp = next((u for u in order if objs[u].GetX() > op[1]), None)
                if (None if got is None else uid_of[id(got)]) != exp:
                    fails.append('lookup(%r) returned %r, the first item to the right is %r' % (op[1], results[-1][1], exp))
            elif kind == 'setR':
                objs[op[1]].globalR = op[2]; results.append(('none',))
            elif kind == 'setL':
                objs[op[1]].localR = op[2]; results.append(('none',))
        except Exception as e:  # noqa
            results.append(('error', type(e).__name__))
        # traversal / links / count after every operation
        try:
            tr = list(sd)
        except StopIteration:
            tr = []
        uids = [uid_of[id(t)] for t in tr]
        if uids != order:
            fails.append('after op %r: traversal %r, expected %r' % (op[0], uids, order)); break
        for a, b in zip(tr, tr[1:]):
            if a.GetRight() is not b or b.GetLeft() is not a:
                fails.append('after op %r: inconsistent neighbour links' % (op[0],)); break
        if sd.GetCount() != len(order):
            fails.append('after op %r: GetCount %d, %d items' % (op[0], sd.GetCount(), len(order)))
        if fails:
            break
    try:
        final = [uid_of[id(t)] for t in sd]
    except StopIteration:
        final = []
    return results, final, sd.GetCount(), fails


def random_case(rng, nops):
    dual = rng.random() < 0.5
    ml = rng.choice([None, None, None, 2, 3, 5])
    ops = [('first', (0, 0.0, -1e300, -1e300), (1, 1.0, rng.choice(RS), rng.choice(RS)))]
    xs = {0.0, 1.0}
    order = [(0.0, 0), (1.0, 1)]
    nxt = 2
    for _ in range(nops):
        k = rng.choice(['ins', 'ins', 'ins', 'insn', 'bestg', 'bestg', 'bestl', 'clear', 'refill', 'find', 'setR', 'setR', 'setL'])
        if k in ('ins', 'insn'):
            x = rng.choice(XS) + rng.choice([0, 1 / 64, 1 / 32])
            if x in xs:
                continue
            xs.add(x)
            right = next(u for xx, u in sorted(order) if xx > x)
            order.append((x, nxt))
            ops.append(('ins', (nxt, x, rng.choice(RS), rng.choice(RS)), right if k == 'ins' else None)); nxt += 1
        elif k == 'bestl':
            if dual:
                ops.append(('bestl',))
        elif k == 'find':
            ops.append(('find', rng.choice([rng.random(), rng.choice(XS), 0.0, 1.0, 1.5])))
        elif k == 'setR':
            ops.append(('setR', rng.randrange(nxt), rng.choice(RS)))
        elif k == 'setL':
            ops.append(('setL', rng.randrange(nxt), rng.choice(RS)))
        else:
            ops.append((k,))
    return {'dual': dual, 'maxlen': ml, 'ops': ops}


def short_cases():
    """all sequences of <= 4 operations over a small alphabet, both classes"""
    alpha = [('ins', (2, 0.5, 2.0, 1.0), 1), ('ins', (3, 0.25, 2.0, 2.0), None), ('ins', (4, 0.75, 1.0, 3.0), 1), ('bestg',), ('refill',), ('clear',),
             ('setR', 1, 3.0), ('find', 0.3)]
    first = ('first', (0, 0.0, -1e300, -1e300), (1, 1.0, 1.0, 1.0))
    for n in (1, 2, 3, 4):
        for seq in itertools.product(alpha, repeat=n):
            ids = [op[1][0] for op in seq if op[0] == 'ins']
            if len(set(ids)) != len(ids):
                continue
            # hints must name the actual right neighbour: 0.75 (id 4) sits left of 1; 0.5 (id 2) left of 4 if present else of 1
            seq2 = []
            present = {0.0: 0, 1.0: 1}
            for op in seq:
                if op[0] == 'ins':
                    x = op[1][1]
                    right = present[min(v for v in present if v > x)]
                    seq2.append(('ins', op[1], right if op[2] is not None else None)); present[x] = op[1][0]
                else:
                    seq2.append(op)
            for dual in (False, True):
                yield {'dual': dual, 'maxlen': None, 'ops': [first] + seq2}


def op_v(op):
    def item(spec):
        return 'mkC %d%%nat %s %s %s' % (spec[0], fh(spec[1]), fh(spec[2]), fh(spec[3]))
    k = op[0]
    if k == 'first':
        return 'InsertFirst (%s) (%s)' % (item(op[1]), item(op[2]))
    if k == 'ins':
        return 'Insert (%s) %s' % (item(op[1]), 'None' if op[2] is None else '(Some %d%%nat)' % op[2])
    if k == 'find':
        return 'Find %s' % fh(op[1])
    if k == 'setR':
        return 'SetR %d%%nat %s' % (op[1], fh(op[2]))
    if k == 'setL':
        return 'SetL %d%%nat %s' % (op[1], fh(op[2]))
    return {'clear': 'ClearQ', 'refill': 'Refill', 'bestg': 'GetBestG', 'bestl': 'GetBestL'}[k]


def res_v(r):
    if r[0] == 'none':
        return 'RNone'
    if r[0] == 'item':
        return 'RItem %d%%nat' % r[1]
    if r[0] == 'found':
        return 'RFound None' if r[1] is None else 'RFound (Some %d%%nat)' % r[1]
    return 'RError'


def cases_v(recs):
    rows = []
    for case, res, final, count in recs:
        rows.append('mkCC %s %s %s %s %s %d%%nat' % ('None' if case['maxlen'] is None else '(Some %d%%nat)' % case['maxlen'], 'true' if case['dual'] else 'false',
                                                   core.coq_list([op_v(o) for o in case['ops']]), core.coq_list([res_v(r) for r in res]),
                                                   core.coq_list(['%d%%nat' % u for u in final]), count))
    return HEADER + 'Definition cases : list ccase := [\n' + ';\n'.join(rows) + '\n].\nEval vm_compute in (bad_ccases cases 0).\n'


def run(chk):
    rng = H.rng_for(chk.seed, 'C19')
    thorough = chk.tier == 'thorough'
    core.proof_stage(chk, 'Properties/C19.v', extra_targets=['Containers/SDataCorr.vo'])
    chk.assumptions += ['depq.DEPQ (third party) is modelled as a stable descending list with drop-last bounding (read off its source)',
                        'insertions are made at valid positions (the hint is the actual right neighbour; coordinates distinct); keys are finite floats']
    cases = [random_case(rng, rng.randint(2, 30)) for _ in range(3000 if thorough else 500)]
    shorts = list(short_cases())
    if not thorough:
        rng.shuffle(shorts); shorts = shorts[:1500]
    cases += shorts
    recs = []
    found = 0
    kinds = {}
    for case in cases:
        res, final, count, fails = execute(case)
        recs.append((case, res, final, count))
        for op in case['ops']:
            kinds[op[0]] = kinds.get(op[0], 0) + 1
        if fails and found < 3:
            found += chk.violation('container', fails[0], {'kind': 'ops', 'case': case})
    chk.evaluations += len(cases)
    chk.nontrivial += len({repr(c) for c in cases if len(c['ops']) > 2})
    chk.traces += len(cases)
    chk.cov['distribution'] = {'operations_by_kind': kinds, 'dual_cases': sum(1 for c in cases if c['dual']), 'bounded_cases': sum(1 for c in cases if c['maxlen'] is not None)}
    chk.sample({'container_case': cases[0]})
    shards = [recs[i:i + 400] for i in range(0, len(recs), 400)]
    outs = core.coq_eval_many([cases_v(s) for s in shards], tag='sdata')
    bad = []
    ok = True
    for sh, (rc, out, path) in zip(shards, outs):
        b = parse_bad(out) if rc == 0 else None
        if b is None:
            ok = False
            chk.obligation('container correspondence (model evaluation by coqc)', False, out[-800:])
            continue
        for k, code in b:
            bad.append((sh[k][0], code))
    chk.obligation('correspondence: real SearchData / SearchDataDualQueue = model on every operation sequence (results, traversal, count)', ok and not bad,
                   'first: %r' % ([(c, code) for c, code in bad[:2]],))
    if not found:
        for c, code in bad[:2]:
            what = 'final traversal differs' if code == 1000 else ('count differs' if code == 1001 else 'result of operation %d differs' % (code - 1))
            chk.violation('container-mismatch', 'model and implementation disagree: ' + what, {'kind': 'ops-corr', 'case': c, 'code': code})


def replay(chk, rp):
    case = rp['case']
    case['ops'] = [tuple(tuple(x) if isinstance(x, list) else x for x in op) for op in case['ops']]
    res, final, count, fails = execute(case)
    print(fails)
    return not fails
