"""C06 - search information is a faithful, ordered, complete record."""
from vlib import core, solver_checks as S, agp_corr as A, oracles as O, harness as H


def run(chk):
    rng = H.rng_for(chk.seed, 'C06')
    thorough = chk.tier == 'thorough'
    S.proof(chk, 'C06')
    bad, errors = S.lockstep(chk, rng, 160 if thorough else 40)
    found = 0
    for _ in range(50 if thorough else 12):
        case = A.random_case(rng)
        case['iters'] = rng.choice([3, 10, 40, 80])
        if _ % 3 == 1:
            case['start'] = H.random_start(rng, case['lo'], case['hi'])
        if _ % 4 == 1:
            case['refine_at'] = rng.choice([3, 6]); case['refine_iters'] = 30      # a refinement, then the global search goes on: every later trial is recorded
        if _ % 4 == 2:
            case['discrete'] = rng.choice([1, 2])      # a problem that also declares discrete parameters (ignored by this version)
        if _ % 4 == 3 and case['n'] >= 2:
            case['reassign_parameters_at'] = rng.choice([3, 6])      # the user replaces solver.parameters by a new object in the middle
        res = O.guarded(lambda c: O.c02_steps(c, check04=False, check06=True), case)
        fails = res[0] if isinstance(res, tuple) else res
        chk.evaluations += 1
        chk.nontrivial += 1
        if fails:
            found += chk.violation('record', fails[0], {'kind': 'steps', 'case': case})
            if found > 2:
                break
    for _ in range(40 if thorough else 12):   # after Solve returned, with and without refinement
        case = A.random_case(rng)
        case['iters'] = rng.choice([20, 60, 100]); case['refine'] = rng.random() < 0.7
        if _ % 3 == 1:
            case['start'] = H.random_start(rng, case['lo'], case['hi'])
        fails = O.guarded(O.c06_after_solve, case)
        chk.evaluations += 1
        if fails:
            found += chk.violation('record-after-solve', fails[0], {'kind': 'after-solve', 'case': case})
            if found > 2:
                break
    # objectives that fail (at given calls / on a slab of the box) while the caller goes on: the record must list exactly the evaluated trials
    for _ in range(24 if thorough else 8):
        case = A.random_case(rng, dims=(1, 2, 3))
        case['iters'] = rng.choice([12, 25, 40]); case['eps'] = 1e-9
        case['exc'] = rng.choice(['RuntimeError', 'ValueError', 'ZeroDivisionError'])
        if _ % 4 == 3:      # +inf on a slab (an infeasibility marker): such evaluations are failures, never records
            a = case['lo'][0] + (case['hi'][0] - case['lo'][0]) * rng.uniform(0.55, 0.8)
            case['inf_region'] = [0, a, a + (case['hi'][0] - case['lo'][0]) * rng.uniform(0.05, 0.15)]
        elif _ % 2:
            a = case['lo'][0] + (case['hi'][0] - case['lo'][0]) * rng.uniform(0.55, 0.8)
            case['fail_region'] = [0, a, a + (case['hi'][0] - case['lo'][0]) * rng.uniform(0.05, 0.15)]
        else:
            case['fail_at'] = sorted(rng.sample(range(2, case['iters']), 3))
        fails = O.guarded(O.c06_failures, case)
        chk.evaluations += 1
        if fails:
            found += chk.violation('record', fails[0], {'kind': 'failures', 'case': case})
            if found > 2:
                break
    # runs driven to the floating-point resolution of the curve coordinate (the method's own guard ends them)
    for c0 in (0.3, 0.7, 1.0):
        case = {'n': 1, 'lo': [0.0], 'hi': [1.0], 'objective': {'kind': 'cones', 'centers': [[c0]], 'slopes': [1.0], 'offsets': [0.0]},
                'r': 2.0, 'eps': 0.0, 'iters': 400}
        code = ("import sys, json; sys.path.insert(0, '/verif')\nfrom vlib import oracles as O\n"
                "print('FAILS=' + json.dumps(O.guarded(O.c06_after_solve, %r)))" % (case,))
        rc, out, dt = H.run_isolated(code, timeout=60)
        chk.evaluations += 1
        import json as _json
        line = [l for l in out.splitlines() if l.startswith('FAILS=')]
        fails = _json.loads(line[0][6:]) if line else ['Solve did not return within 60 s (run driven to float resolution)']
        if fails:
            found += chk.violation('record-at-resolution', fails[0], {'kind': 'after-solve', 'case': case})
    S.report_corr(chk, bad, errors, found)


def replay(chk, rp):
    if rp.get('kind') == 'steps':
        res = O.guarded(lambda c: O.c02_steps(c, check04=False, check06=True), rp['case'])
        fails = res[0] if isinstance(res, tuple) else res
        print(fails); return not fails
    if rp.get('kind') == 'failures':
        fails = O.guarded(O.c06_failures, rp['case']); print(fails); return not fails
    if rp.get('kind') == 'after-solve':
        fails = O.guarded(O.c06_after_solve, rp['case']); print(fails); return not fails
    return S.replay_lockstep(rp)
