"""C15 - benchmark evaluation is a pure function of the point."""
from vlib import core, bench_checks as B, harness as H


def run(chk):
    import numpy as np
    from iOpt.trial import Point, FunctionValue
    rng = H.rng_for(chk.seed, 'C15')
    thorough = chk.tier == 'thorough'
    core.proof_stage(chk, 'Properties/C15.v')
    chk.assumptions += ['the write sets are syntactic facts about the evaluation paths (assignment targets, mutating calls) read from the source on every run',
                        'numpy view aliasing inside an evaluation cannot be exhibited by the store model: it is covered by the history-differential runs '
                        '(reused argument buffers, several live instances)']
    fams = [lambda: ('Hill', {'k': rng.randrange(1000)}), lambda: ('Shekel', {'k': rng.randrange(1000)}), lambda: ('Shekel4', {'k': rng.choice([1, 2, 3])}),
            lambda: ('Grishagin', {'k': rng.randrange(1, 101)}), lambda: ('GKLS', {'dim': rng.choice([2, 3, 4, 5]), 'k': rng.randrange(1, 101)}),
            lambda: ('Rastrigin', {'dim': rng.choice([1, 2, 3])}), lambda: ('XSquared', {'dim': rng.choice([1, 2, 5])}), lambda: ('StronginC3', {})]
    live = []           # (key, problem)
    memo = {}           # key -> list of (point tuple, value) obtained from a FRESH instance evaluated once
    found = 0
    steps = 4000 if thorough else 900
    buffers = {}        # dimension -> one numpy buffer reused (mutated in place) between calls
    kinds = {}

    def fresh_value(fam, kw, y):
        return B.calc(B.problem(fam, **kw), list(y))
    for step in range(steps):
        if not live or rng.random() < 0.12:
            fam, kw = rng.choice(fams)()
            live.append(((fam, tuple(sorted(kw.items()))), B.problem(fam, **kw)))
            if len(live) > 10:
                live.pop(rng.randrange(len(live)))
        key, pb = rng.choice(live)
        fam, kw = key[0], dict(key[1])
        kinds[fam] = kinds.get(fam, 0) + 1
        lo = [float(v) for v in pb.lowerBoundOfFloatVariables]; hi = [float(v) for v in pb.upperBoundOfFloatVariables]
        pts = memo.setdefault(key, [])
        if pts and rng.random() < 0.6:
            y, v0 = rng.choice(pts)
        else:
            y = tuple(a + (b - a) * rng.random() for a, b in zip(lo, hi))
            v0 = fresh_value(fam, kw, y)
            pts.append((y, v0))
        mode = rng.choice(['fresh-array', 'reused-buffer', 'list'])
        if mode == 'reused-buffer':
            buf = buffers.setdefault(len(y), np.zeros(len(y), dtype=np.double))
            buf[:] = y
            arg = buf
        elif mode == 'list':
            arg = list(y)
        else:
            arg = np.array(y, dtype=np.double)
        fv = FunctionValue()
        try:
            out = pb.Calculate(Point(arg, []), fv)
        except Exception as e:
            found += chk.violation('impure', '%s%r: evaluation number %d raised %s: %s' % (fam, kw, step, type(e).__name__, str(e)[:120]), {'kind': 'history', 'family': fam, 'args': kw, 'step': step})
            if found > 2:
                break
            continue
        chk.evaluations += 1
        if out is not fv:
            found += chk.violation('impure', '%s%r: Calculate did not return the supplied value holder' % (fam, kw), {'kind': 'history', 'family': fam, 'args': kw})
        if [float(t) for t in arg] != list(y):
            found += chk.violation('impure', '%s%r: Calculate modified its point argument: %r -> %r' % (fam, kw, list(y), [float(t) for t in arg]), {'kind': 'history', 'family': fam, 'args': kw})
        if not (float(fv.value) == v0):
            found += chk.violation('impure', '%s%r: value at %r is %r after %d interleaved constructions/evaluations (%s argument), %r from a fresh instance evaluated once'
                                   % (fam, kw, list(y), float(fv.value), step, mode, v0), {'kind': 'history', 'family': fam, 'args': kw, 'point': list(y), 'step': step, 'seed': chk.seed})
        if found > 2:
            break
    chk.nontrivial += sum(len(v) for v in memo.values())
    chk.cov['distribution'] = {'evaluations_by_family': kinds, 'distinct_instances': len(memo)}
    chk.sample({'history_step': {'family': 'GKLS', 'args': {'dim': 3, 'k': 7}, 'mode': 'reused-buffer'}})


def replay(chk, rp):
    print('history-dependent: re-run the check with seed %r' % rp.get('seed'))
    return False
