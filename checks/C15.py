"""C15 - benchmark evaluation is a pure function of the point."""
import math

from vlib import core, bench_checks as B, harness as H


SPECIAL = [('XSquared', {'dim': 2}, [1e-160, 5e-324]), ('XSquared', {'dim': 1}, [5e-324]), ('Rastrigin', {'dim': 2}, [1e-160, 1e-200]), ('Rastrigin', {'dim': 1}, [5e-324]),
           ('StronginC3', {}, [1e-170, 0.5]), ('XSquared', {'dim': 3}, [1e300 ** 0.5 * 1e-155, 0.1, 1e-161])]


def special_reference():
    import json
    code = ("import sys, json, warnings; warnings.simplefilter('ignore'); sys.path.insert(0, '/verif')\nfrom vlib import bench_checks as B\n"
            "print('REF=' + json.dumps([B.calc(B.problem(f, **kw), y) for f, kw, y in %r]))" % (SPECIAL,))
    rc, out, dt = H.run_isolated(code, timeout=120)
    line = [l for l in out.splitlines() if l.startswith('REF=')]
    vals = json.loads(line[0][4:]) if line else []
    return list(zip([(f, kw, y) for f, kw, y in SPECIAL], vals))


def run(chk):
    import numpy as np
    from iOpt.trial import Point, FunctionValue
    rng = H.rng_for(chk.seed, 'C15')
    thorough = chk.tier == 'thorough'
    core.proof_stage(chk, 'Properties/C15.v')
    chk.assumptions += ['the write sets are syntactic facts about the evaluation paths (assignment targets, mutating calls) read from the source on every run',
                        'numpy view aliasing inside an evaluation cannot be exhibited by the store model: it is covered by the history-differential runs '
                        '(reused argument buffers, several live instances)']
    fams = [lambda: ('Hill', {'k': rng.randrange(1000)}), lambda: ('Shekel', {'k': rng.randrange(1000)}), lambda: ('Shekel4', {'k': rng.choice([1, 2, 3])}),
            lambda: ('Grishagin', {'k': rng.randrange(1, 101)}), lambda: ('GKLS', {'dim': rng.choice([2, 3, 4, 5]), 'k': rng.randrange(1, 101)}),
            lambda: ('Rastrigin', {'dim': rng.choice([1, 2, 3])}), lambda: ('XSquared', {'dim': rng.choice([1, 2, 5])}), lambda: ('StronginC3', {})]
    live = []           # (key, problem)
    memo = {}           # key -> list of (point tuple, value) obtained from a FRESH instance evaluated once
    found = 0
    steps = 4000 if thorough else 900
    buffers = {}        # dimension -> one numpy buffer reused (mutated in place) between calls
    holders = {}
    special_ref = special_reference()
    kinds = {}

    def fresh_value(fam, kw, y):
        return B.calc(B.problem(fam, **kw), list(y))
    for step in range(steps):
        if not live or rng.random() < 0.12:
            fam, kw = rng.choice(fams)()
            newpb = B.problem(fam, **kw)
            live.append(((fam, tuple(sorted(kw.items()))), newpb))
            if rng.random() < 0.3:      # the FIRST point an instance sees is integer-typed (the origin / a lattice point given as ints) or float32
                lo0 = [float(v) for v in newpb.lowerBoundOfFloatVariables]; hi0 = [float(v) for v in newpb.upperBoundOfFloatVariables]
                ip = [int(min(max(0, math.ceil(a)), math.floor(b))) for a, b in zip(lo0, hi0)]
                if all(a <= t <= b for t, a, b in zip(ip, lo0, hi0)):
                    try:
                        newpb.Calculate(Point(np.array(ip) if rng.random() < 0.5 else ip, []), FunctionValue())
                    except Exception:  # noqa
                        pass
            if len(live) > 10:
                live.pop(rng.randrange(len(live)))
        key, pb = rng.choice(live)
        fam, kw = key[0], dict(key[1])
        kinds[fam] = kinds.get(fam, 0) + 1
        lo = [float(v) for v in pb.lowerBoundOfFloatVariables]; hi = [float(v) for v in pb.upperBoundOfFloatVariables]
        pts = memo.setdefault(key, [])
        if pts and rng.random() < 0.6:
            y, v0 = rng.choice(pts)
        else:
            y = tuple(a + (b - a) * rng.random() for a, b in zip(lo, hi))
            if rng.random() < 0.4:      # coordinates written with three decimals
                y = tuple(min(max(round(t, 3), a), b) for t, a, b in zip(y, lo, hi))
            try:
                v0 = fresh_value(fam, kw, y)
            except Exception as e:  # noqa
                found += chk.violation('impure', '%s%r: a FRESH instance raised %s at %r after %d interleaved constructions/evaluations of other problems: %s'
                                       % (fam, kw, type(e).__name__, list(y), step, str(e)[:100]), {'kind': 'history', 'family': fam, 'args': kw, 'point': list(y), 'step': step, 'seed': chk.seed})
                if found > 2:
                    break
                continue
            pts.append((y, v0))
        if rng.random() < 0.04:      # a probe outside the box (a plotting grid wider than the box, an overshooting line search): later values must not care
            yo = [b + (b - a) * rng.uniform(0.01, 0.5) if rng.random() < 0.5 else a - (b - a) * rng.uniform(0.01, 0.5) for a, b in zip(lo, hi)]
            try:
                pb.Calculate(Point(np.array(yo, dtype=np.double), []), FunctionValue())
            except Exception:  # noqa
                pass
        if fam == 'StronginC3' and rng.random() < 0.5:      # the constraint functions: value into the SUPPLIED holder, which is returned
            from iOpt.trial import FunctionType
            j = rng.randrange(3)
            hv = FunctionValue(FunctionType.CONSTRAINT, j)
            ref = B.problem('StronginC3').Calculate(Point(np.array(y, dtype=np.double), []), FunctionValue(FunctionType.CONSTRAINT, j)).value
            outc = pb.Calculate(Point(np.array(y, dtype=np.double), []), hv)
            chk.evaluations += 1
            if outc is not hv:
                found += chk.violation('impure', 'StronginC3 constraint %d: Calculate did not return the supplied value holder' % j, {'kind': 'history', 'family': fam, 'args': kw})
            elif not (float(hv.value) == float(ref)):
                found += chk.violation('impure', 'StronginC3 constraint %d at %r: the supplied holder holds %r, a fresh instance gives %r' % (j, list(y), hv.value, ref), {'kind': 'history', 'family': fam, 'args': kw})
        if rng.random() < 0.05:      # the problem's own declared optimum, passed as the very Point object the problem publishes
            ko = pb.knownOptimum[0]
            kp = [float(t) for t in ko.point.floatVariables]
            try:
                v1 = float(pb.Calculate(ko.point, FunctionValue()).value)
                v2 = float(pb.Calculate(Point(np.array(kp, dtype=np.double), []), FunctionValue()).value)
            except Exception as e:  # noqa
                v1 = v2 = None
            chk.evaluations += 1
            if [float(t) for t in ko.point.floatVariables] != kp:
                found += chk.violation('impure', '%s%r: evaluating at the published knownOptimum point changed that point: %r -> %r' % (fam, kw, kp, [float(t) for t in ko.point.floatVariables]), {'kind': 'history', 'family': fam, 'args': kw})
            elif v1 is not None and not (v1 == v2):
                found += chk.violation('impure', '%s%r: value at the declared optimum is %r through the published Point object and %r through a copy of it' % (fam, kw, v1, v2), {'kind': 'history', 'family': fam, 'args': kw})
        mode = rng.choice(['fresh-array', 'reused-buffer', 'list'])
        if mode == 'reused-buffer':
            buf = buffers.setdefault(len(y), np.zeros(len(y), dtype=np.double))
            buf[:] = y
            arg = buf
        elif mode == 'list':
            arg = list(y)
        else:
            arg = np.array(y, dtype=np.double)
        hmode = rng.choice(['new', 'new', 'reused', 'prefilled'])
        if hmode == 'reused':      # one holder object used for many evaluations (a scan loop): it still carries the previous value
            fv = holders.setdefault('h', FunctionValue())
        elif hmode == 'prefilled':
            fv = FunctionValue(); fv.value = rng.choice([123.5, -7.0, float('nan'), float('inf')])
        else:
            fv = FunctionValue()
        mode = mode + '/' + hmode + ' holder'
        try:
            out = pb.Calculate(Point(arg, []), fv)
        except Exception as e:
            found += chk.violation('impure', '%s%r: evaluation number %d raised %s: %s' % (fam, kw, step, type(e).__name__, str(e)[:120]), {'kind': 'history', 'family': fam, 'args': kw, 'step': step})
            if found > 2:
                break
            continue
        chk.evaluations += 1
        if out is not fv:
            found += chk.violation('impure', '%s%r: Calculate did not return the supplied value holder' % (fam, kw), {'kind': 'history', 'family': fam, 'args': kw})
        if [float(t) for t in arg] != list(y):
            found += chk.violation('impure', '%s%r: Calculate modified its point argument: %r -> %r' % (fam, kw, list(y), [float(t) for t in arg]), {'kind': 'history', 'family': fam, 'args': kw})
        if not (float(fv.value) == v0):
            found += chk.violation('impure', '%s%r: value at %r is %r after %d interleaved constructions/evaluations (%s argument), %r from a fresh instance evaluated once'
                                   % (fam, kw, list(y), float(fv.value), step, mode, v0), {'kind': 'history', 'family': fam, 'args': kw, 'point': list(y), 'step': step, 'seed': chk.seed})
        if found > 2:
            break
    # special points (tiny and denormal coordinates) against values computed in a fresh interpreter before this history
    for (fam, kw, y), ref in special_ref:
        chk.evaluations += 1
        try:
            got = B.calc(B.problem(fam, **kw), y)
        except Exception as e:  # noqa
            found += chk.violation('impure', '%s%r at %r raised %s after the interleaved history (value in a fresh interpreter: %r)' % (fam, kw, y, type(e).__name__, ref),
                                   {'kind': 'special', 'family': fam, 'args': kw, 'point': y, 'seed': chk.seed})
            continue
        if not (got == ref):
            found += chk.violation('impure', '%s%r at %r is %r after the interleaved history, %r in a fresh interpreter' % (fam, kw, y, got, ref),
                                   {'kind': 'special', 'family': fam, 'args': kw, 'point': y, 'seed': chk.seed})
    chk.nontrivial += sum(len(v) for v in memo.values())
    chk.cov['distribution'] = {'evaluations_by_family': kinds, 'distinct_instances': len(memo)}
    chk.sample({'history_step': {'family': 'GKLS', 'args': {'dim': 3, 'k': 7}, 'mode': 'reused-buffer'}})


def replay(chk, rp):
    print('history-dependent: re-run the check with seed %r' % rp.get('seed'))
    return False
