"""C12 - solver instances are isolated from one another."""
import itertools

from vlib import core, agp_corr as A, oracles as O, harness as H


def sequential(case):
    """a Solution obtained earlier still reports its own optimum after other solvers were created and run"""
    fails = []
    pa, sa = O.build(case['solvers'][0])
    sol, _ = H.run_script(sa, [('solve',)])
    snap = ([float(v) for v in sol.bestTrials[0].point.floatVariables], sol.bestTrials[0].functionValues[0].value, sol.numberOfGlobalTrials, sol.solutionAccuracy)
    rec = [(i.GetX(), i.GetZ(), i.functionValues[0].value) for i in H.items(sa)]
    for c in case['solvers'][1:]:
        pb, sb = O.build(c)
        H.run_script(sb, [('iter', 3), ('solve',)])
    now = ([float(v) for v in sol.bestTrials[0].point.floatVariables], sol.bestTrials[0].functionValues[0].value, sol.numberOfGlobalTrials, sol.solutionAccuracy)
    if now != snap:
        fails.append('a Solution returned earlier changed after other solvers ran: %r -> %r' % (snap, now))
    rec2 = [(i.GetX(), i.GetZ(), i.functionValues[0].value) for i in H.items(sa)]
    if rec2 != rec:
        fails.append('the search information of a finished solver changed after other solvers ran')
    return fails


def default_parameters(case):
    """creating and stepping other default-parameter solvers must not change what a default-parameter solver does"""
    import random
    from iOpt.solver import Solver
    rng = random.Random(case['seed'])
    fails = []

    def mk(n):
        lo, hi = [-1.0] * n, [1.0] * n
        return H.make_problem(n, lo, hi, {'kind': 'quad', 'c': [0.3] * n})
    n0 = case['dims'][0]
    pa = mk(n0); sa = Solver(pa)
    with H.quiet():
        sa.DoGlobalIteration(6)
    solo = [tuple(y) for y, _ in pa.log]
    others = []
    for n in case['dims'][1:]:
        pb = mk(n); sb = Solver(pb); others.append((pb, sb))
        with H.quiet():
            sb.DoGlobalIteration(2)
    for n in [n0] + case['dims'][2:]:
        pc = mk(n); sc = Solver(pc)
        with H.quiet():
            sc.DoGlobalIteration(6)
        if n == n0 and [tuple(y) for y, _ in pc.log] != solo:
            fails.append('a default-parameter solver for a %d-variable problem behaves differently after other solvers (dimensions %r) were created: first trial %r vs %r'
                         % (n, case['dims'][1:], pc.log[0][0], solo[0]))
    return fails


def reference_in_fresh_process(case):
    """trial sequence of a solver running alone in a fresh interpreter: immune to anything other solvers leave behind in this process"""
    import json
    code = ("import sys, json, warnings; warnings.simplefilter('ignore'); sys.path.insert(0, '/verif')\nfrom vlib import oracles as O, harness as H\n"
            "p, s = O.build(%r)\nsol, out = H.run_script(s, [('iter', 3), ('iter', 8), ('solve',)])\nprint('REF=' + json.dumps([[list(y), v] for y, v in p.log]))" % (case,))
    rc, out, dt = H.run_isolated(code, timeout=120)
    line = [l for l in out.splitlines() if l.startswith('REF=')]
    return json.loads(line[0][4:]) if line else None


def against_fresh_reference(case):
    """case: {'disturbers': [cases run first in this process], 'victim': case}: the victim behaves as in a fresh interpreter"""
    import warnings
    ref = reference_in_fresh_process(case['victim'])
    if ref is None:
        return ['the victim did not finish alone in a fresh interpreter']
    with warnings.catch_warnings():
        warnings.simplefilter('ignore')
        p, s = O.build(case['victim'])      # the victim exists and has made three trials when the others run
        with H.quiet():
            s.DoGlobalIteration(3)
    for c in case['disturbers']:
        pd = None
        try:
            if c.get('on_victims_problem'):      # a second solver on the SAME Problem object (it may only read it)
                sd = H.make_solver(p, r=c['r'], eps=c['eps'], iters=c['iters'], density=c.get('density'), refine=c.get('refine', False))
                n0 = len(p.log)
                H.run_script(sd, [('iter', 4), ('refine', 20)])
                del p.log[n0:]
                if [float(v) for v in p.lowerBoundOfFloatVariables] != [float(v) for v in case['victim']['lo']] or [float(v) for v in p.upperBoundOfFloatVariables] != [float(v) for v in case['victim']['hi']]:
                    return ['another solver working on the same Problem object changed the bounds stored in it: %r..%r -> %r..%r'
                            % (case['victim']['lo'], case['victim']['hi'], [float(v) for v in p.lowerBoundOfFloatVariables], [float(v) for v in p.upperBoundOfFloatVariables])]
            else:
                pd, sd = O.build(c)
                H.run_script(sd, c.get('script') and [tuple(o) for o in c['script']] or [('solve',)])
        except Exception:  # noqa  (a disturber may fail: its caller handles that)
            pass
    with warnings.catch_warnings():
        warnings.simplefilter('ignore')
        sol, out = H.run_script(s, [('iter', 8), ('solve',)])
    got = [[list(y), v] for y, v in p.log]
    if got != ref:
        k = next((i for i in range(min(len(got), len(ref))) if got[i] != ref[i]), min(len(got), len(ref)))
        return ['a solver running after %d other solver(s) in the same process makes %d trials (alone, in a fresh interpreter: %d); first difference at trial %d: %r vs %r'
                % (len(case['disturbers']), len(got), len(ref), k + 1, got[k] if k < len(got) else None, ref[k] if k < len(ref) else None)]
    return []


def fresh_reference_cases(rng, thorough):
    out = []
    # same dimension, density and lower corner, different upper corner (both orders)
    for _ in range(3 if thorough else 1):
        n = rng.choice([2, 3])
        lo = [float(rng.choice([0, -1, 2]))] * n
        a = {'n': n, 'lo': lo, 'hi': [v + 1.0 for v in lo], 'r': 2.5, 'eps': 0.05, 'iters': 30, 'density': rng.choice([None, 6]), 'objective': {'kind': 'quad', 'c': [v + 0.3 for v in lo]}}
        b = dict(a, hi=[lo[0] + 4.0] + [v + 2.0 for v in lo[1:]])
        out += [{'disturbers': [a], 'victim': b}, {'disturbers': [b], 'victim': a}]
    # a stochastic objective (numpy's global generator, seeded by its owner) next to a deterministic neighbour that is solved to the end
    for _ in range(2 if thorough else 1):
        noisy = {'n': 1, 'lo': [-1.0], 'hi': [2.0], 'r': 3.0, 'eps': 0.02, 'iters': 60, 'density': None, 'objective': {'kind': 'noisy', 'c': [0.4], 'seed': rng.randint(1, 99)}}
        calm = {'n': 2, 'lo': [0.0, 0.0], 'hi': [1.0, 1.0], 'r': 2.5, 'eps': 0.05, 'iters': 25, 'density': None, 'objective': {'kind': 'quad', 'c': [0.3, 0.6]}}
        out.append({'disturbers': [calm], 'victim': noisy})
    # another solver refines on the victim's own Problem object (boxes with non-zero lower bounds stored as float64 arrays)
    for lo, hi in (([-2.2], [1.8]), ([2.0, -3.0], [5.0, -1.0])):
        n = len(lo)
        v = {'n': n, 'lo': lo, 'hi': hi, 'r': 2.5, 'eps': 0.02, 'iters': 50, 'density': None, 'refine': True, 'objective': {'kind': 'quad', 'c': [a + 0.3 * (b - a) for a, b in zip(lo, hi)]}}
        out.append({'disturbers': [dict(v, on_victims_problem=True, r=3.5)], 'victim': v})
    # a solver that refines at the end of its Solve, while another solver on ANOTHER problem is created (and run) in between
    for _ in range(2 if thorough else 1):
        v = {'n': 2, 'lo': [-1.0, 0.5], 'hi': [1.5, 2.0], 'r': 3.0, 'eps': 0.02, 'iters': 60, 'density': None, 'refine': True, 'objective': {'kind': 'quad', 'c': [0.2, 1.1]}}
        d = {'n': 1, 'lo': [0.0], 'hi': [1.0], 'r': 2.5, 'eps': 0.05, 'iters': 15, 'density': None, 'objective': {'kind': 'sin', 'w': [7.0], 'a': [1.0]}, 'script': [['iter', 2]]}
        out.append({'disturbers': [d], 'victim': v})
    # a neighbour whose local refinement fails (its caller handles the error), then a solver whose objective relies on numpy's default
    # floating-point error handling (warn, do not raise)
    fail = {'n': 1, 'lo': [-1.0], 'hi': [1.0], 'r': 2.5, 'eps': 0.01, 'iters': 200, 'density': None, 'refine': True, 'objective': {'kind': 'quad', 'c': [0.3]},
            'fail_region': [0, 0.3 - 2e-4, 0.3 + 2e-4], 'script': [['solve']]}
    for obj, lo, hi in (({'kind': 'expcap', 'w': 900.0}, [-1.0], [1.0]), ({'kind': 'invcap'}, [-1.0], [1.0])):
        out.append({'disturbers': [fail], 'victim': {'n': 1, 'lo': lo, 'hi': hi, 'r': 2.5, 'eps': 0.01, 'iters': 150, 'density': None, 'objective': obj}})
    return out


def run(chk):
    rng = H.rng_for(chk.seed, 'C12')
    thorough = chk.tier == 'thorough'
    core.proof_stage(chk, 'Properties/C12.v')
    chk.assumptions += ['only the object kinds the source can share are modelled as cells (default-argument objects, class/module-level state); '
                        'the allocation policy is read from the source on every run', 'sharing through user-supplied objects (the same Problem or SolverParameters '
                        'instance given to two solvers) is outside the property']
    found = 0
    for case in fresh_reference_cases(rng, thorough):
        fails = O.guarded(against_fresh_reference, case)
        chk.evaluations += 1
        if fails:
            found += chk.violation('not-isolated', fails[0], {'kind': 'fresh-reference', 'case': case})
    # all interleavings of two solvers with up to 4 steps each
    pairs = 3 if thorough else 1
    for _ in range(pairs):
        ca = dict(A.random_case(rng, dims=(1, 2)), iters=rng.choice([6, 12]), eps=0.05)
        cb = dict(A.random_case(rng, dims=(1, 2, 3)), iters=rng.choice([5, 9]), eps=0.05)
        for na in (1, 2, 3, 4):
            for nb in (1, 2, 3, 4):
                if not thorough and (na, nb) not in ((1, 1), (2, 2), (3, 2), (4, 4), (2, 4)):
                    continue
                for pos in itertools.combinations(range(na + nb), na):
                    sched = [0 if i in pos else 1 for i in range(na + nb)]
                    case = {'solvers': [ca, cb], 'schedule': sched}
                    fails = O.guarded(O.c12, case)
                    chk.evaluations += 1
                    chk.nontrivial += 1
                    if fails:
                        found += chk.violation('not-isolated', fails[0], {'kind': 'interleave', 'case': case})
                        break
                if found:
                    break
            if found:
                break
    # random interleavings of three solvers, and sequential reuse
    for _ in range(40 if thorough else 10):
        cs = [dict(A.random_case(rng, dims=(1, 2, 3)), iters=rng.choice([6, 15, 30]), eps=rng.choice([0.1, 0.03])) for _ in range(3)]
        sched = [rng.randrange(3) for _ in range(rng.randint(3, 25))]
        case = {'solvers': cs, 'schedule': sched}
        fails = O.guarded(O.c12, case) or O.guarded(sequential, case)
        chk.evaluations += 1
        if fails:
            found += chk.violation('not-isolated', fails[0], {'kind': 'interleave', 'case': case})
            if found > 2:
                break
    # solvers created WITHOUT a parameters object (they use the library's default), problems of 1..7 variables
    for _ in range(12 if thorough else 4):
        fails = O.guarded(default_parameters, {'dims': [rng.choice([2, 3]), rng.choice([6, 7]), rng.choice([2, 3, 4])], 'seed': rng.randrange(10 ** 6)})
        chk.evaluations += 1
        if fails:
            found += chk.violation('not-isolated', fails[0], {'kind': 'default-params'})
            break
    chk.sample({'interleaving': {'schedule': [0, 1, 1, 0], 'solvers': 2}})
    chk.cov['exhaustive'] = False


def replay(chk, rp):
    if rp.get('kind') == 'fresh-reference':
        fails = O.guarded(against_fresh_reference, rp['case']); print(fails); return not fails
    fails = O.guarded(O.c12, rp['case']) or O.guarded(sequential, rp['case'])
    print(fails)
    return not fails
