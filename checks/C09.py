"""C09 - inverse image consistent with image."""
from vlib import core, evo_corr, oracles as O, harness as H


def run(chk):
    rng = H.rng_for(chk.seed, 'C09')
    thorough = chk.tier == 'thorough'
    core.proof_stage(chk, 'Properties/C09.v', extra_targets=['Evolvent/Corr.vo'])
    ok1, bad_inv = evo_corr.run_inverse_corr(chk, rng, 5000 if thorough else 1000)
    ok2, bad_img = evo_corr.run_image_corr(chk, rng, 2500 if thorough else 500)
    chk.obligation('correspondence: GetInverseImage/GetPreimages = model inverse (exactly representable box points)', ok1 and not bad_inv, 'first: %r' % bad_inv[:3])
    chk.obligation('correspondence: GetImage = model image', ok2 and not bad_img, 'first: %r' % bad_img[:3])
    chk.assumptions += ['theorems over exact rationals; y within float rounding of a cell boundary may fall in the neighbouring cell in binary64 (not covered)']
    found = 0
    for _ in range(1500 if thorough else 300):
        n = rng.choice([1, 2, 3, 4, 5])
        m = 10 if n == 1 else rng.choice([1, 2, 3, 5, 10, 50 // n])
        lo, hi = H.random_box(rng, n)
        if _ % 11 == 5:      # a box below the origin whose upper bounds are all exactly 0
            lo, hi = [-float(rng.choice([1, 3, 5])) for _k in range(n)], [0.0] * n
        x = rng.choice(evo_corr.edge_xs(rng, n, m) + [rng.random()] * 4)
        y = [a + (b - a) * rng.random() for a, b in zip(lo, hi)]
        if _ % 3 == 0:      # points on the faces, edges and corners of the box
            y = [rng.choice([a, b, a, a + (b - a) * rng.random()]) for a, b in zip(lo, hi)]
        case = {'n': n, 'm': m, 'lo': lo, 'hi': hi, 'x': x, 'y': y, 'prehistory': O.random_prehistory(rng, n, lo, hi)}
        fails = O.guarded(O.c09_point, case)
        chk.evaluations += 1
        if fails:
            found += chk.violation('round-trip', fails[0], {'kind': 'point', 'case': case})
            if found > 3:
                break
    if not found:
        for c in bad_inv[:2]:
            chk.violation('inverse-mismatch', 'GetInverseImage disagrees with the model (code %d: 1 generated model differs, 2 implementation differs)' % c['code'],
                          {'kind': 'inverse-corr', 'case': c})
        for c in bad_img[:2]:
            chk.violation('image-mismatch', 'GetImage disagrees with the model (code %d)' % c['code'], {'kind': 'image-corr', 'case': c}, found_input=False)


def replay(chk, rp):
    c = rp['case']
    fails = O.guarded(O.c09_point, {k: c[k] for k in ('n', 'm', 'lo', 'hi', 'x', 'y', 'prehistory') if k in c})
    print(fails)
    return not fails
