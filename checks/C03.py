"""C03 - termination, stop criterion, trial budget."""
from vlib import core, solver_checks as S, agp_corr as A, oracles as O, harness as H


def case_for_c03(rng):
    c = A.random_case(rng)
    c['iters'] = rng.choice([1, 1, 2, 2, 3, 5, 10, 40, 100])
    c['eps'] = rng.choice([1.5, 1.0, 0.7, 0.3, 0.1, 0.03, 0.01, 1e-3, 1e-6])
    if c['n'] > 1 and rng.random() < 0.5:
        c['density'] = rng.choice([2, 3, 3, 5])      # coarse grids: several curve points share one grid point
    return c


def case_for_oracle(rng):
    c = case_for_c03(rng)
    if rng.random() < 0.3:      # a user-supplied start point must not change the budget accounting
        c['start'] = H.random_start(rng, c['lo'], c['hi'])
    if rng.random() < 0.35:
        c['refine'] = True
        c['iters'] = rng.choice([20, 40, 60, 100]); c['eps'] = rng.choice([1e-7, 1e-3, 0.05])
    elif rng.random() < 0.4 and c['iters'] >= 5:      # batches of several iterations first (their total within the budget), then Solve: the budget still binds
        k = rng.randint(2, max(2, c['iters'] // 2))
        c['pre'] = [k] if rng.random() < 0.5 else [max(1, k // 2), k - max(1, k // 2)]
        c['eps'] = min(c['eps'], 1e-6)      # so that the budget, not the accuracy, ends the run
    return c


F8_WITNESS = {'n': 1, 'lo': [0.0], 'hi': [1.0], 'r': 2.5, 'eps': 1e-17, 'iters': 5000, 'density': None,
              'objective': {'kind': 'cones', 'centers': [[1 / 3]], 'slopes': [1.0], 'offsets': [0.0]}}


def float_resolution(chk):
    import math
    p, s = O.build(F8_WITNESS)
    sol, out = H.run_script(s, [('solve',)])
    chk.evaluations += 1
    xs = [it.GetX() for it in H.items(s)]
    gaps = [(b - a, a, b) for a, b in zip(xs, xs[1:])]
    tight = [g for g in gaps if g[2] <= math.nextafter(math.nextafter(g[1], 2.0), 2.0)]     # no binary64 strictly inside, or exactly one
    early = len(p.log) < F8_WITNESS['iters'] and not (sol.solutionAccuracy < F8_WITNESS['eps'])
    chk.cov['float_resolution_witness'] = {'trials': len(p.log), 'accuracy': sol.solutionAccuracy, 'early': early, 'guard': 'x is outside of interval' in out, 'adjacent_intervals': len(tight)}
    if not early:
        return 0
    if 'x is outside of interval' in out and tight and F8_WITNESS['eps'] < 2.0 ** -52:
        return chk.violation('guard-at-float-resolution', 'N=1, eps=1e-17 (below the spacing of binary64 numbers in [0,1]): Solve ends after %d of %d trials with accuracy %.3g >= eps, through the guard "x is outside of interval"'
                             % (len(p.log), F8_WITNESS['iters'], sol.solutionAccuracy), {'kind': 'solve', 'witness': 'float-resolution', 'case': F8_WITNESS})
    return chk.violation('stop-rule', 'Solve ended after %d of %d trials with accuracy %.3g >= eps=%g: %s' % (len(p.log), F8_WITNESS['iters'], sol.solutionAccuracy, F8_WITNESS['eps'], out.strip()[-160:]),
                         {'kind': 'solve', 'case': F8_WITNESS})


def run(chk):
    rng = H.rng_for(chk.seed, 'C03')
    thorough = chk.tier == 'thorough'
    S.proof(chk, 'C03')
    bad, errors = S.lockstep(chk, rng, 240 if thorough else 60, make_case=case_for_c03, make_script=lambda r, c: [('solve',)])
    found = 0
    for _ in range(300 if thorough else 70):
        case = case_for_oracle(rng)
        fails = O.guarded(O.c03, case)
        chk.evaluations += 1
        chk.nontrivial += 1
        if fails and fails[0].startswith('FLOAT-RESOLUTION'):      # the mechanism of the recorded finding F8, verified by the oracle on this very run
            found += chk.violation('guard-at-float-resolution', fails[0], {'kind': 'solve', 'witness': 'float-resolution', 'case': case})
        elif fails:
            found += chk.violation('stop-rule', fails[0], {'kind': 'solve', 'case': case})
            if found > 2:
                break
    # failing objectives with a binding budget: Solve returns and never calls the objective more than itersLimit times
    for i in range(30 if thorough else 10):
        case = case_for_c03(rng)
        case['iters'] = rng.choice([20, 40, 100, 150]); case['eps'] = 1e-9; case['exc'] = rng.choice(['RuntimeError', 'ValueError', 'ZeroDivisionError'])
        if i % 3 == 0:
            case['fail_at'] = 1      # the very first trial (the box centre) fails
        else:
            a = case['lo'][0] + (case['hi'][0] - case['lo'][0]) * rng.uniform(0.52, 0.8)
            case['fail_region'] = [0, a, a + (case['hi'][0] - case['lo'][0]) * rng.uniform(0.05, 0.2)]
        fails = O.guarded(O.c03_failing, case)
        chk.evaluations += 1
        if fails:
            found += chk.violation('stop-rule', fails[0], {'kind': 'failing', 'case': case})
            if found > 2:
                break
    # the recorded finding F8: an eps below the binary64 resolution of the curve parameter cannot be reached; the search then ends
    # through the "x is outside of interval" guard of CalculateNextPointCoordinate - earlier than the property allows
    found += float_resolution(chk)
    # the same mechanism at a realistic accuracy: N = 5, eps = 1e-6 (first met by the random stream of the thorough tier with seed 4)
    import json, os
    n5 = json.load(open(os.path.join(core.ROOT, 'corpus', 'C03-resolution-n5.json')))['case']
    fails = O.guarded(O.c03, n5)
    chk.evaluations += 1
    chk.cov['float_resolution_n5'] = (fails or ['holds'])[0][:160]
    if fails and fails[0].startswith('FLOAT-RESOLUTION'):
        found += chk.violation('guard-at-float-resolution', fails[0], {'kind': 'solve', 'witness': 'float-resolution', 'case': n5})
    elif fails:
        found += chk.violation('stop-rule', fails[0], {'kind': 'solve', 'case': n5})
    # non-finite objective values must not hang Solve (run in a separate process with a timeout)
    code = ("import sys; sys.path.insert(0, '/verif')\nfrom vlib import harness as H\nimport math\n"
            "from iOpt.problem import Problem\nimport numpy as np\n"
            "class P(Problem):\n"
            "    def __init__(s):\n        super().__init__(); s.numberOfFloatVariables=1; s.numberOfObjectives=1; s.numberOfConstraints=0\n"
            "        s.lowerBoundOfFloatVariables=np.array([0.0]); s.upperBoundOfFloatVariables=np.array([1.0]); s.c=0\n"
            "    def Calculate(s,p,fv):\n        s.c+=1\n        fv.value = float('%s') if s.c==%d else math.sin(7*p.floatVariables[0]); return fv\n"
            "p=P(); s=H.make_solver(p,r=2,eps=0.01,iters=60)\nsol=s.Solve(); print('RETURNED', sol.numberOfGlobalTrials, p.c)\n")
    for bad_val, at in (('nan', 3), ('inf', 4), ('-inf', 2)):
        rc, out, dt = H.run_isolated(code % (bad_val, at), timeout=40)
        chk.evaluations += 1
        if 'RETURNED' not in out:
            found += chk.violation('non-finite-hang', 'Solve did not return within 40 s when the objective answered %s at evaluation %d' % (bad_val, at),
                                   {'kind': 'nonfinite', 'value': bad_val, 'at': at})
    S.report_corr(chk, bad, errors, found)


def replay(chk, rp):
    if rp.get('kind') == 'solve':
        fails = O.guarded(O.c03, rp['case'])
        print(fails)
        return not fails
    if rp.get('kind') == 'failing':
        fails = O.guarded(O.c03_failing, rp['case']); print(fails); return not fails
    if rp.get('kind') == 'nonfinite':
        print('re-run the check')
        return False
    return S.replay_lockstep(rp)
