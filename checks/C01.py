"""C01 - certified eps-optimality under the Lipschitz reliability condition."""
import math

from vlib import core, solver_checks as S, agp_corr as A, oracles as O, harness as H

# the witness of the recorded finding (AGP/Refuted.v, replayed here on the real implementation)
F6_WITNESS = {'n': 1, 'lo': [0.0], 'hi': [1.0], 'r': 3.0, 'eps': 0.01, 'iters': 10000,
              'objective': {'kind': 'pwl1d',
                            'xs': [0.0, 161 / 540 - 1 / 600, 161 / 540, 161 / 540 + 1 / 600, 0.3, 163 / 540 - 1 / 600, 163 / 540, 163 / 540 + 1 / 600, 61 / 80, 7 / 8, 79 / 80, 1.0],
                            'vs': [0.3, 1 / 540 + 1 / 600, 1 / 540 - 1 / 12, 1 / 540 - 1 / 600, 0.0, 1 / 540 - 1 / 600, 1 / 540 - 1 / 12, 1 / 540 + 1 / 600, 37 / 80, -101 / 20, 55 / 80, 0.7]},
              'L': 51.0, 'fmin': -101 / 20}


def K(n):
    return 2.0 if n == 1 else 2 ** (3 - 1.0 / n) * math.sqrt(n + 3)


def slopes_seen(solver, log, n, upto):
    """max(1, largest |dz|/|dx|^(1/N) between trials that were neighbours when the later one was made), recomputed from the
    trial log (order, values) and the curve parameters of the record - independent of the method's own M"""
    import bisect
    xs_of = {tuple(float(v) for v in it.GetY().floatVariables): it.GetX() for it in H.items(solver) if it.GetY() is not None and it.GetY().floatVariables is not None}
    pts, M = [(0.0, None), (1.0, None)], 1.0
    for y, z in log[:upto]:
        x = xs_of[tuple(float(v) for v in y)]
        i = bisect.bisect_left(pts, (x, -math.inf))
        for nb in (pts[i - 1], pts[i]):
            if nb[1] is not None and nb[0] != x:
                M = max(M, abs(z - nb[1]) / abs(x - nb[0]) ** (1.0 / n))
        pts.insert(i, (x, z))
    return M


def stop_index(solver, log, n, eps):
    """number of trials made when the stop was determined: the first trial that subdivided an interval of Hoelder length below eps
    (len(log) if there is none). For a run driven by Solve alone this is the last trial; a caller who drives the search in batches may
    go past it, and slopes revealed after that point are not the M of the theorem (they are the mechanism of finding F6)."""
    import bisect
    xs_of = {tuple(float(v) for v in it.GetY().floatVariables): it.GetX() for it in H.items(solver) if it.GetY() is not None and it.GetY().floatVariables is not None}
    pts = [0.0, 1.0]
    for j, (y, z) in enumerate(log):
        x = xs_of[tuple(float(v) for v in y)]
        i = bisect.bisect_left(pts, x)
        if j > 0 and 0 < i < len(pts) and pow(pts[i] - pts[i - 1], 1.0 / n) < eps:
            return j + 1
        pts.insert(i, x)
    return len(log)


def run_until_accuracy(s, case):
    """case['mode']: 'solve' | 'batches' (DoGlobalIteration(b) until the reported accuracy is below eps, then Solve)
    | 'refine-early' (a few iterations, a local refinement, then Solve)"""
    mode = case.get('mode', 'solve')
    try:
        if mode == 'batches':
            with H.quiet():
                for _ in range(400):
                    if s.method.min_delta < case['eps'] or s.method.iterationsCount >= case['iters']:
                        break
                    s.DoGlobalIteration(case.get('batch', 16))
            return H.run_script(s, [('solve',)])
        if mode == 'fail-resume':      # one evaluation fails (also by an interrupt); Solve returns; the user calls Solve again
            try:
                H.run_script(s, [('solve',)])
            except BaseException as e:  # noqa
                if isinstance(e, KeyboardInterrupt) and case.get('exc') != 'KeyboardInterrupt':
                    raise
            return H.run_script(s, [('solve',)])
        if mode == 'refine-early':
            return H.run_script(s, [('iter', case.get('early', 6)), ('refine', 30), ('solve',)])
        return H.run_script(s, [('solve',)])
    except Exception as e:  # noqa
        if 'x is outside of interval' in str(e):      # batches driven past float resolution: outside C01
            return None, ''
        raise


def evaluate(case, L0, fmin):
    """returns (status, detail): status in ok | skip | violation | final-M-only"""
    n = case['n']
    p, s = O.build(case)
    sol, out = run_until_accuracy(s, case)
    # "Solve stopped because the requested accuracy was reached": it returned without an exception and with budget left
    if sol is None or 'Exception was thrown' in out or sol.numberOfGlobalTrials >= case['iters']:
        return 'skip', 'did not stop by accuracy'
    # evaluations of a local phase (refine-early mode) are not trials of the global search: keep those that are in the record
    in_record = {tuple(float(v) for v in it.GetY().floatVariables) for it in H.items(s) if it.GetIndex() == 0}
    p.log = [e for e in p.log if tuple(float(v) for v in e[0]) in in_record]
    nt = len(p.log)
    kstop = stop_index(s, p.log, n, case['eps'])
    M_sel = slopes_seen(s, p.log, n, kstop - 1)      # the estimate in force when the interval that ended the search was selected
    M_fin = slopes_seen(s, p.log, n, nt)
    side = max(b - a for a, b in zip(case['lo'], case['hi']))
    L = L0 * side
    m = s.evolvent.evolventDensity
    grid = 0.0 if n == 1 else L * 2.0 ** (-m) * (math.sqrt(n + 3) + math.sqrt(n) / 2)
    best = float(sol.bestTrials[0].functionValues[0].value)
    gap = best - fmin
    r, eps = case['r'], case['eps']
    info = {'trials': nt, 'stop_determined_at': kstop, 'M_sel': M_sel, 'M_final': M_fin, 'L': L, 'gap': gap, 'bound_sel': (r * M_sel / 2) * eps + grid, 'bound_final': (r * M_fin / 2) * eps + grid,
            'cond_sel': r * M_sel >= K(n) * L, 'cond_final': r * M_fin >= K(n) * L}
    if info['cond_sel'] and not (gap < info['bound_sel']):
        return 'violation', info
    if info['cond_final'] and not (gap < info['bound_final']):
        return 'final-M-only', info
    return 'ok', info


def adversarial_1d(case, lip0):
    """N = 1. Any L-Lipschitz function that agrees with the objective at every trial point produces the same run; the lowest such
    function dips to (zl+zr)/2 - L*(ur-ul)/2 inside each interval. With L = the largest constant the reliability condition admits
    (r*M/2, M taken when the last interval was selected) the best value must stay within (r*M/2)*eps of every such dip."""
    p, s = O.build(case)
    sol, out = run_until_accuracy(s, case)
    if sol is None or 'Exception was thrown' in out or sol.numberOfGlobalTrials >= case['iters']:
        return 'skip', {}
    in_record = {tuple(float(v) for v in it.GetY().floatVariables) for it in H.items(s) if it.GetIndex() == 0}
    p.log = [e for e in p.log if tuple(float(v) for v in e[0]) in in_record]
    nt = len(p.log)
    kstop = stop_index(s, p.log, 1, case['eps'])
    M_sel = slopes_seen(s, p.log, 1, kstop - 1)
    p.log = p.log[:kstop]      # the partition at the moment the stop was determined (the reported best can only be lower than the best of these trials)
    side = case['hi'][0] - case['lo'][0]
    L = case['r'] * M_sel / 2
    if L < lip0 * side:
        return 'skip', {'cond': False}
    pts = sorted(((y[0] - case['lo'][0]) / side, z) for y, z in p.log)
    best = float(sol.bestTrials[0].functionValues[0].value)      # what Solve reports
    dips = [((zl + zr) / 2 - L * (ur - ul) / 2, ul, ur) for (ul, zl), (ur, zr) in zip(pts, pts[1:])]
    dips.append((pts[0][1] - L * pts[0][0], 0.0, pts[0][0]))
    dips.append((pts[-1][1] - L * (1.0 - pts[-1][0]), pts[-1][0], 1.0))
    low = min(dips)
    bound = L * case['eps']
    info = {'trials': nt, 'M_sel': M_sel, 'L_admitted': L, 'gap': best - low[0], 'bound': bound, 'interval': [low[1], low[2]]}
    return ('violation' if not (best - low[0] < bound * (1 + 1e-9)) else 'ok'), info


def flat_case(rng):
    """1-D, very flat background with M staying at its floor 1: long tails without any refill of the characteristics queue"""
    lo, hi = H.random_box(rng, 1, nice=rng.random() < 0.5)
    side = hi[0] - lo[0]
    s0 = rng.choice([0.0005, 0.001, 0.01, 0.05, 0.2]) / side
    c = lo[0] + side * rng.choice([0.5, 0.5, rng.uniform(0.05, 0.95)])
    desc = {'kind': 'cones', 'centers': [[c]], 'slopes': [s0], 'offsets': [0.0]}
    if rng.random() < 0.5:      # plus a narrow well of slope <= r/2 (unit box)
        r = round(rng.uniform(2.0, 3.0), 2)
        desc['centers'].append([lo[0] + side * rng.uniform(0.05, 0.95)]); desc['slopes'].append(0.5 * r * rng.uniform(0.5, 0.999) / side); desc['offsets'].append(-rng.uniform(0.001, 0.05))
    else:
        r = round(rng.uniform(2.0, 2.6), 2)
    case = {'n': 1, 'lo': lo, 'hi': hi, 'objective': desc, 'r': r, 'eps': rng.choice([2e-3, 5e-4, 1e-4, 5e-5, 2e-5]), 'iters': 200000, 'density': None}
    q = rng.random()
    if q < 0.3:
        case.update({'mode': 'batches', 'batch': rng.choice([16, 40, 50]), 'eps': rng.choice([2e-3, 5e-4])})
    elif q < 0.6:      # a failed evaluation early in a flat run (M stays at its floor: nothing but the failure path itself can restore the interval)
        case.update({'mode': 'fail-resume', 'fail_at': rng.randint(2, 8), 'exc': rng.choice(['RuntimeError', 'KeyboardInterrupt', 'SystemExit']), 'eps': rng.choice([2e-3, 5e-4, 1e-4])})
    return case, max(desc['slopes'])


def wells_case(rng):
    """1-D: a wide shallow cone, a narrow steep well next to its tip (the estimate M jumps late, when the well is first sampled) and a
    deeper narrow steep well far away; driven in batches or by Solve"""
    lo, hi = H.random_box(rng, 1, nice=rng.random() < 0.5)
    side = hi[0] - lo[0]
    a = rng.uniform(0.4, 0.65); s0 = rng.choice([0.3, 0.5, 1.0]); L = rng.choice([10.0, 20.0, 40.0])
    b1 = a + rng.choice([-1, 1]) * rng.uniform(0.005, 0.03); b2 = rng.choice([rng.uniform(0.08, 0.2), rng.uniform(0.85, 0.93)])
    d1 = 0.05; d2 = rng.choice([0.1, 0.2])
    u = lambda t: lo[0] + side * t
    desc = {'kind': 'cones', 'centers': [[u(a)], [u(b1)], [u(b2)]], 'slopes': [s0 / side, L / side, L / side], 'offsets': [0.0, -d1, -d2]}
    case = {'n': 1, 'lo': lo, 'hi': hi, 'objective': desc, 'r': rng.choice([2.5, 3.0]), 'eps': rng.choice([1e-3, 1e-4]), 'iters': 20000, 'density': None,
            'mode': rng.choice(['batches', 'batches', 'solve']), 'batch': rng.choice([40, 50])}
    return case, L / side, -d2


def cone_case(rng):
    n = rng.choice([1, 1, 1, 2, 2, 3])
    lo, hi = H.random_box(rng, n, nice=rng.random() < 0.4)
    side = max(b - a for a, b in zip(lo, hi))
    r = round(rng.uniform(2.0, 5.0), 2)
    k = rng.randint(2, 4)
    desc = H.cones_in_box(rng, n, lo, hi, k=k, smax=4.0)
    if rng.random() < 0.5:      # flat enough: K_N * L <= r, the bound must hold unconditionally
        cap = r / (K(n) * side)
        flat = rng.choice([1.0, 1.0, 0.1, 0.02])     # wide shallow cones: every observed slope stays below the floor M = 1
        desc['slopes'] = [round(cap * flat * rng.uniform(0.3, 1.0), 6) for _ in range(k)]
        # a narrow deep well among flat cones: the global minimum sits in the steepest cone
        desc['offsets'][0] = min(desc['offsets']) - 0.02
        desc['slopes'][0] = cap * 0.999
    L0 = max(desc['slopes'])
    fmin = min(desc['offsets'])
    eps = rng.choice([0.02, 0.01, 0.005]) if n < 3 else rng.choice([0.05, 0.03])
    case = {'n': n, 'lo': lo, 'hi': hi, 'objective': desc, 'r': r, 'eps': eps, 'iters': 4000 if n < 3 else 3000, 'density': None}
    k = rng.random()
    if k < 0.2:
        case.update({'mode': 'fail-resume', 'fail_at': rng.randint(3, 9), 'exc': rng.choice(['RuntimeError', 'KeyboardInterrupt', 'SystemExit', 'ValueError'])})
    elif k < 0.4:
        case.update({'mode': 'batches', 'batch': rng.choice([8, 16, 40, 50])})
    elif k < 0.55:
        case.update({'mode': 'refine-early', 'early': rng.choice([3, 6, 12])})
    return case, L0, fmin


def run(chk):
    rng = H.rng_for(chk.seed, 'C01')
    thorough = chk.tier == 'thorough'
    S.proof(chk, 'C01')
    chk.assumptions += ['theorems over R: N = 1 (C01_certificate_dimension_one) and N = 2..5 (C01_certificate_dimensions_2_to_5: covering argument in the Hoelder metric composed with the evolvent\'s Hoelder inequality, '
                        'box containment and density of images); binary64 rounding is not part of the theorems (tied by the lock-step replay); the search oracle covers N = 1..3',
                        'M in the reliability condition is the estimate in force when the last interval was selected; the reading with the final M is refuted (C01_final_M_reading_refuted) and recorded as a known finding']
    bad, errors = S.lockstep(chk, rng, 60 if thorough else 16, make_case=lambda r_: dict(A.random_case(r_, dims=(1, 1, 2)), eps=r_.choice([0.02, 0.01]), iters=400),
                             make_script=lambda r_, c: [('solve',)] if r_.random() < 0.5 else [('iter', r_.choice([2, 5, 16])), ('iter', r_.choice([1, 7, 30])), ('solve',)])
    found = 0
    stats = {'ok': 0, 'skip': 0, 'final-M-only': 0, 'cond_sel': 0}
    worst = 0.0
    for i in range(200 if thorough else 40):
        case, L0, fmin = wells_case(rng) if i % 5 == 4 else cone_case(rng)
        if i in (4, 9, 14):      # always some batch-driven runs on the late-growth objectives
            case.update({'mode': 'batches', 'batch': (40, 50, 16)[i // 5]})
        res = O.guarded(lambda c: [evaluate(c, L0, fmin)], case)
        st, info = res[0] if isinstance(res[0], tuple) else ('violation', res[0])
        chk.evaluations += 1
        stats[st] = stats.get(st, 0) + 1
        if isinstance(info, dict) and info.get('cond_sel'):
            stats['cond_sel'] += 1
            worst = max(worst, info['gap'] / info['bound_sel'])
        if st == 'violation':
            msg = info if isinstance(info, str) else ('best - f* = %.6g is not below (r M/2) eps + grid = %.6g although r M = %.4g >= K_N L = %.4g (N=%d, M in force when the interval that ended the search was selected, %d trials)'
                                                      % (info['gap'], info['bound_sel'], case['r'] * info['M_sel'], K(case['n']) * info['L'], case['n'], info['trials']))
            found += chk.violation('certificate', msg, {'kind': 'cones', 'case': case, 'L0': L0, 'fmin': fmin})
            if found > 2:
                break
        elif st == 'final-M-only':
            chk.violation('final-M-raised-by-last-trial', 'bound fails only under the final-M reading (M %.4g when the stop was determined -> %.4g afterwards)' % (info['M_sel'], info['M_final']),
                          {'kind': 'cones', 'witness': 'final-M', 'case': case})
    # adversarial admissible dips (N = 1): flat long runs and the cone cases again
    adv = {'ok': 0, 'skip': 0, 'max_trials': 0, 'worst': 0.0}
    for i in range(60 if thorough else 14):
        if i % 2 == 0:
            case, lip0 = flat_case(rng)
            if i == 0:      # always one long flat run driven by a plain Solve (thousands of intervals, M at its floor, no refill of the queue)
                side = case['hi'][0] - case['lo'][0]
                for key in ('mode', 'fail_at', 'exc', 'batch'):
                    case.pop(key, None)
                case.update({'eps': 5e-5, 'r': 2.2, 'objective': {'kind': 'cones', 'centers': [[case['lo'][0] + 0.5 * side]], 'slopes': [0.001 / side], 'offsets': [0.0]}})
                lip0 = 0.001 / side
        else:
            case, lip0, _ = cone_case(rng)
            if case['n'] != 1:
                continue
        res = O.guarded(lambda c: [adversarial_1d(c, lip0)], case)
        st, info = res[0] if isinstance(res[0], tuple) else ('violation', res[0])
        chk.evaluations += 1
        if st == 'violation':
            msg = info if isinstance(info, str) else ('N=1: an objective with Lipschitz constant L = r*M/2 = %.4g (admitted by the reliability condition) that agrees with the run at all %d trial points dips %.4g below the '
                                                      'returned best value inside (%.6g, %.6g); the bound is (r*M/2)*eps = %.4g' % (info['L_admitted'], info['trials'], info['gap'], info['interval'][0], info['interval'][1], info['bound']))
            found += chk.violation('certificate', msg, {'kind': 'adversarial', 'case': case, 'lip0': lip0})
            if found > 2:
                break
        else:
            adv[st] += 1
            if st == 'ok':
                adv['max_trials'] = max(adv['max_trials'], info['trials']); adv['worst'] = max(adv['worst'], info['gap'] / info['bound'])
    chk.cov['adversarial_1d'] = adv
    chk.nontrivial += stats['cond_sel'] + adv['ok']
    chk.cov['search'] = dict(stats, worst_gap_over_bound=round(worst, 4))
    chk.sample({'cone_case': cone_case(H.rng_for(chk.seed, 'sample'))[0]})
    # the recorded finding, exhibited on the real implementation
    st, info = evaluate({k: F6_WITNESS[k] for k in ('n', 'lo', 'hi', 'r', 'eps', 'iters', 'objective')}, F6_WITNESS['L'], F6_WITNESS['fmin'])
    chk.cov['final_M_witness_on_implementation'] = {'status': st, 'info': info}
    if st == 'final-M-only':
        chk.violation('final-M-raised-by-last-trial', 'with M read as the final estimate the bound fails: %d trials, the last raises M from %.4g to %.4g, r*M_final = %.4g >= 2L = %.4g but best - f* = %.4g >= (r M/2) eps = %.4g'
                      % (info['trials'], info['M_sel'], info['M_final'], F6_WITNESS['r'] * info['M_final'], 2 * info['L'], info['gap'], info['bound_final']),
                      {'kind': 'cones', 'witness': 'final-M', 'case': 'F6_WITNESS'})
    elif st == 'violation':
        found += chk.violation('certificate', 'the recorded witness now violates the bound even with M at selection time', {'kind': 'witness'})
    S.report_corr(chk, bad, errors, found)


def replay(chk, rp):
    if rp.get('kind') == 'adversarial':
        st, info = adversarial_1d(rp['case'], rp['lip0']); print(st, info); return st != 'violation'
    if rp.get('kind') == 'cones' and isinstance(rp.get('case'), dict):
        st, info = evaluate(rp['case'], rp['L0'], rp['fmin']); print(st, info); return st in ('ok', 'skip')
    return S.replay_lockstep(rp) if rp.get('kind') == 'lockstep' else False
