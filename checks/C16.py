"""C16 - objective failure is contained."""
from vlib import core, solver_checks as S, agp_corr as A, oracles as O, harness as H

EXCS = ['RuntimeError', 'KeyboardInterrupt', 'SystemExit', 'ValueError', 'GeneratorExit', 'ZeroDivisionError', 'StopIteration', 'StopAsyncIteration', 'MemoryError', 'AssertionError']


def run(chk):
    rng = H.rng_for(chk.seed, 'C16')
    thorough = chk.tier == 'thorough'
    S.proof(chk, 'C16')

    def mk(r):
        c = A.random_case(r)
        c['iters'] = r.choice([10, 30, 60]); c['eps'] = 1e-9
        c['fail_at'] = r.randint(1, c['iters']); c['exc'] = r.choice(EXCS)
        return c
    bad, errors = S.lockstep(chk, rng, 160 if thorough else 40, make_case=mk, make_script=lambda r, c: [('solve',)] if r.random() < 0.6 else A.random_script(r, c))
    found = 0
    # failure at EVERY evaluation index of a run
    for _ in range(6 if thorough else 2):
        case = A.random_case(rng, dims=(1, 2, 3))
        case['iters'] = 60 if thorough else 25; case['eps'] = 1e-9
        for k in range(2, case['iters'] + 1):
            c = dict(case, fail_at=k, exc=EXCS[k % len(EXCS)])
            fails = O.guarded(O.c16, c)
            chk.evaluations += 1
            chk.nontrivial += 1
            if fails:
                found += chk.violation('failure-not-contained', fails[0], {'kind': 'fail', 'case': c})
                break
        if found > 1:
            break
    for exc in EXCS:
        c = dict(A.random_case(rng, dims=(1, 2)), iters=20, eps=1e-9, fail_at=rng.choice([2, 3, 11]), exc=exc)
        fails = O.guarded(O.c16, c)
        chk.evaluations += 1
        if fails:
            found += chk.violation('failure-not-contained', fails[0], {'kind': 'fail', 'case': c})
    # the user runs with warnings turned into errors (as one does to make numpy overflows raise): a failure is still contained
    import warnings
    for exc in ('RuntimeError', 'ValueError'):
        c = dict(A.random_case(rng, dims=(1, 2)), iters=20, eps=1e-9, fail_at=rng.choice([3, 7]), exc=exc)
        with warnings.catch_warnings():
            warnings.simplefilter('error')
            fails = O.guarded(O.c16, c)
        chk.evaluations += 1
        if fails:
            found += chk.violation('failure-not-contained', 'with warnings turned into errors: ' + fails[0], {'kind': 'fail', 'case': c, 'warnings': 'error'})
    chk.cov['exception_types'] = EXCS
    S.report_corr(chk, bad, errors, found)


def replay(chk, rp):
    if rp.get('kind') == 'fail':
        fails = O.guarded(O.c16, rp['case']); print(fails); return not fails
    return S.replay_lockstep(rp)
