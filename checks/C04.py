"""C04 - reported optimum is the best evaluated trial."""
from vlib import core, solver_checks as S, agp_corr as A, oracles as O, harness as H


def case_for_c04(rng):
    c = A.random_case(rng)
    c['iters'] = rng.choice([5, 20, 60, 100])
    c['objective'] = H.random_objective(rng, c['n'], kinds=('sinq', 'sinq', 'const', 'sin', 'cones', 'quad'), lo=c['lo'], hi=c['hi'])
    if rng.random() < 0.25:   # near-ties: tiny differences on a large offset
        c['objective'] = {'kind': 'sin', 'w': [round(rng.uniform(1, 9), 2) for _ in range(c['n'])], 'a': [0.0] * c['n'], 'q': 0}
        c['objective']['offset'] = 1e6
    return c


def callbacks_check(case, script):
    """inside every listener callback the solution's best is the minimum of what was evaluated so far"""
    from iOpt.method.listener import Listener
    fails = []
    p, s = O.build(case)

    class Rec(Listener):
        def BeforeMethodStart(self, method):
            pass

        def OnEndIteration(self, pts, sol):
            fails.extend(O.best_check(p, s, sol, where='inside OnEndIteration after %d evaluations: ' % len(p.log)))

        def OnMethodStop(self, sd, sol, st):
            fails.extend(O.best_check(p, s, sol, where='inside OnMethodStop: '))
    s.AddListener(Rec())
    sol, out = H.run_script(s, script)
    if sol is not None:
        fails.extend(O.best_check(p, s, s.GetResults(), where='final Solution: '))
    return fails


def run(chk):
    rng = H.rng_for(chk.seed, 'C04')
    thorough = chk.tier == 'thorough'
    S.proof(chk, 'C04')
    bad, errors = S.lockstep(chk, rng, 160 if thorough else 40, make_case=case_for_c04)
    found = 0
    for _ in range(160 if thorough else 40):
        case = case_for_c04(rng)
        script = A.random_script(rng, case)
        k = rng.random()
        if k < 0.12:      # finite values of huge magnitude (beyond 1e100), both signs
            case['objective'] = {'kind': 'scaled', 'of': case['objective'], 'factor': rng.choice([1e105, -1e110, 1e150])}
        elif k < 0.22:    # values wider than a double: python ints around 10^18 (no refinement: SciPy narrows to double itself)
            case['objective'] = {'kind': 'bigint', 'of': case['objective'], 'base': rng.choice([10 ** 18, -10 ** 18]), 'mult': rng.choice([3, 20, 1000])}
        bigint = case['objective'].get('kind') == 'bigint'
        if rng.random() < 0.25:    # a functional-style Problem whose Calculate returns a NEW FunctionValue
            case['new_holder'] = True
        if rng.random() < 0.3 and not bigint:     # local refinement, possibly repeated
            case['refine'] = rng.random() < 0.5
            script = script + [('refine', rng.choice([3, 10, 40]))] + ([('refine', rng.choice([2, 4]))] if rng.random() < 0.5 else [])
            if rng.random() < 0.5:     # the search continues after a refinement
                script = script + [('iter', rng.choice([1, 2, 5]))]
        fails = O.guarded(lambda c: callbacks_check(c, script), case)
        chk.evaluations += 1
        chk.nontrivial += 1
        if fails:
            found += chk.violation('best-not-minimum', fails[0], {'kind': 'callbacks', 'case': case, 'script': [list(x) for x in script]})
            if found > 2:
                break
    # repeated refinement with a smaller budget the second time; Solve with refinement followed by another refinement
    for i in range(12 if thorough else 6):
        n = 2 if i % 3 else 3
        lo, hi = H.random_box(rng, n, nice=True)
        case = {'n': n, 'lo': lo, 'hi': hi, 'r': rng.choice([2.5, 3.5]), 'eps': 0.01, 'iters': 80, 'density': None,
                'objective': {'kind': 'quad', 'c': [round(rng.uniform(a + 0.2 * (b - a), b - 0.2 * (b - a)), 3) for a, b in zip(lo, hi)]}}
        if i % 3 == 2:      # a refinement that improved the record, then the objective fails inside the next Solve
            case['fail_at'] = 60 + 80 + rng.randint(2, 5); case['iters'] = 400; case['eps'] = 1e-9
            script = [('iter', 60), ('refine', 40), ('solve',)]
        elif i % 2:
            script = [('iter', 60), ('refine', 40), ('refine', rng.choice([3, 4]))]
        else:
            case['refine'] = True
            script = [('solve',), ('refine', 3)]
        fails = O.guarded(lambda c: callbacks_check(c, script), case)
        chk.evaluations += 1
        chk.nontrivial += 1
        if fails:
            found += chk.violation('best-not-minimum', fails[0], {'kind': 'callbacks', 'case': case, 'script': [list(x) for x in script]})
    S.report_corr(chk, bad, errors, found)


def replay(chk, rp):
    if rp.get('kind') == 'callbacks':
        fails = O.guarded(lambda c: callbacks_check(c, [tuple(x) for x in rp['script']]), rp['case'])
        print(fails)
        return not fails
    return S.replay_lockstep(rp)
