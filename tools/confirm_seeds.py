#!/venv/bin/python
"""Confirm candidate seeded changes under /tmp/wt-out/<Cxx>/<a|b>: demo passes on /repo, fails with the patch applied to a
scratch worktree, baseline tests pass with the patch. Writes /tmp/wt-out/confirm.json. Scratch worktrees are removed."""
import json, os, subprocess, sys
from concurrent.futures import ThreadPoolExecutor

OUT = '/tmp/wt-out'
only = sys.argv[1:]

def sh(cmd, cwd=None, env=None, timeout=900):
    e = dict(os.environ); e.update(env or {}); e['MPLBACKEND'] = 'Agg'
    try:
        p = subprocess.run(cmd, shell=True, cwd=cwd, env=e, capture_output=True, text=True, timeout=timeout)
        return p.returncode, (p.stdout + p.stderr)[-1500:]
    except subprocess.TimeoutExpired:
        return 124, 'timeout'

def one(item):
    prop, x = item
    d = '%s/%s/%s' % (OUT, prop, x)
    if not os.path.exists(d + '/patch.diff'):
        return None
    wt = '/tmp/sw-%s-%s' % (prop, x)
    res = {'id': '%s-%s' % (prop, x), 'property': prop}
    sh('git -C /repo worktree remove --force %s' % wt)
    rc, out = sh('git -C /repo worktree add -q --detach %s HEAD' % wt)
    try:
        rc, out = sh('git -C %s apply %s/patch.diff' % (wt, d))
        res['applies'] = rc == 0
        if rc:
            res['apply_error'] = out[-300:]
            return res
        rc, out = sh('/venv/bin/python demo.py', cwd=d, env={'PYTHONPATH': '/repo'})
        res['demo_clean_rc'] = rc
        rc, out = sh('/venv/bin/python demo.py', cwd=d, env={'PYTHONPATH': wt})
        res['demo_mutant_rc'] = rc; res['demo_mutant_tail'] = out[-400:]
        rc, out = sh('/venv/bin/python -m pytest -q -p no:cacheprovider 2>&1 | tail -1', cwd=wt)
        res['tests'] = out.strip()[-120:]
        res['valid'] = res['demo_clean_rc'] == 0 and res['demo_mutant_rc'] != 0 and '91 passed' in res['tests'] and 'failed' not in res['tests']
    finally:
        sh('git -C /repo worktree remove --force %s' % wt)
    return res

items = [(p, x) for p in sorted(os.listdir(OUT)) if os.path.isdir(OUT + '/' + p) for x in ('a', 'b', 'c', 'd', 'e', 'f', 'g', 'h')]
if only:
    items = [(p, x) for p, x in items if p in only or '%s-%s' % (p, x) in only]
with ThreadPoolExecutor(4) as ex:
    results = [r for r in ex.map(one, items) if r]
prev = {}
if os.path.exists(OUT + '/confirm.json'):
    prev = {r['id']: r for r in json.load(open(OUT + '/confirm.json'))}
for r in results:
    prev[r['id']] = r
json.dump(list(prev.values()), open(OUT + '/confirm.json', 'w'), indent=1)
for r in results:
    print(r['id'], 'VALID' if r.get('valid') else 'INVALID', {k: r[k] for k in r if k not in ('id', 'property', 'demo_mutant_tail')})
