#!/venv/bin/python
"""tools/run_seeds.py [ids...]: for every seeded change under /verif/seeded/<id>/
  1. re-confirm it against /repo HEAD in a scratch worktree (patch applies, demo passes on /repo, fails with the change, test suite passes);
  2. apply it to /repo, run the property's registered check (quick, then thorough if quick is silent), undo it;
  3. record the outcome in seeded/<id>/meta.json ("head_confirmation", "detected_by") and print a table.
Never leaves /repo modified; evidence files are preserved (they describe the unchanged tree only)."""
import json, os, shutil, subprocess, sys, time

SEEDS = '/verif/seeded'
only = sys.argv[1:]


def sh(cmd, cwd=None, env=None, timeout=3600):
    e = dict(os.environ); e.update(env or {}); e['MPLBACKEND'] = 'Agg'
    try:
        p = subprocess.run(cmd, shell=True, cwd=cwd, env=e, capture_output=True, text=True, timeout=timeout)
        return p.returncode, p.stdout + p.stderr
    except subprocess.TimeoutExpired:
        return 124, 'timeout'


def confirm(sid):
    d = os.path.join(SEEDS, sid)
    wt = '/tmp/sw-' + sid
    sh('git -C /repo worktree remove --force %s' % wt)
    sh('git -C /repo worktree add -q --detach %s HEAD' % wt)
    res = {'repo_head': sh('git -C /repo rev-parse --short HEAD')[1].strip()}
    try:
        rc, out = sh('git -C %s apply %s/patch.diff' % (wt, d))
        res['applies'] = rc == 0
        if rc:
            return res
        res['demo_clean_rc'] = sh('/venv/bin/python demo.py', cwd=d, env={'PYTHONPATH': '/repo'}, timeout=900)[0]
        res['demo_changed_rc'] = sh('/venv/bin/python demo.py', cwd=d, env={'PYTHONPATH': wt}, timeout=900)[0]
        res['tests'] = sh('/venv/bin/python -m pytest -q -p no:cacheprovider 2>&1 | tail -1', cwd=wt)[1].strip()[-100:]
        res['valid'] = res['demo_clean_rc'] == 0 and res['demo_changed_rc'] != 0 and ' passed' in res['tests'] and 'failed' not in res['tests']
    finally:
        sh('git -C /repo worktree remove --force %s' % wt)
        shutil.rmtree(wt, ignore_errors=True)
    return res


def detect(sid, prop):
    assert sh('git -C /repo status --porcelain --untracked-files=no')[1].strip() == '', '/repo not clean'
    out = []
    ev = '/verif/evidence/%s.json' % prop
    if os.path.exists(ev):
        shutil.copy(ev, ev + '.keep')
    rc, o = sh('git -C /repo apply %s/%s/patch.diff' % (SEEDS, sid))
    if rc:
        return [{'error': 'patch does not apply'}]
    try:
        for tier in ('quick', 'thorough'):
            t = time.time()
            rc, o = sh('/verif/bin/check %s --tier %s' % (prop, tier), cwd='/verif')
            viol = [l for l in o.splitlines() if l.startswith('VIOLATION')]
            what = [l.strip()[6:] for l in o.splitlines() if l.startswith('  what')]
            rec = {'check': prop, 'tier': tier, 'caught': rc == 1 and bool(viol), 'concrete_input': any('no-failing-input-found' not in v for v in viol),
                   'what': (what[0][:240] if what else ''), 'seconds': round(time.time() - t)}
            out.append(rec)
            if rec['caught'] and rec['concrete_input']:
                break
            if rec['caught'] and tier == 'thorough':
                break
    finally:
        sh('git -C /repo checkout -- .')
        if os.path.exists(ev + '.keep'):
            os.replace(ev + '.keep', ev)
        shutil.rmtree('/verif/replays', ignore_errors=True)
    return out


rows = []
for sid in sorted(os.listdir(SEEDS)):
    if only and sid not in only and sid.split('-')[0] not in only:
        continue
    mp = os.path.join(SEEDS, sid, 'meta.json')
    if not os.path.exists(mp):
        continue
    meta = json.load(open(mp))
    prop = meta['property']
    hc = confirm(sid)
    if not hc.get('applies'):
        # the lines it changed were rewritten by a later fix: commit; the detection recorded at the HEAD it was written for is kept
        meta['no_longer_applies_at'] = hc.get('repo_head')
        json.dump(meta, open(mp, 'w'), indent=1)
        print(sid, 'no longer applies at', hc.get('repo_head'), flush=True)
        continue
    meta['head_confirmation'] = hc
    meta['detected_by'] = detect(sid, prop)
    json.dump(meta, open(mp, 'w'), indent=1)
    best = next((r for r in meta['detected_by'] if r.get('caught') and r.get('concrete_input')), None) or next((r for r in meta['detected_by'] if r.get('caught')), None)
    row = (sid, 'valid' if meta['head_confirmation'].get('valid') else 'INVALID@HEAD', (best['tier'] + ('/input' if best['concrete_input'] else '/no-input')) if best else 'MISSED')
    rows.append(row)
    print(*row, flush=True)
