#!/venv/bin/python
"""Copy confirmed candidate changes from /tmp/wt-out into /verif/seeded/<id>/ (patch.diff, demo.py, meta.json)."""
import json, os, shutil, sys
OUT = '/tmp/wt-out'
conf = {r['id']: r for r in json.load(open(OUT + '/confirm.json'))}
for sid, r in sorted(conf.items()):
    if not r.get('valid'):
        continue
    prop, x = sid.split('-')
    src = '%s/%s/%s' % (OUT, prop, x)
    dst = '/verif/seeded/%s' % sid
    os.makedirs(dst, exist_ok=True)
    shutil.copy(src + '/patch.diff', dst + '/patch.diff')
    shutil.copy(src + '/demo.py', dst + '/demo.py')
    meta = {}
    try:
        meta = json.load(open(src + '/meta.json'))
    except Exception:
        pass
    keep = {}
    if os.path.exists(dst + '/meta.json'):
        keep = json.load(open(dst + '/meta.json'))
    out = {'id': sid, 'property': prop, 'summary': meta.get('summary'), 'needs': meta.get('needs'), 'files': meta.get('files'),
           'author': 'independent sub-agent given only the property text and a scratch worktree',
           'confirmed': {'demo_on_clean_tree_rc': r['demo_clean_rc'], 'demo_with_change_rc': r['demo_mutant_rc'], 'baseline_tests_with_change': r['tests'],
                         'how': 'tools/confirm_seeds.py: patch applied to a scratch worktree of /repo HEAD; demo run with PYTHONPATH=<tree>; pytest in the worktree'},
           'detected_by': keep.get('detected_by', [])}
    json.dump(out, open(dst + '/meta.json', 'w'), indent=1)
    print('imported', sid)
