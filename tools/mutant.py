#!/venv/bin/python
"""tools/mutant.py <patch.diff> <Cxx> [<Cyy> ...]: apply a seeded change to /repo, run the given checks (quick), undo it.
Prints one line per check: caught / MISSED. Never leaves /repo modified."""
import os
import shutil
import subprocess
import sys

patch, props = os.path.abspath(sys.argv[1]), sys.argv[2:]
assert subprocess.run(['git', '-C', '/repo', 'status', '--porcelain', '--untracked-files=no'], capture_output=True, text=True).stdout.strip() == '', '/repo not clean'
subprocess.check_call(['git', '-C', '/repo', 'apply', patch])
try:
    for p in props:
        ev = '/verif/evidence/%s.json' % p
        if os.path.exists(ev):
            shutil.copy(ev, ev + '.keep')
        r = subprocess.run(['/verif/bin/check', p], capture_output=True, text=True, cwd='/verif')
        viol = [l for l in r.stdout.splitlines() if l.startswith('VIOLATION') or l.startswith('  what')]
        print('%s %s rc=%d' % (p, 'caught' if r.returncode == 1 and viol else 'MISSED', r.returncode))
        for l in viol[:4]:
            print('    ' + l[:300])
        print('    ' + r.stdout.strip().splitlines()[-1])
        if os.path.exists(ev + '.keep'):
            os.replace(ev + '.keep', ev)   # evidence files describe runs on the unchanged tree only
finally:
    subprocess.check_call(['git', '-C', '/repo', 'checkout', '--', '.'])
