#!/venv/bin/python
"""Regenerates /verif/MANIFEST.json from the table below (kept in one place so that it is always valid)."""
import json
import os

ROOT = os.path.dirname(os.path.dirname(os.path.abspath(__file__)))
TB = ('Coq 8.16.1 kernel + vm_compute; translators tools/translate/*.py (fail-closed Python-ast -> Gallina); correspondence harness vlib/*.py; '
      'axioms as reported by Print Assumptions in the evidence file; ')

CHECKS = {
    'C07': dict(
        text='Machine-checked theorems (Coq) on an executable model of the evolvent: for N in 2..5 and EVERY density m the subinterval->cell map is '
             'injective and onto the 2^m grid, x=1 maps to the last cell, every image lies strictly inside any box lower<upper; N=1 affine. '
             'Model tied to the code on every run: (a) evolvent.py is translated to Gallina and identified with the clean model on complete finite '
             'domains (node tables, all queries on small grids) by kernel evaluation; (b) the implementation is run on exhaustive small grids and '
             'random deep inputs and compared with both models inside coqc.',
        design='5 C07', note=TB + 'exact binary64 arithmetic of the digit machine (validated by the bit-exact comparison); affine map compared within 2^-48 relative.',
        technique='Rocq proof by induction over density on finite local lemmas + generated-model bridge + implementation/model correspondence'),
    'C08': dict(
        text='Machine-checked theorems: consecutive subintervals map to face-adjacent cells for every density (induction over digit strings from finite '
             'entry/exit-corner lemmas), nesting of the grids over any number of levels, and the Hoelder bound at cell level '
             '(squared distance < (N+3) 4^(m-k) whenever depth-k ancestors coincide or are consecutive). Same ties as C07; direct oracles check adjacency/nesting '
             'The inequality itself over R (C08_holder_inequality): ||y(x\')-y(x\'\')|| <= 2 sqrt(N+3) |x\'-x\'\'|^(1/N) S for all points at least 2^(-N m) apart, any box with sides <= S. Same ties as C07; direct oracles check adjacency/nesting '
             'exhaustively on small grids and at depth N*m=50 around coarse boundaries, and the real-valued inequality on random pairs.',
        design='5 C08', note=TB + 'standard-library real-number axioms for the real-valued inequality; binary64 rounding of the box map is tied by correspondence, not proved.',
        technique='Rocq proof (induction on digit strings, finite local lemmas by vm_compute) + correspondence'),
    'C09': dict(
        text='Machine-checked theorems: the model of GetInverseImage inverts the cell map for every density (uncell . cell = id and cell . uncell = id), '
             'inverse(image(x)) is x rounded down to the grid, image(inverse(y)) is the centre of the cell containing y and within half a cell of y on every axis, '
             'N=1 affine pair, GetPreimages = GetInverseImage on the generated model. Ties: generated model identified with the clean one on finite domains; '
             'implementation compared exactly with both models on exactly representable box points.',
        design='5 C09', note=TB + 'y within float rounding of a cell boundary is not covered by the exact theorem.',
        technique='Rocq proof of a two-sided inverse by induction over density + correspondence'),
    'C17': dict(
        text='Theorems on the state-passing model GENERATED from evolvent.py: query results are independent of the scratch vector (hence of earlier queries), '
             'queries write nothing but the scratch vector, SetBounds writes only the bounds; the copy-in/copy-out policy and write sets are read from the '
             'source and must equal the recorded policy (reflexivity). History-differential runs (random interleavings of GetImage / GetInverseImage / '
             'GetPreimages / SetBounds with int, float32, list and float64 arguments) compare a used object with fresh ones and re-check retained results.',
        design='5 C17', note=TB + 'numpy arrays are modelled as immutable lists; aliasing is covered by the source policy + differential runs, not by the Gallina model.',
        technique='Rocq proof on generated state-passing model + source aliasing policy + history differential'),
    'C20': dict(
        text='Theorems: every image coordinate at density m is lower+(j+1/2)(upper-lower)/2^m with 0<=j<2^m (model), the generated constructor stores the density '
             'it is given for all m in 0..12 and N in 1..5, generated queries use it (exhaustive small grids), and Solver.__init__ passes '
             'parameters.evolventDensity to Evolvent (source fact, reflexivity). Solver runs with random densities check the grid on the real trial log.',
        design='5 C20', note=TB + 'pass-through is a syntactic source fact about Solver.__init__.',
        technique='Rocq proof + source pass-through fact + solver runs'),
}

SOLVER_NOTE = TB + ('the objective is an oracle (arbitrary stream of finite values / exceptions); theorems are generic in the numeric type and use only the order laws of < and <= '
                    '(reals, non-NaN binary64); depq.DEPQ modelled as a stable descending list; pow() results taken from the implementation\'s own calls; '
                    'the evolvent, scipy and listeners are outside this model.')
CHECKS.update({
    'C14': dict(
        text='Theorems over the reals for ANY parameter set: inside its attraction ball the cubic never goes below the prescribed local minimum (via Cauchy-Schwarz and a sign analysis of the cubic), the cubic meets the paraboloid on the ball boundary (continuity), '
             'outside the balls the function is the paraboloid, at each minimiser it takes the prescribed value; and a decidable rational predicate wf_q (squares instead of square roots: minimisers in the box, balls pairwise disjoint, vertex outside each ball, '
             'non-negative peaks, global value -1 at the class distance with the class radius, every other minimum strictly higher) whose acceptance implies all of the above for the real function (wf_certifies). '
             'Per run: kernel evaluation of wf_q on the parameters exported from the implementation as exact binary64 rationals (quick: seeded sample of 24; thorough: all 400); a binary64 model of CalculateDFunction compared bit-for-bit with GKLS.Calculate at points in every region; '
             'a direct exact-arithmetic structural oracle and a committed golden record over all 400 functions; Knuth self-test value of the random generator.',
        design='5 C14', note=TB + 'real-number axioms of the standard library; the random generator and the parameter construction are not modelled (golden record + Knuth check value instead).',
        technique='Rocq proof of the structure theorem + kernel-checked rational certificate per instance + bit-exact float correspondence + golden record'),
    'C15': dict(
        text='Theorems on a store model: an evaluation whose only write is the supplied holder delivers a value that does not depend on any earlier evaluation, returns the holder, leaves the point and every other cell untouched. '
             'The hypothesis is a source fact re-read on every run (reflexivity): along the whole evaluation path of every shipped problem (Calculate and what it calls, incl. GKLSFunction / GrishaginFunction) nothing is assigned '
             'but local names and the holder value, the holder is returned, no class-/module-level mutable state. History-differential runs over all families: random interleavings of constructions and evaluations, '
             'several live instances, argument buffers reused and mutated in place, each value compared bit-for-bit with a fresh instance evaluated once.',
        design='5 C15', note=TB + 'numpy view aliasing cannot be exhibited by the Gallina store model: covered by the differential runs only (partial).',
        technique='Rocq frame theorem + syntactic write-set facts from the source + history-differential runs'),
    'C10': dict(
        text='Proved once (Coq, reals): Rastrigin and XSquared in EVERY dimension have value 0 at the origin, no lower point and no other minimiser; the generic Hill and Shekel functions are differentiable with the stated derivatives. '
             'Per instance, regenerated from the Calculate sources and tables on every run (closed forms obtained by symbolic evaluation of the source, tied by reflexivity to the generic family on that table): '
             'value at the declared point within 1e-4, global lower bound with the 2e-3 slack over the whole continuous box, and strict separation of everything outside the 0.5% neighbourhood - closed by the interval tactic '
             '(kernel-checked interval arithmetic): quick = 10+10 seeded rows of Hill/Shekel + all Shekel4 + StronginC3; thorough = 100+100 rows chosen by --seed; `bin/check C10 --tier thorough --all-rows` proves all 1000+1000 (hours). Formula-vs-Calculate comparison at random points; multistart numeric search on every family '
             '(incl. Grishagin, GKLS, StronginC3 objective) for a concrete lower point.',
        design='5 C10', note=TB + 'coq-interval + Coquelicot and the standard-library real-number axioms (listed in evidence); decimal table literals used as written; GKLS structure is claimed under C14; StronginC3 is proved over its feasible set by a Lagrangian-relaxation certificate checked by interval (multiplier found numerically, untrusted); Grishagin is covered by numeric search only (partial).',
        technique='Rocq proof: closed-form theorems for all dimensions + per-instance interval-arithmetic proofs generated from the source'),
    'C18': dict(
        text='Metadata: constructors of the parametric families modelled and proved well-formed for every dimension n >= 1; for the finite families every instance is constructed and the dump is checked by the kernel (forallb wf_meta). '
             'Tables: per row, regenerated from the source on every run: tabulated minimum and maximum values within 1e-4 (value at the tabulated location + global bound), derivative sign on both sides of each tabulated extremiser at 1e-4 of the range and separation beyond 0.5%, '
             'every global extremiser within 1e-4 of the range of the tabulated one (mean value theorem, Problems/Locate.v), |f\'| <= 1.001 L on the whole range (hence Lipschitz) and a witness with |f\'| >= 0.999 L, f\' being the derivative by the family theorem (hill_derive / shekel_derive) and the reflexivity tie. quick = 10+10 seeded rows, thorough = 100+100 rows chosen by --seed, `--all-rows` = all 2 x 1000 (hours).',
        design='5 C18', note=TB + 'coq-interval + Coquelicot + real-number axioms; the location and Lipschitz statements are derived per row from the interval lemmas by the mean-value theorems of Problems/Locate.v.',
        technique='Rocq proof: kernel-evaluated metadata predicate + per-row interval proofs generated from the tables'),
    'C05': dict(
        text='Theorems: every evolvent image lies strictly inside any box lower<upper for N in 2..5 and every density (N=1 affine); for ANY local optimiser that respects the bounds it is given, '
             'the refinement step evaluates only inside the box, returns a point inside it, reports the objective value at the returned point and never a worse value than the start. '
             'Source facts (reflexivity): DoLocalRefinement passes Bounds(problem.lower, problem.upper) to scipy.optimize.minimize, evaluates the objective at the returned point, accepts only <=, '
             'stores a new Trial. Oracle: solver runs on objectives whose unconstrained minimum is outside / on the boundary, dims 1..5, refine on/off, repeated explicit refinements.',
        design='5 C05', note=TB + 'scipy Nelder-Mead is an assumed contract (Section hypothesis), exercised but not modelled; float rounding of the affine map on degenerate boxes not covered.',
        technique='Rocq proof (evolvent box theorem + refinement step over an abstract bound-respecting optimiser) + source pass-through facts + runs'),
    'C12': dict(
        text='Theorems on an explicit cell model of what the code can share: the state of solver i after ANY interleaving of any number of solvers equals its state after its own steps; '
             'with distinct (fresh) cells the published result is isolated too; with a shared default cell isolation is refuted (witness), i.e. the model can exhibit the defect. '
             'Source facts (reflexivity): no mutable default argument in iOpt/ is written through, no class-/module-level mutable state, Solver builds its own components. '
             'Oracle: ALL interleavings of two solvers with up to 4 steps each, random interleavings of three, earlier Solutions and records re-read afterwards.',
        design='5 C12', note=TB + 'only the enumerated kinds of shareable objects are modelled; the alias analysis is a name-based syntactic over-approximation of writes.',
        technique='Rocq proof over an explicit shared-cell model + source allocation policy + exhaustive small interleavings'),
    'C13': dict(
        text='Theorems over the state machine: every DoGlobalIteration call produces one notification with exactly the new trials of that call in order, their concatenation is the trial sequence, '
             'BeforeMethodStart is sent when the first iteration starts; listeners are not an input of the state machine. Source facts (reflexivity): call arities accepted by the base class, '
             'argument shapes, shipped listeners/output code never write through what they receive, recorded skeletons of DoGlobalIteration/Solve. '
             'Oracle: recording listeners overriding each of the 8 subsets of callbacks x batchings x dimension 1..3; every shipped listener (console 3 modes, static/animated painters under Agg) '
             'must leave trials and result unchanged; the console final report is parsed against the Solution.',
        design='5 C13', note=TB + 'string formatting, matplotlib and sklearn are not modelled: that half is differential runs only.',
        technique='Rocq proof of the notification trace + source arity/write facts + differential runs with shipped listeners'),
    'C19': dict(
        text='Theorems over an executable model of SearchData / SearchDataDualQueue / CharacteristicsQueue (generic key type with a total order): both queues stay sorted '
             'under ANY finite operation sequence (induction over the sequence), a best-interval request returns an entry of maximal queued priority, the dual variant returns a '
             'current entry with nothing larger left after discarding stale ones / refilling, a bounded queue cuts off only entries not larger than what it keeps, lookup returns the '
             'first item to the right, insertion at a valid position keeps strict order and adds one to the count. Tie: recorded skeletons of the container methods and replay of '
             'random and all short operation sequences on the real classes against the model inside coqc; an admissible-answer oracle (any arg-max accepted) checks the real classes directly.',
        design='5 C19', note=TB + 'depq.DEPQ (third party) modelled as a stable descending list with drop-last bounding; links are list order in the model and checked on the real objects by the oracle.',
        technique='Rocq proof by induction over operation sequences + operation-sequence correspondence'),
    'C01': dict(
        text='Theorems over the reals, on the same generic model of the method as C02 instantiated with R, stated for Solve itself (C01_solve_*: a fresh solver whose answers are the objective at the trial points, Solve ends without exception with the accuracy test satisfied; the bound is for the RETURNED best value) and per step (C01_certificate_*, C01_reported_best_*). N = 2..5 (AGP/OptimalityBox.v): for ANY L-Lipschitz objective on ANY box with sides <= S, any density m >= 1, r > 1, eps: if the run through the evolvent stops by accuracy and '
             'r*M >= K_N*L*S then best - f(Y) < (r*M/2)*eps + L*S*2^-m*(sqrt(N+3)+sqrt(N)/2) for every Y of the box (covering argument in the Hoelder metric + Hoelder inequality, box containment and density of the evolvent images). N = 1 (AGP/Optimality.v): for ANY L-Lipschitz objective phi on the unit segment, '
             'any r > 1 and eps, if the run driven by phi stops by accuracy and r*M >= 2L for the estimate M in force when the last interval was selected, then best - min phi < (r*M/2)*eps; '
             'corollary for flat objectives (2L <= r) without any condition; per-interval lower bound from the characteristic. The literal reading with the FINAL M is refuted by a kernel-evaluated '
             'witness over Q (AGP/Refuted.v) which the check replays on the real implementation (known finding F6). Tie as C02 (generated formulas, skeletons, lock-step replay); search: cone objectives '
             'with known minimum and Lipschitz constant, N = 1..3, flat and steep, bound evaluated with M at selection time.',
        design='5 C01', note=SOLVER_NOTE + ' Theorems are over R with M at selection time; the reading with the final M is refuted and recorded as finding F6.',
        technique='Rocq proof over R of the 1-D certificate (covering argument on the model shared with C02) + refutation witness by vm_compute + lock-step correspondence + search with known-minimum objectives'),
    'C02': dict(
        text='Theorem (Coq, generic numeric type): in every state reachable from the initial one by any number of iterations under ANY stream of objective values, '
             'the subdivided interval has maximal stored characteristic among all intervals of the partition, the stored characteristics are the characteristics under '
             'the current M and z* (cache-coherence invariant: sorted queue holding every interval exactly once), M >= 1 is 1 or a slope seen and dominates every slope seen, '
             'the first trial is at 0.5 and every new point lies strictly inside its interval. All formulas are the gen_* functions translated from method.py on every run. '
             'Tie: control skeletons of Method/SearchData/Process compared with the recorded ones, and bit-exact lock-step replay (all dimensions, ties, batches) of real runs through the model by coqc.',
        design='5 C02', note=SOLVER_NOTE, technique='Rocq proof of a cache-coherence invariant by induction over iterations + generated formulas + bit-exact lock-step correspondence'),
    'C03': dict(
        text='Theorems: the Solve loop never exhausts its fuel (terminates), returns exactly the first state of the orbit satisfying the generated stop rule '
             '(accuracy < eps or budget) or the first failing step, counts one trial per successful evaluation, accuracy = running python-min of subdivided lengths. '
             'Tie as C02; direct oracle recomputes the stop index by single-stepping a twin solver (edge limits 1,2,3, eps >= 1, coarse densities, refinement on); '
             'non-finite objective values are run in a subprocess with a timeout.',
        design='5 C03', note=SOLVER_NOTE, technique='Rocq proof (measure argument + relational characterisation of Solve) + lock-step correspondence'),
    'C04': dict(
        text='Theorem: in every reachable state (and after a failing evaluation) the best trial is an evaluated item of the record with exactly that coordinate and value, '
             'z* is its value and no evaluated item is smaller (ties keep the earlier). Tie as C02; the oracle checks the Solution inside every listener callback and after refinements.',
        design='5 C04', note=SOLVER_NOTE + ' Local refinement (scipy Nelder-Mead) is checked by runs only.', technique='Rocq invariant proof + lock-step correspondence + callback oracle'),
    'C06': dict(
        text='Theorem: in every reachable state (and after a failing evaluation) the record runs 0 -> 1 strictly increasing with unevaluated ends and evaluated interior, '
             'every stored length is hroot(x - x_left), count = trials + 2, identities distinct; each iteration inserts exactly the new trial. '
             'Tie as C02 (the final record is compared bit-for-bit); the oracle traverses the real linked list (links both ways, images, values) after every iteration, after Solve with refinement and at float resolution.',
        design='5 C06', note=SOLVER_NOTE + ' Pointer links are abstracted by list order in the model and checked on the implementation by the oracle.', technique='Rocq invariant proof + lock-step correspondence + record oracle'),
    'C11': dict(
        text='Theorems: DoGlobalIteration(a) ; DoGlobalIteration(b) = DoGlobalIteration(a+b); iterations made before the stop point followed by Solve = plain Solve (same state and sequence); '
             'Solve is a function of the answers; a second Solve makes no trial; the stop rule is monotone. Tie as C02 with batched scripts; oracle runs all compositions of short runs, '
             'aligned batch sweeps over long runs and GetResults() reads between batches.',
        design='5 C11', note=SOLVER_NOTE, technique='Rocq proof of batch composition / determinism + lock-step correspondence on batched scripts'),
    'C16': dict(
        text='Theorem: if the evaluation after any k >= 1 completed trials raises, the Solve loop ends with the exception flag, trial count, best trial and every record item '
             '(up to the cached characteristic) are those after the k completed trials and the record/optimum/estimate invariants hold. Tie: try/except BaseException position and '
             'evaluate-count-update-insert order in the recorded skeletons; lock-step replay with failures injected (6 exception types); oracle injects a failure at EVERY evaluation index of runs.',
        design='5 C16', note=SOLVER_NOTE, technique='Rocq proof (failure frame lemma) + fault injection at every index + lock-step correspondence'),
})

ORDER = ['C%02d' % i for i in range(1, 21)]
NA_REASON = 'check under construction in this session; will be claimed once its proof and correspondence exist'


def main():
    checks = []
    for pid in ORDER:
        if pid not in CHECKS:
            continue
        c = CHECKS[pid]
        checks.append({
            'property_id': pid,
            'quick_cmd': 'bin/check %s --tier quick' % pid,
            'thorough_cmd': 'bin/check %s --tier thorough' % pid,
            'evidence_file': 'evidence/%s.json' % pid,
            'replay_cmd_template': 'bin/check %s --replay {path}' % pid,
            'engine': 'coq',
            'level_claimed': {'category': 'proof', 'text': c['text'], 'design_ref': c['design']},
            'level_note': c['note'],
            'technique': c['technique'],
        })
    m = {
        'version': 1,
        'setup_cmd': 'bin/setup',
        'hooks': {'guard': 'IOPT_VERIF', 'enable': 'no source hooks are needed: every observation point is public API; the checks set IOPT_VERIF=1 but nothing in /repo reads it',
                  'baseline_off_cmd': 'cd /repo && /venv/bin/python -m pytest -q -p no:cacheprovider', 'source_commits': [], 'add_only': True},
        'engines': [{'name': 'coq', 'path': 'coq/', 'serves_properties': [p for p in ORDER if p in CHECKS],
                     'kind_free_text': 'Coq 8.16.1 development: hand-written models + theorems, models generated from the Python sources on every run, '
                                       'correspondence cases evaluated by vm_compute'}],
        'checks': checks,
        'notes': 'Genuine defects repaired by fix: commits in /repo and recorded findings are listed in known_findings.json; see DESIGN.md.',
        'not_applicable': [{'property_id': p, 'reason': NA_REASON} for p in ORDER if p not in CHECKS],
    }
    json.dump(m, open(os.path.join(ROOT, 'MANIFEST.json'), 'w'), indent=1)
    print('checks:', [c['property_id'] for c in checks])


if __name__ == '__main__':
    main()
