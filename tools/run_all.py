#!/venv/bin/python
"""tools/run_all.py [quick|thorough] [Cxx ...]: run the registered checks on the tree as it is; summary at the end."""
import json, subprocess, sys, time
from concurrent.futures import ThreadPoolExecutor
tier = sys.argv[1] if len(sys.argv) > 1 and sys.argv[1] in ('quick', 'thorough') else 'quick'
only = [a for a in sys.argv[1:] if a.startswith('C')]
m = json.load(open('/verif/MANIFEST.json'))
checks = [c for c in m['checks'] if not only or c['property_id'] in only]
def run(c):
    t = time.time()
    cmd = c['quick_cmd'] if tier == 'quick' else c.get('thorough_cmd', c['quick_cmd'])
    r = subprocess.run(cmd, shell=True, cwd='/verif', capture_output=True, text=True)
    lines = [l for l in r.stdout.splitlines() if l.startswith(('VIOLATION', 'KNOWN-FINDING'))]
    return c['property_id'], r.returncode, time.time() - t, lines, r.stdout.strip().splitlines()[-1:] 
with ThreadPoolExecutor(4) as ex:
    res = list(ex.map(run, checks))
bad = 0
for pid, rc, dt, lines, last in res:
    print('%s rc=%d %.0fs %s' % (pid, rc, dt, last[0] if last else ''))
    for l in lines:
        print('    ' + l)
    bad += rc != 0
print('%d checks, %d not quiet' % (len(res), bad))
sys.exit(1 if bad else 0)
