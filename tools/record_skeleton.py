#!/venv/bin/python
"""Re-record coq/AGP/Skeleton.v from the CURRENT gen/SourceFacts.v. Run deliberately, after a source change to the
driver code has been reviewed and the models (AGP/Impl.v, Driver/*.v, Containers/SData.v) were checked against it."""
import re
src = open('/verif/coq/gen/SourceFacts.v').read()
defs = re.findall(r'^Definition (sk_\w+|methods_\w+|listener_calls|listener_base_arity|refine_\w+|solver_\w+) : ([^=]+?) := (.*)\.$', src, re.M)
out = ['(* The control skeletons, call shapes and pass-through facts of the driver code that the hand-written state machine',
       '   (AGP/Impl.v) and the driver model were written against. RECORDED BY HAND (copied from the generated',
       '   gen/SourceFacts.v of the tree the model was validated on, tools/record_skeleton.py): each lemma compares the skeleton',
       '   regenerated from the current source with the recorded one. A refactoring of one of these methods re-opens the lemma,',
       '   and the lock-step correspondence then decides whether behaviour changed. *)',
       'From Coq Require Import String List Bool.', 'From IOptV Require Import gen.SourceFacts.', 'Import ListNotations.', 'Open Scope string_scope.', '']
for name, ty, val in defs:
    out.append('Definition expected_%s : %s := %s.' % (name, ty.strip(), val))
    out.append('Lemma %s_ok : %s = expected_%s. Proof. reflexivity. Qed.' % (name, name, name))
    out.append('')
open('/verif/coq/AGP/Skeleton.v', 'w').write('\n'.join(out))
print(len(defs), 'facts recorded')
