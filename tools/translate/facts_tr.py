"""Source facts: small, fail-closed AST extractions from the driver code, emitted as Coq constants (gen/SourceFacts.v).
The property files compare them with the values the hand-written models were written against (by reflexivity), so an
edit that changes allocation/aliasing policy, pass-through of parameters, call arities or the control skeleton
re-opens the corresponding proof obligation."""
import ast
import re
import glob
import os


class Unsupported(Exception):
    pass


def cstr(s):
    return '"' + s.replace('"', "'") + '"'


def clist(items):
    return '[' + '; '.join(items) + ']'


def parse(repo, rel):
    return ast.parse(open(os.path.join(repo, rel)).read())


def find_class(tree, name):
    for n in tree.body:
        if isinstance(n, ast.ClassDef) and n.name == name:
            return n
    raise Unsupported('class %s not found' % name)


def find_method(cls, name):
    for n in cls.body:
        if isinstance(n, ast.FunctionDef) and n.name == name:
            return n
    raise Unsupported('method %s.%s not found' % (cls.name, name))


def calls_named(node, dotted):
    return [n for n in ast.walk(node) if isinstance(n, ast.Call) and ast.unparse(n.func) == dotted]


# ---------------------------------------------------------------------------------------------
def solver_facts(repo):
    cls = find_class(parse(repo, 'iOpt/solver.py'), 'Solver')
    init = find_method(cls, '__init__')
    ev = calls_named(init, 'Evolvent')
    if len(ev) != 1:
        raise Unsupported('expected exactly one Evolvent(...) construction in Solver.__init__')
    names = ['lowerBoundOfFloatVariables', 'upperBoundOfFloatVariables', 'numberOfFloatVariables', 'evolventDensity']
    got = {}
    for i, a in enumerate(ev[0].args):
        got[names[i]] = ast.unparse(a)
    for k in ev[0].keywords:
        if k.arg not in names:
            raise Unsupported('unknown Evolvent keyword ' + str(k.arg))
        got[k.arg] = ast.unparse(k.value)
    args = [got.get(n, '<default>') for n in names]
    out = ['Definition solver_evolvent_args : list string := %s.' % clist(map(cstr, args))]
    # which object each component receives (must be the solver's own)
    comp = []
    for st in init.body:
        if isinstance(st, ast.Assign) and isinstance(st.value, ast.Call) and isinstance(st.targets[0], ast.Attribute):
            comp.append('(%s, %s)' % (cstr(st.targets[0].attr), cstr(ast.unparse(st.value))))
    out.append('Definition solver_components : list (string * string) := %s.' % clist(comp))
    # public methods delegate 1:1
    deleg = []
    for name in ('Solve', 'DoGlobalIteration', 'DoLocalRefinement', 'GetResults'):
        m = find_method(cls, name)
        body = [s for s in m.body if not (isinstance(s, ast.Expr) and isinstance(s.value, ast.Constant))]
        deleg.append('(%s, %s)' % (cstr(name), cstr('; '.join(ast.unparse(s) for s in body))))
    out.append('Definition solver_delegation : list (string * string) := %s.' % clist(deleg))
    return out


def evolvent_copy_facts(repo):
    cls = find_class(parse(repo, 'iOpt/evolvent/evolvent.py'), 'Evolvent')
    out = []
    facts = []
    # results handed out / arguments taken in
    for name in ('GetImage', 'GetInverseImage', 'GetPreimages', 'SetBounds', '__init__'):
        m = find_method(cls, name)
        for n in ast.walk(m):
            if isinstance(n, ast.Return) and n.value is not None:
                facts.append('(%s, %s)' % (cstr(name + ':return'), cstr(ast.unparse(n.value))))
            if isinstance(n, ast.Assign) and isinstance(n.targets[0], ast.Attribute) and isinstance(n.value, (ast.Name, ast.Call)):
                src = ast.unparse(n.value)
                params = [a.arg for a in m.args.args]
                if any(p in src for p in params[1:]):
                    facts.append('(%s, %s)' % (cstr(name + ':' + n.targets[0].attr), cstr(src)))
    out.append('Definition evolvent_copy_policy : list (string * string) := %s.' % clist(facts))
    # instance attributes written by each public query (write set)
    ws = []
    helpers = {f.name: f for f in cls.body if isinstance(f, ast.FunctionDef)}

    def writes(fn, seen):
        w = set()
        for n in ast.walk(fn):
            tgts = []
            if isinstance(n, ast.Assign):
                tgts = n.targets
            elif isinstance(n, (ast.AugAssign, ast.AnnAssign)):
                tgts = [n.target]
            for t in tgts:
                for e in (t.elts if isinstance(t, ast.Tuple) else [t]):
                    base = e
                    while isinstance(base, ast.Subscript):
                        base = base.value
                    if isinstance(base, ast.Attribute) and isinstance(base.value, ast.Name) and base.value.id == 'self':
                        w.add(base.attr)
            if isinstance(n, ast.Call) and isinstance(n.func, ast.Attribute) and isinstance(n.func.value, ast.Name) and n.func.value.id == 'self':
                callee = n.func.attr
                callee = callee if not callee.startswith('__') or callee.endswith('__') else callee
                if callee in helpers and callee not in seen:
                    w |= writes(helpers[callee], seen | {callee})
            if isinstance(n, (ast.Global, ast.Nonlocal)):
                raise Unsupported('global/nonlocal in Evolvent.' + fn.name)
        return w
    for name in ('GetImage', 'GetInverseImage', 'GetPreimages'):
        ws.append('(%s, %s)' % (cstr(name), clist(map(cstr, sorted(writes(helpers[name], {name}))))))
    out.append('Definition evolvent_write_sets : list (string * list string) := %s.' % clist(ws))
    # no module-level or class-level mutable state
    tree = parse(repo, 'iOpt/evolvent/evolvent.py')
    extra = [ast.unparse(n)[:60] for n in tree.body if not isinstance(n, (ast.Import, ast.ImportFrom, ast.ClassDef))]
    extra += [ast.unparse(n)[:60] for n in cls.body if not isinstance(n, ast.FunctionDef) and not (isinstance(n, ast.Expr) and isinstance(n.value, ast.Constant))]
    out.append('Definition evolvent_module_state : list string := %s.' % clist(map(cstr, extra)))
    # nothing outside evolvent.py configures or writes into an Evolvent object after construction
    ext = []
    for root, _, files in os.walk(os.path.join(repo, 'iOpt')):
        for fn in sorted(files):
            rel = os.path.relpath(os.path.join(root, fn), repo)
            if not fn.endswith('.py') or rel.replace(os.sep, '/') == 'iOpt/evolvent/evolvent.py':
                continue
            for n in ast.walk(parse(repo, rel)):
                tgts = n.targets if isinstance(n, ast.Assign) else ([n.target] if isinstance(n, (ast.AugAssign, ast.AnnAssign)) else [])
                for t in tgts:
                    for e in (t.elts if isinstance(t, ast.Tuple) else [t]):
                        base = e
                        while isinstance(base, ast.Subscript):
                            base = base.value
                        src = ast.unparse(base)
                        if isinstance(base, ast.Attribute) and re.search(r'(^|\.)evolvent\.', src):
                            ext.append('%s: %s' % (rel.replace(os.sep, '/'), src))
                if isinstance(n, ast.Call) and isinstance(n.func, ast.Attribute) and n.func.attr in ('SetBounds', '__setattr__') and re.search(r'(^|\.)evolvent$', ast.unparse(n.func.value)):
                    ext.append('%s: %s' % (rel.replace(os.sep, '/'), ast.unparse(n.func)))
                if isinstance(n, ast.Call) and isinstance(n.func, ast.Name) and n.func.id == 'setattr' and n.args and re.search(r'(^|\.)evolvent$', ast.unparse(n.args[0])):
                    ext.append('%s: setattr(%s, ...)' % (rel.replace(os.sep, '/'), ast.unparse(n.args[0])))
    out.append('Definition evolvent_external_writes : list string := %s.' % clist(map(cstr, sorted(ext))))
    return out


def refine_facts(repo):
    cls = find_class(parse(repo, 'iOpt/method/process.py'), 'Process')
    m = find_method(cls, 'DoLocalRefinement')
    mins = [n for n in ast.walk(m) if isinstance(n, ast.Call) and ast.unparse(n.func).endswith('minimize')]
    if len(mins) != 1:
        raise Unsupported('expected one scipy minimize call in DoLocalRefinement')
    kws = ['(%s, %s)' % (cstr(k.arg), cstr(ast.unparse(k.value))) for k in mins[0].keywords]
    pos = [cstr(ast.unparse(a)) for a in mins[0].args]
    out = ['Definition refine_minimize_positional : list string := %s.' % clist(pos),
           'Definition refine_minimize_keywords : list (string * string) := %s.' % clist(kws)]
    bounds_def = [ast.unparse(n.value) for n in ast.walk(m) if isinstance(n, ast.Assign) and ast.unparse(n.targets[0]) == 'bounds']
    out.append('Definition refine_bounds_definition : list string := %s.' % clist(map(cstr, bounds_def)))
    # writes through the current best trial (attribute / subscript paths below result.bestTrials[0])
    deep = []
    for n in ast.walk(m):
        tgts = n.targets if isinstance(n, ast.Assign) else ([n.target] if isinstance(n, ast.AugAssign) else [])
        for t in tgts:
            s = ast.unparse(t)
            if 'bestTrials[0].' in s or 'bestTrials[0][' in s:
                deep.append(s)
    out.append('Definition refine_writes_through_best_trial : list string := %s.' % clist(map(cstr, deep)))
    # statements in order (skeleton)
    sk = []
    for s in m.body:
        if isinstance(s, ast.Expr) and isinstance(s.value, ast.Constant):
            continue
        sk.append(cstr(' '.join(ast.unparse(s).split())))
    out.append('Definition refine_skeleton : list string := %s.' % clist(sk))
    return out


MUTABLE = (ast.List, ast.Dict, ast.Set, ast.ListComp, ast.DictComp, ast.SetComp, ast.Call)
COPYING_CALLS = {'np.copy', 'np.array', 'list', 'tuple', 'copy.deepcopy', 'copy.copy', 'len', 'np.asarray_chkfinite'}


def mutable_default_facts(repo):
    """every mutable default argument in iOpt/ and whether anything in iOpt/ writes through the attribute it is stored in"""
    files = sorted(glob.glob(os.path.join(repo, 'iOpt', '**', '*.py'), recursive=True))
    trees = {f: ast.parse(open(f).read()) for f in files}
    # all syntactic writes: attribute names that are assigned through (x.attr[...] = , x.attr.f = , x.attr.append(...))
    written_attr = set()
    for f, tree in trees.items():
        for n in ast.walk(tree):
            tgts = n.targets if isinstance(n, ast.Assign) else ([n.target] if isinstance(n, (ast.AugAssign, ast.AnnAssign)) else [])
            for t in tgts:
                for e in (t.elts if isinstance(t, ast.Tuple) else [t]):
                    # look at the container being written into: strip the last step
                    if isinstance(e, ast.Subscript):
                        base = e.value
                        while isinstance(base, ast.Subscript):
                            base = base.value
                        if isinstance(base, ast.Attribute):
                            written_attr.add(base.attr)
                        elif isinstance(base, ast.Name):
                            written_attr.add('$name:' + base.id)
                    elif isinstance(e, ast.Attribute):
                        base = e.value
                        while isinstance(base, ast.Subscript):
                            base = base.value
                        if isinstance(base, ast.Attribute):
                            written_attr.add(base.attr)      # x.attr.field = ...  /  x.attr[0].field = ...
                        elif isinstance(base, ast.Name) and base.id != 'self':
                            written_attr.add('$name:' + base.id)   # name.field = ...  (a write through a local name / parameter)
            if isinstance(n, ast.Call) and isinstance(n.func, ast.Attribute) and n.func.attr in (
                    'append', 'extend', 'insert', 'pop', 'remove', 'clear', 'sort', 'reverse', 'update', 'fill', 'add', 'setdefault', 'popitem'):
                base = n.func.value
                while isinstance(base, ast.Subscript):
                    base = base.value
                if isinstance(base, ast.Attribute):
                    written_attr.add(base.attr)
                elif isinstance(base, ast.Name):
                    written_attr.add('$name:' + base.id)
    rows = []
    bad = []
    for f, tree in trees.items():
        rel = os.path.relpath(f, repo)
        for cls in [n for n in ast.walk(tree) if isinstance(n, ast.ClassDef)] + [None]:
            fns = [n for n in (cls.body if cls else tree.body) if isinstance(n, ast.FunctionDef)]
            for fn in fns:
                args = fn.args
                pairs = list(zip(args.args[len(args.args) - len(args.defaults):], args.defaults)) + \
                    [(a, d) for a, d in zip(args.kwonlyargs, args.kw_defaults) if d is not None]
                for a, d in pairs:
                    if not isinstance(d, MUTABLE):
                        continue
                    if isinstance(d, ast.Call) and ast.unparse(d.func) in ('np.double', 'float', 'int', 'str', 'bool'):
                        continue
                    qn = '%s:%s.%s(%s)' % (rel, cls.name if cls else '', fn.name, a.arg)
                    # where is the default stored / how is it used?
                    stored = set()
                    local_write = False
                    for n in ast.walk(fn):
                        if isinstance(n, ast.Assign) and isinstance(n.value, ast.Name) and n.value.id == a.arg:
                            for t in n.targets:
                                if isinstance(t, ast.Attribute):
                                    stored.add(t.attr)
                        if isinstance(n, ast.keyword) and isinstance(n.value, ast.Name) and n.value.id == a.arg:
                            stored.add(n.arg or a.arg)   # forwarded as keyword: track by keyword name
                        if isinstance(n, ast.Call) and ast.unparse(n.func) not in COPYING_CALLS:
                            if any(isinstance(x, ast.Name) and x.id == a.arg for x in n.args):
                                stored.add(a.arg)        # forwarded positionally: track by its own name
                    if ('$name:' + a.arg) in written_attr:
                        # only counts when the write is inside this very function
                        for n in ast.walk(fn):
                            tg = n.targets if isinstance(n, ast.Assign) else []
                            for t in tg:
                                b = t
                                while isinstance(b, ast.Subscript):
                                    b = b.value
                                if isinstance(t, ast.Subscript) and isinstance(b, ast.Name) and b.id == a.arg:
                                    local_write = True
                                if isinstance(t, ast.Attribute):
                                    bb = t.value
                                    while isinstance(bb, ast.Subscript):
                                        bb = bb.value
                                    if isinstance(bb, ast.Name) and bb.id == a.arg:
                                        local_write = True          # parameter.field = ... on a shared default object
                    # positional forwarding to another call (e.g. super().__init__(point=y, functionValues=functionValues))
                    w = local_write or any(s in written_attr for s in stored)
                    rows.append('(%s, %s, %s)' % (cstr(qn), cstr(ast.unparse(d)[:40]), 'true' if w else 'false'))
                    if w:
                        bad.append(qn)
    out = ['Definition mutable_defaults : list (string * string * bool) := %s.' % clist(rows),
           'Definition mutable_defaults_written : list string := %s.' % clist(map(cstr, bad))]
    # class-level mutable attributes
    cl = []
    for f, tree in trees.items():
        rel = os.path.relpath(f, repo)
        for cls in [n for n in ast.walk(tree) if isinstance(n, ast.ClassDef)]:
            for st in cls.body:
                if isinstance(st, (ast.Assign, ast.AnnAssign)) and st.value is not None and isinstance(st.value, MUTABLE):
                    if isinstance(st.value, ast.Call) and ast.unparse(st.value.func) in ('np.double', 'float', 'int', 'str'):
                        continue
                    cl.append(cstr('%s:%s:%s' % (rel, cls.name, ast.unparse(st)[:50])))
    out.append('Definition class_level_mutables : list string := %s.' % clist(cl))
    return out


def listener_facts(repo):
    ptree = parse(repo, 'iOpt/method/process.py')
    cls = find_class(ptree, 'Process')
    calls = []
    for m in cls.body:
        if not isinstance(m, ast.FunctionDef):
            continue
        for n in ast.walk(m):
            if isinstance(n, ast.Call) and isinstance(n.func, ast.Attribute) and isinstance(n.func.value, ast.Name) and n.func.value.id == 'listener':
                if n.keywords:
                    raise Unsupported('keyword arguments in listener call')
                calls.append((m.name, n.func.attr, len(n.args), [ast.unparse(a) for a in n.args]))
    base = find_class(parse(repo, 'iOpt/method/listener.py'), 'Listener')
    ar = {}
    for m in base.body:
        if isinstance(m, ast.FunctionDef):
            npos = len(m.args.args) - 1
            ar[m.name] = (npos - len(m.args.defaults), npos if m.args.vararg is None else 99)
    out = ['Definition listener_calls : list (string * string * nat * list string) := %s.' % clist(
        '(%s, %s, %d%%nat, %s)' % (cstr(a), cstr(b), c, clist(map(cstr, d))) for a, b, c, d in calls)]
    out.append('Definition listener_base_arity : list (string * nat * nat) := %s.' % clist(
        '(%s, %d%%nat, %d%%nat)' % (cstr(k), v[0], v[1]) for k, v in sorted(ar.items())))
    ok = all(b in ar and ar[b][0] <= c <= ar[b][1] for _, b, c, _ in calls)
    out.append('Definition listener_arity_ok : bool := %s.' % ('true' if ok else 'false'))
    return out


def listener_write_facts(repo):
    """writes that shipped listeners / output code make THROUGH objects they receive from the solver (parameters of their methods,
    and attributes in which they store such parameters), plus module-level mutable state anywhere in iOpt/"""
    files = ['iOpt/method/listener.py'] + sorted(os.path.relpath(f, repo) for f in glob.glob(os.path.join(repo, 'iOpt', 'output_system', '**', '*.py'), recursive=True))
    received = ('searchData', 'solution', 'savedNewPoints', 'method', 'currSolution', 'solv', 'sol', 'point', 'bestTrialPoint', 'points', 'section',
                'parameters', 'problem', 'task')
    writes = []
    for rel in files:
        tree = parse(repo, rel)
        for cls in [n for n in ast.walk(tree) if isinstance(n, ast.ClassDef)]:
            for fn in [n for n in cls.body if isinstance(n, ast.FunctionDef)]:
                params = {a.arg for a in fn.args.args[1:]}
                # attributes of self that alias a received object: self.x = <param>
                for n in ast.walk(fn):
                    tgts = n.targets if isinstance(n, ast.Assign) else ([n.target] if isinstance(n, (ast.AugAssign, ast.AnnAssign)) else [])
                    for t in tgts:
                        for e in (t.elts if isinstance(t, ast.Tuple) else [t]):
                            base = e
                            path = []
                            while isinstance(base, (ast.Attribute, ast.Subscript)):
                                path.append(base)
                                base = base.value
                            if not isinstance(base, ast.Name) or not path:
                                continue
                            root = base.id
                            first = path[-1]
                            if root in params:
                                writes.append('%s:%s.%s: %s' % (rel, cls.name, fn.name, ast.unparse(e)))
                            elif root == 'self' and isinstance(first, ast.Attribute) and len(path) >= 2 and first.attr in received:
                                writes.append('%s:%s.%s: %s' % (rel, cls.name, fn.name, ast.unparse(e)))
                    if isinstance(n, ast.Call) and isinstance(n.func, ast.Attribute) and n.func.attr in (
                            'append', 'extend', 'insert', 'pop', 'remove', 'clear', 'sort', 'reverse', 'fill', 'SetZ', 'SetIndex', 'SetLeft', 'SetRight',
                            'InsertDataItem', 'ClearQueue', 'RefillQueue', 'GetDataItemWithMaxGlobalR'):
                        base = n.func.value
                        while isinstance(base, (ast.Attribute, ast.Subscript)):
                            nxt = base.value
                            if isinstance(nxt, ast.Name):
                                break
                            base = nxt
                        root = base.value.id if isinstance(base, (ast.Attribute, ast.Subscript)) and isinstance(base.value, ast.Name) else (base.id if isinstance(base, ast.Name) else None)
                        attr = base.attr if isinstance(base, ast.Attribute) else None
                        if root in params or (root == 'self' and attr in received):
                            writes.append('%s:%s.%s: %s' % (rel, cls.name, fn.name, ast.unparse(n)[:60]))
    out = ['Definition listener_writes_through_received : list string := %s.' % clist(map(cstr, writes))]
    # module-level mutable state and `global` statements in the library
    mods = []
    for f in sorted(glob.glob(os.path.join(repo, 'iOpt', '**', '*.py'), recursive=True)):
        rel = os.path.relpath(f, repo)
        if '/problems/' in rel and rel.endswith('_generation.py'):
            continue   # coefficient tables: covered by the benchmark properties
        tree = ast.parse(open(f).read())
        for n in tree.body:
            if isinstance(n, (ast.Assign, ast.AnnAssign)) and getattr(n, 'value', None) is not None and isinstance(n.value, MUTABLE):
                if isinstance(n.value, ast.Call) and ast.unparse(n.value.func) in ('np.double', 'float', 'int', 'str', 'TypeVar'):
                    continue
                mods.append('%s: %s' % (rel, ast.unparse(n)[:50]))
        for n in ast.walk(tree):
            if isinstance(n, (ast.Global, ast.Nonlocal)):
                mods.append('%s: %s' % (rel, ast.unparse(n)))
    out.append('Definition module_level_mutables : list string := %s.' % clist(map(cstr, mods)))
    # process-wide state set from library code, and memoised functions (another form of state shared between instances)
    GLOBAL_SETTERS = ('np.seterr', 'numpy.seterr', 'np.seterrcall', 'np.random.seed', 'numpy.random.seed', 'random.seed', 'warnings.filterwarnings',
                      'warnings.simplefilter', 'sys.setrecursionlimit', 'np.set_printoptions', 'os.putenv', 'locale.setlocale', 'np.errstate')
    gstate, memo = [], []
    for root, _, files in os.walk(os.path.join(repo, 'iOpt')):
        for fn in sorted(files):
            if not fn.endswith('.py'):
                continue
            rel = os.path.relpath(os.path.join(root, fn), repo).replace(os.sep, '/')
            tree = ast.parse(open(os.path.join(root, fn)).read())
            for n in ast.walk(tree):
                if isinstance(n, ast.Call) and ast.unparse(n.func) in GLOBAL_SETTERS:
                    gstate.append('%s: %s' % (rel, ast.unparse(n)[:60]))
                if isinstance(n, (ast.Assign, ast.AugAssign)):
                    for t in (n.targets if isinstance(n, ast.Assign) else [n.target]):
                        if isinstance(t, ast.Subscript) and ast.unparse(t.value) == 'os.environ':
                            gstate.append('%s: %s' % (rel, ast.unparse(n)[:60]))
                if isinstance(n, (ast.FunctionDef, ast.ClassDef)):
                    for d in n.decorator_list:
                        if re.search(r'(^|\.)(lru_cache|cache|cached_property|memoize)\b', ast.unparse(d)):
                            memo.append('%s: @%s %s' % (rel, ast.unparse(d)[:30], n.name))
                if isinstance(n, ast.Call) and re.search(r'(^|\.)(lru_cache|cache)$', ast.unparse(n.func)) and n.args:
                    memo.append('%s: %s' % (rel, ast.unparse(n)[:60]))
    # the library never writes into the configuration objects it is given (parameters, problem, listeners, ...)
    CONFIG = ('parameters', 'problem', 'task', 'listener', 'listeners', 'solution', 'evolvent', 'searchData', 'method', 'startPoint')
    cfgw = []
    for root, _, files in os.walk(os.path.join(repo, 'iOpt')):
        for fn in sorted(files):
            if not fn.endswith('.py'):
                continue
            rel = os.path.relpath(os.path.join(root, fn), repo).replace(os.sep, '/')
            for f in ast.walk(ast.parse(open(os.path.join(root, fn)).read())):
                if not isinstance(f, ast.FunctionDef):
                    continue
                params = [a.arg for a in f.args.args + f.args.kwonlyargs if a.arg in CONFIG]
                for n in ast.walk(f):
                    tg = n.targets if isinstance(n, ast.Assign) else ([n.target] if isinstance(n, (ast.AugAssign, ast.AnnAssign)) else [])
                    for t in tg:
                        for e in (t.elts if isinstance(t, ast.Tuple) else [t]):
                            base = e
                            while isinstance(base, (ast.Attribute, ast.Subscript)):
                                base = base.value
                            if isinstance(base, ast.Name) and base.id in params and not isinstance(e, ast.Name):
                                cfgw.append('%s:%s: %s' % (rel, f.name, ast.unparse(e)[:50]))
                            # self.parameters.x = ... / self.task.problem.x = ... : writes through a stored configuration object
                            src = ast.unparse(e)
                            if re.match(r'self\.(parameters|task\.problem|problem|task)\.', src) and not isinstance(e, ast.Name):
                                cfgw.append('%s:%s: %s' % (rel, f.name, src[:50]))
    out.append('Definition configuration_object_writes : list string := %s.' % clist(map(cstr, sorted(set(cfgw)))))
    out.append('Definition process_global_state_calls : list string := %s.' % clist(map(cstr, sorted(gstate))))
    out.append('Definition memoised_functions : list string := %s.' % clist(map(cstr, sorted(memo))))
    return out


def calculate_purity_facts(repo):
    """for every shipped problem: what the evaluation path (Calculate and the methods it calls on self / self.function) assigns to,
    other than local names and the supplied holder's value; what it returns; writes through its point argument"""
    plans = [('iOpt/problems/hill.py', 'Hill', None), ('iOpt/problems/shekel.py', 'Shekel', None), ('iOpt/problems/shekel4.py', 'Shekel4', None),
             ('iOpt/problems/rastrigin.py', 'Rastrigin', None), ('iOpt/problems/xsquared.py', 'XSquared', None), ('iOpt/problems/stronginC3.py', 'StronginC3', None),
             ('iOpt/problems/grishagin.py', 'Grishagin', ('iOpt/problems/grishagin_function/grishagin_function.py', 'GrishaginFunction')),
             ('iOpt/problems/GKLS.py', 'GKLS', ('iOpt/problems/GKLS_function/gkls_function.py', 'GKLSFunction'))]
    rows = []
    rets = []
    hreads = []

    def holder_reads(fn, holder):
        """places where the evaluation READS the supplied holder's value (an augmented assignment, or a load of holder.value)"""
        out = []
        for n in ast.walk(fn):
            if isinstance(n, ast.AugAssign) and ast.unparse(n.target) == holder + '.value':
                out.append(ast.unparse(n)[:50])
            if isinstance(n, ast.Attribute) and isinstance(n.ctx, ast.Load) and ast.unparse(n) == holder + '.value':
                out.append('reads ' + holder + '.value')
        return out

    def reach(cls, start):
        fns = {f.name: f for f in cls.body if isinstance(f, ast.FunctionDef)}
        seen, todo = [], [start]
        while todo:
            n = todo.pop()
            if n in seen or n not in fns:
                continue
            seen.append(n)
            for c in ast.walk(fns[n]):
                if isinstance(c, ast.Call) and isinstance(c.func, ast.Attribute) and isinstance(c.func.value, ast.Name) and c.func.value.id == 'self':
                    todo.append(c.func.attr)
        return [fns[n] for n in seen]

    def writes(fn, params):
        w = []
        for n in ast.walk(fn):
            tg = n.targets if isinstance(n, ast.Assign) else ([n.target] if isinstance(n, (ast.AugAssign, ast.AnnAssign)) else [])
            for t in tg:
                for e in (t.elts if isinstance(t, ast.Tuple) else [t]):
                    base = e
                    while isinstance(base, (ast.Attribute, ast.Subscript)):
                        base = base.value
                    if isinstance(e, ast.Name):
                        continue
                    root = base.id if isinstance(base, ast.Name) else '?'
                    if root == 'self' or root in params or root == '?':
                        w.append(ast.unparse(e))
                    elif isinstance(e, (ast.Attribute, ast.Subscript)) and root not in _local_names(fn):
                        w.append(ast.unparse(e))
            if isinstance(n, (ast.Global, ast.Nonlocal)):
                w.append(ast.unparse(n))
            if isinstance(n, ast.Call) and isinstance(n.func, ast.Attribute) and n.func.attr in ('append', 'extend', 'fill', 'sort', 'clear', 'update', 'setdefault', 'pop', 'insert'):
                base = n.func.value
                while isinstance(base, (ast.Attribute, ast.Subscript)):
                    base = base.value
                if isinstance(base, ast.Name) and (base.id == 'self' or base.id in params):
                    w.append(ast.unparse(n)[:50])
        return w

    def _local_names(fn):
        out = set()
        for n in ast.walk(fn):
            if isinstance(n, ast.Assign):
                for t in n.targets:
                    if isinstance(t, ast.Name):
                        out.add(t.id)
            if isinstance(n, ast.AnnAssign) and isinstance(n.target, ast.Name):
                out.add(n.target.id)
        return out
    for rel, cname, inner in plans:
        cls = find_class(parse(repo, rel), cname)
        calc = find_method(cls, 'Calculate')
        params = [a.arg for a in calc.args.args[1:]]
        ws = []
        for fn in reach(cls, 'Calculate'):
            ws += writes(fn, [a.arg for a in fn.args.args[1:]])
        if inner:
            icls = find_class(parse(repo, inner[0]), inner[1])
            for fn in reach(icls, 'Calculate'):
                ws += ['%s.%s: %s' % (inner[1], fn.name, x) for x in writes(fn, [a.arg for a in fn.args.args[1:]])]
        ws = [x for x in ws if x != 'functionValue.value']
        rows.append('(%s, %s)' % (cstr(cname), clist(map(cstr, ws))))
        r = [ast.unparse(n.value) for n in ast.walk(calc) if isinstance(n, ast.Return) and n.value is not None]
        rets.append('(%s, %s)' % (cstr(cname), clist(map(cstr, r))))
        hr = holder_reads(calc, params[1] if len(params) > 1 else 'functionValue')
        hreads += ['%s: %s' % (cname, x) for x in hr]
    return ['Definition calculate_extra_writes : list (string * list string) := %s.' % clist(rows),
            'Definition calculate_returns : list (string * list string) := %s.' % clist(rets),
            'Definition calculate_holder_reads : list string := %s.' % clist(map(cstr, hreads))]


def skeleton_facts(repo):
    """normalised statement skeletons of the driver methods the state-machine model mirrors"""
    out = []

    def skel(node, depth=0):
        rows = []
        for s in node:
            if isinstance(s, ast.Expr) and isinstance(s.value, ast.Constant):
                continue
            pre = '  ' * depth
            if isinstance(s, ast.If):
                rows.append(pre + 'if ' + ast.unparse(s.test) + ':')
                rows += skel(s.body, depth + 1)
                if s.orelse:
                    rows.append(pre + 'else:')
                    rows += skel(s.orelse, depth + 1)
            elif isinstance(s, ast.For):
                rows.append(pre + 'for ' + ast.unparse(s.target) + ' in ' + ast.unparse(s.iter) + ':')
                rows += skel(s.body, depth + 1)
            elif isinstance(s, ast.While):
                rows.append(pre + 'while ' + ast.unparse(s.test) + ':')
                rows += skel(s.body, depth + 1)
            elif isinstance(s, ast.Try):
                rows.append(pre + 'try:')
                rows += skel(s.body, depth + 1)
                for h in s.handlers:
                    rows.append(pre + 'except ' + (ast.unparse(h.type) if h.type else '') + ':')
                    rows += skel(h.body, depth + 1)
                if s.finalbody:
                    rows.append(pre + 'finally:')
                    rows += skel(s.finalbody, depth + 1)
            else:
                rows.append(pre + ' '.join(ast.unparse(s).split()))
        return rows
    targets = [('iOpt/method/process.py', 'Process', ['__init__', 'Solve', 'DoGlobalIteration', 'GetResults', 'problemCalculate']),
               ('iOpt/method/method.py', 'Method', ['__init__', 'FirstIteration', 'CheckStopCondition', 'RecalcAllCharacteristics',
                                                     'CalculateIterationPoint', 'CalculateFunctionals', 'CalculateM', 'RenewSearchData',
                                                     'UpdateOptimum', 'FinalizeIteration', 'CalculateNextPointCoordinate', 'CalculateGlobalR',
                                                     'CalculateDelta']),
               ('iOpt/method/search_data.py', 'SearchData', ['__init__', 'InsertDataItem', 'InsertFirstDataItem', 'GetDataItemWithMaxGlobalR',
                                                             'RefillQueue', 'ClearQueue', 'FindDataItemByOneDimensionalPoint', 'GetCount',
                                                             'GetLastItem', '__iter__', '__next__']),
               ('iOpt/method/search_data.py', 'CharacteristicsQueue', ['__init__', 'Clear', 'Insert', 'GetBestItem', 'IsEmpty', 'GetLen']),
               ('iOpt/method/optim_task.py', 'OptimizationTask', ['Calculate'])]
    for rel, cname, methods in targets:
        cls = find_class(parse(repo, rel), cname)
        have = [m.name for m in cls.body if isinstance(m, ast.FunctionDef)]
        for mn in methods:
            m = find_method(cls, mn)
            out.append('Definition sk_%s_%s : list string := %s.' % (cname, mn.strip('_') or 'x', clist(map(cstr, skel(m.body)))))
        prop_names = [m.name for m in cls.body if isinstance(m, ast.FunctionDef) and m.decorator_list]
        out.append('Definition methods_%s : list string := %s.' % (cname, clist(map(cstr, have))))
    return out


def translate(repo):
    parts = ['(* GENERATED by tools/translate/facts_tr.py from the iOpt sources - do not edit *)',
             'From Coq Require Import String List Bool.', 'Import ListNotations.', 'Open Scope string_scope.', '']
    for fn in (solver_facts, evolvent_copy_facts, refine_facts, mutable_default_facts, listener_facts, listener_write_facts, calculate_purity_facts, skeleton_facts):
        parts += fn(repo)
        parts.append('')
    return '\n'.join(parts)


if __name__ == '__main__':
    import sys
    print(translate(sys.argv[1] if len(sys.argv) > 1 else '/repo'))
