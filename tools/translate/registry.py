"""name of generated file (coq/gen/<name>.v) -> translator function(repo_path) -> Coq text. Raising = fail closed."""
from . import evolvent_tr, facts_tr, method_tr

TRANSLATORS = {
    'EvolventGen': evolvent_tr.translate,
    'SourceFacts': facts_tr.translate,
    'MethodGen': method_tr.translate,
}
