#!/usr/bin/env python3
"""Probe: fail-closed Python-ast -> Gallina translator for iOpt/evolvent/evolvent.py (numeric type Q).
Types: 'Q' (python float), 'Z' (python int used as value), 'nat' (index / count), 'LQ', 'LZ' (arrays)."""
import ast, sys

class Unsupported(Exception): pass

# self attributes and their types
SELF = {'numberOfFloatVariables': 'nat', 'evolventDensity': 'nat', 'nexpExtended': 'Q',
        'lowerBoundOfFloatVariables': 'LQ', 'upperBoundOfFloatVariables': 'LQ', 'yValues': 'LQ', 'nexpValue': 'Z'}
# local variable types per function (table-driven, fail-closed when a name is missing)
LOCALS = {
 '_Evolvent__CalculateNode': {'iis': 'Q', 'n': 'nat', 'u': 'LZ', 'v': 'LZ', 'iq': 'Z', 'n1': 'nat', 'l': 'nat',
                             'i': 'nat', 'iff': 'Q', 'k1': 'Z', 'k2': 'Z', 'j': 'Z'},
 '_Evolvent__CalculateNumbr': {'u': 'LZ', 'v': 'LZ', 'i': 'nat', 'k1': 'Z', 'k2': 'Z', 'l1': 'nat', 'l': 'nat',
                              'iis': 'Q', 'iff': 'Q', 's': 'Q'},
 '_Evolvent__GetYonX': {'_x': 'Q', 'iu': 'LZ', 'iv': 'LZ', 'l': 'nat', 'd': 'Q', 'r': 'Q', 'iw': 'LZ', 'it': 'nat',
                       'i': 'Z', 'j': 'nat', 'iis': 'Q', 'i_': 'nat'},
 '_Evolvent__GetXonY': {'x': 'Q', 'u': 'LZ', 'v': 'LZ', 'w': 'LZ', 'r': 'Q', 'i': 'Z', 'j': 'nat', 'it': 'nat',
                       'l': 'nat', 'r1': 'Q', 'iis': 'Q', 'i_': 'nat'},
 '_Evolvent__TransformP2D': {'i': 'nat'}, '_Evolvent__TransformD2P': {'i': 'nat'},
 '__init__': {'lowerBoundOfFloatVariables': 'LQ', 'upperBoundOfFloatVariables': 'LQ', 'numberOfFloatVariables': 'nat',
              'evolventDensity': 'nat', 'i': 'nat'},
 'SetBounds': {'lowerBoundOfFloatVariables': 'LQ', 'upperBoundOfFloatVariables': 'LQ'},
 'GetImage': {'x': 'Q'}, 'GetInverseImage': {'y': 'LQ', 'x': 'Q'}, 'GetPreimages': {'y': 'LQ', 'x': 'Q'},
}
DEFAULT = {'Q': '(0 # 1)', 'Z': '0%Z', 'nat': 'O', 'LQ': '([] : list Q)', 'LZ': '([] : list Z)'}
COQTY = {'Q': 'Q', 'Z': 'Z', 'nat': 'nat', 'LQ': 'list Q', 'LZ': 'list Z'}

def mangle(name): return name if (not name.startswith('__') or name.endswith('__')) else '_Evolvent' + name

class Fn:
    def __init__(self, node):
        self.node = node
        self.name = mangle(node.name)
        self.types = dict(LOCALS.get(self.name, {}))
        self.params = [a.arg for a in node.args.args[1:]]
        self.loopvar_as_value = set()
    # ---- analysis: which names / self attrs are assigned
    def assigned(self, stmts):
        out = []
        def add(n):
            if n not in out: out.append(n)
        for st in stmts:
            for n in ast.walk(st):
                if isinstance(n, (ast.Assign, ast.AugAssign, ast.AnnAssign)):
                    tgts = n.targets if isinstance(n, ast.Assign) else [n.target]
                    if isinstance(n, ast.AnnAssign) and n.value is None: continue
                    for t in tgts:
                        for e in (t.elts if isinstance(t, ast.Tuple) else [t]):
                            add(self.lhs_name(e))
                elif isinstance(n, ast.For):
                    add(n.target.id)
                elif isinstance(n, ast.Call) and isinstance(n.func, ast.Attribute) and isinstance(n.func.value, ast.Name) \
                        and n.func.value.id == 'self' and mangle(n.func.attr) in FUNCS:
                    callee = FUNCS[mangle(n.func.attr)]
                    for a in callee.self_written: add('self.' + a)
                    for p, arg in zip(callee.params, n.args):
                        if p in callee.mut_params and isinstance(arg, ast.Name): add(arg.id)
        return out
    def lhs_name(self, e):
        if isinstance(e, ast.Name): return e.id
        if isinstance(e, ast.Attribute) and isinstance(e.value, ast.Name) and e.value.id == 'self': return 'self.' + e.attr
        if isinstance(e, ast.Subscript): return self.lhs_name(e.value)
        raise Unsupported('lhs ' + ast.dump(e))
    def ty(self, name):
        if name.startswith('self.'):
            if name[5:] not in SELF: raise Unsupported('self attr ' + name)
            return SELF[name[5:]]
        if name not in self.types: raise Unsupported(f'untyped variable {name} in {self.name}')
        return self.types[name]
    def v(self, name): return name.replace('self.', 'self_')

FUNCS = {}

# ---------------- expressions ----------------
def coerce(code, frm, to):
    if frm == to: return code
    if frm == 'lit':  # integer literal
        n = int(code)
        return {'Q': f'({n} # 1)' if n >= 0 else f'(({n}) # 1)', 'Z': f'({n})%Z', 'nat': f'{n}%nat'}[to]
    if (frm, to) == ('Z', 'Q'): return f'(inject_Z {code})'
    if (frm, to) == ('nat', 'Z'): return f'(Z.of_nat {code})'
    if (frm, to) == ('nat', 'Q'): return f'(inject_Z (Z.of_nat {code}))'
    if (frm, to) == ('Z', 'nat'): return f'(Z.to_nat {code})'
    raise Unsupported(f'coerce {frm}->{to}: {code}')

def join(t1, t2):
    order = ['lit', 'nat', 'Z', 'Q']
    if t1 in order and t2 in order: return order[max(order.index(t1), order.index(t2))]
    raise Unsupported(f'join {t1} {t2}')

def expr(f, e, want=None):
    code, t = expr_(f, e)
    if want is None:
        if t == 'lit': return coerce(code, 'lit', 'Z'), 'Z'
        return code, t
    return coerce(code, t, want), want

def expr_(f, e):
    if isinstance(e, ast.Constant):
        if isinstance(e.value, bool): raise Unsupported('bool const')
        if isinstance(e.value, int): return str(e.value), 'lit'
        if isinstance(e.value, float):
            from fractions import Fraction
            fr = Fraction(e.value)   # exact binary64 value
            return f'({fr.numerator} # {fr.denominator})', 'Q'
        raise Unsupported('const')
    if isinstance(e, ast.Name):
        return f.v(e.id), f.ty(e.id)
    if isinstance(e, ast.Attribute) and isinstance(e.value, ast.Name) and e.value.id == 'self':
        return f.v('self.' + e.attr), f.ty('self.' + e.attr)
    if isinstance(e, ast.UnaryOp) and isinstance(e.op, ast.USub):
        c, t = expr_(f, e.operand)
        if t == 'lit': return str(-int(c)), 'lit'
        if t == 'nat': c, t = coerce(c, 'nat', 'Z'), 'Z'
        return (f'(Z.opp {c})' if t == 'Z' else f'(Qopp {c})'), t
    if isinstance(e, ast.BinOp):
        (a, ta), (b, tb) = expr_(f, e.left), expr_(f, e.right)
        t = join(ta, tb)
        if isinstance(e.op, ast.Div): t = 'Q'
        if t == 'lit': t = 'Z'
        if t == 'nat' and isinstance(e.op, ast.Sub): pass  # python ints may go negative; table says nat only where safe
        a, b = coerce(a, ta, t), coerce(b, tb, t)
        ops = {'Q': {ast.Add: 'Qplus', ast.Sub: 'Qminus', ast.Mult: 'Qmult', ast.Div: 'Qdiv'},
               'Z': {ast.Add: 'Z.add', ast.Sub: 'Z.sub', ast.Mult: 'Z.mul'},
               'nat': {ast.Add: 'Nat.add', ast.Sub: 'Nat.sub', ast.Mult: 'Nat.mul'}}[t]
        if type(e.op) not in ops: raise Unsupported('binop ' + ast.dump(e.op))
        c = f'({ops[type(e.op)]} {a} {b})'
        return (f'(Qred {c})' if t == 'Q' else c), t
    if isinstance(e, ast.Subscript):
        a, ta = expr_(f, e.value)
        i, _ = expr(f, e.slice, 'nat')
        if ta == 'LQ': return f'(nthQ {a} {i})', 'Q'
        if ta == 'LZ': return f'(nthZ {a} {i})', 'Z'
        raise Unsupported('subscript of ' + ta)
    if isinstance(e, ast.Call):
        fn = ast.unparse(e.func)
        if fn == 'int' and len(e.args) == 1:
            a, _ = expr(f, e.args[0], 'Q'); return f'(Qfloor {a})', 'Z'
        if fn in ('min', 'max') and len(e.args) == 2 and not e.keywords:      # python min/max of two floats (first argument wins ties)
            a, _ = expr(f, e.args[0], 'Q'); b, _ = expr(f, e.args[1], 'Q')
            return f'({"Qpymin" if fn == "min" else "Qpymax"} {a} {b})', 'Q'
        if fn == 'float' and len(e.args) == 1 and not e.keywords:      # float(x) of a float: the same number (a fresh, immutable object)
            a, _ = expr(f, e.args[0], 'Q'); return a, 'Q'
        if fn == 'np.copy' and len(e.args) == 1: return expr_(f, e.args[0])
        if fn == 'np.array' and len(e.args) == 1 and [ast.unparse(k.value) for k in e.keywords if k.arg == 'dtype'] == ['np.double'] \
                and len(e.keywords) == 1:
            c, t = expr_(f, e.args[0])
            if t != 'LQ': raise Unsupported('np.array of non-float array')
            return c, t
        if fn in ('np.zeros', 'np.ones'):
            n, _ = expr(f, e.args[0], 'nat')
            dt = next((ast.unparse(k.value) for k in e.keywords if k.arg == 'dtype'), None)
            one = fn == 'np.ones'
            if dt == 'np.double': return f'(repeat ({1 if one else 0} # 1) {n})', 'LQ'
            if dt == 'np.int32': return f'(repeat ({1 if one else 0})%Z {n})', 'LZ'
            raise Unsupported('dtype ' + str(dt))
        raise Unsupported('call in expression: ' + fn)
    raise Unsupported('expr ' + ast.dump(e))

def cond(f, e):
    if isinstance(e, ast.BoolOp):
        op = '&&' if isinstance(e.op, ast.And) else '||'
        return '(' + f' {op} '.join(cond(f, x) for x in e.values) + ')'
    if isinstance(e, ast.UnaryOp) and isinstance(e.op, ast.Not): return f'(negb {cond(f, e.operand)})'
    if isinstance(e, ast.Call) and ast.unparse(e.func) == 'math.isclose' and len(e.args) == 2 and not e.keywords:
        a, _ = expr(f, e.args[0], 'Q'); b, _ = expr(f, e.args[1], 'Q')
        return f'(isclose {a} {b})'
    if isinstance(e, ast.Compare) and len(e.ops) == 1:
        (a, ta), (b, tb) = expr_(f, e.left), expr_(f, e.comparators[0])
        t = join(ta, tb); t = 'Z' if t == 'lit' else t
        a, b = coerce(a, ta, t), coerce(b, tb, t)
        tab = {'Q': {ast.Lt: 'Qltb {a} {b}', ast.GtE: 'Qle_bool {b} {a}', ast.LtE: 'Qle_bool {a} {b}', ast.Gt: 'Qltb {b} {a}', ast.Eq: 'Qeq_bool {a} {b}'},
               'Z': {ast.Lt: 'Z.ltb {a} {b}', ast.GtE: 'Z.leb {b} {a}', ast.LtE: 'Z.leb {a} {b}', ast.Gt: 'Z.ltb {b} {a}', ast.Eq: 'Z.eqb {a} {b}'},
               'nat': {ast.Lt: 'Nat.ltb {a} {b}', ast.GtE: 'Nat.leb {b} {a}', ast.LtE: 'Nat.leb {a} {b}', ast.Gt: 'Nat.ltb {b} {a}', ast.Eq: 'Nat.eqb {a} {b}'}}[t]
        if type(e.ops[0]) not in tab: raise Unsupported('cmp')
        return '(' + tab[type(e.ops[0])].format(a=a, b=b) + ')'
    raise Unsupported('cond ' + ast.dump(e))

# ---------------- statements ----------------
def tup(names): return names[0] if len(names) == 1 else '(' + ', '.join(names) + ')'
def pat(names): return names[0] if len(names) == 1 else "'(" + ', '.join(names) + ')'

def assign_to(f, target, code_of_type):
    """returns 'let <var> := ... in' for a Name/Attribute/Subscript target; code_of_type(ty)->code"""
    if isinstance(target, ast.Subscript):
        base = f.lhs_name(target.value); tb = f.ty(base)
        if not isinstance(target.value, (ast.Name, ast.Attribute)): raise Unsupported('nested subscript store')
        i, _ = expr(f, target.slice, 'nat')
        elt = {'LQ': 'Q', 'LZ': 'Z'}[tb]
        return f'let {f.v(base)} := upd {f.v(base)} {i} {code_of_type(elt)} in'
    name = f.lhs_name(target)
    return f'let {f.v(name)} := {code_of_type(f.ty(name))} in'

def stmts(f, body, live, ind):
    """translate a statement list into let-chain text ending with nothing; caller appends the result tuple."""
    out = []
    P = '  ' * ind
    for st in body:
        if isinstance(st, ast.Expr) and isinstance(st.value, ast.Constant): continue       # docstring
        if isinstance(st, ast.AnnAssign):
            if st.value is None: continue
            st = ast.Assign(targets=[st.target], value=st.value)
        if isinstance(st, ast.Assign):
            if len(st.targets) != 1: raise Unsupported('multi-target assign')
            t = st.targets[0]
            # call to sibling method
            if isinstance(st.value, ast.Call) and ast.unparse(st.value.func).startswith('self.'):
                out.append(P + call_stmt(f, st.value, t)); continue
            if isinstance(t, ast.Tuple): raise Unsupported('tuple assign of non-call')
            out.append(P + assign_to(f, t, lambda ty: expr(f, st.value, ty)[0])); continue
        if isinstance(st, ast.AugAssign):
            bo = ast.BinOp(left=st.target, op=st.op, right=st.value)
            out.append(P + assign_to(f, st.target, lambda ty: expr(f, bo, ty)[0])); continue
        if isinstance(st, ast.Expr) and isinstance(st.value, ast.Call) and ast.unparse(st.value.func).startswith('self.'):
            out.append(P + call_stmt(f, st.value, None)); continue
        if isinstance(st, ast.If):
            asg = f.assigned([st])
            vs = [f.v(n) for n in asg]
            a = stmts(f, st.body, live, ind + 1); b = stmts(f, st.orelse, live, ind + 1)
            out.append(P + f'let {pat(vs)} := if {cond(f, st.test)} then\n' + '\n'.join(a) + ('\n' if a else '') + P + '  ' + tup(vs)
                       + '\n' + P + 'else\n' + '\n'.join(b) + ('\n' if b else '') + P + '  ' + tup(vs) + ' in')
            continue
        if isinstance(st, ast.For):
            if not (isinstance(st.iter, ast.Call) and ast.unparse(st.iter.func) == 'range' and not st.orelse):
                raise Unsupported('for over non-range')
            args = st.iter.args
            if len(args) == 1: lo, hi = '0%nat', expr(f, args[0], 'nat')[0]
            elif len(args) == 2: lo, hi = expr(f, args[0], 'nat')[0], expr(f, args[1], 'nat')[0]
            else: raise Unsupported('range step')
            lv = st.target.id
            asg = [n for n in f.assigned(st.body) if n != lv]
            vs = [f.v(n) for n in asg]
            # loop variable: python ints; typed by table; body sees it at its table type
            lvt = f.ty(lv)
            bind = {'nat': lv, 'Z': f'(Z.of_nat {lv}_n)'}[lvt]
            b = stmts(f, st.body, live, ind + 2)
            header = f'fun {pat(vs)} {lv if lvt == "nat" else lv + "_n"} =>'
            pre = '' if lvt == 'nat' else P + f'    let {lv} := {bind} in\n'
            out.append(P + f'let {pat(vs)} := fold_left ({header}\n' + pre + '\n'.join(b) + ('\n' if b else '') + P + '    ' + tup(vs)
                       + f')\n{P}  (seq {lo} ({hi} - {lo})) {tup(vs)} in')
            # after the loop python leaves the loop variable at its last value
            last = f'(Nat.pred {hi})'
            if lv in live:
                out.append(P + f'let {lv} := ' + ({'nat': last, 'Z': f'(Z.of_nat {last})'}[lvt]) + ' in')
            continue
        if isinstance(st, ast.Return):
            out.append(('RETURN', st)); continue
        raise Unsupported('statement ' + type(st).__name__)
    return out

def call_stmt(f, call, target):
    callee = FUNCS.get(mangle(call.func.attr))
    if callee is None: raise Unsupported('unknown method ' + call.func.attr)
    args = [expr(f, a, callee.ty(p))[0] for p, a in zip(callee.params, call.args)]
    rets = []
    if target is not None:
        for e in (target.elts if isinstance(target, ast.Tuple) else [target]): rets.append(f.v(f.lhs_name(e)))
    else:
        rets += ['_'] * callee.nret
    muts = [f.v(a.id) for p, a in zip(callee.params, call.args) if p in callee.mut_params]
    selfw = [f.v('self.' + a) for a in callee.self_written]
    outs = rets + muts + selfw
    seen = set(); outs2 = []
    for o in outs:
        if o != '_' and o in seen: outs2.append('_')
        else: outs2.append(o); seen.add(o)
    outs = outs2
    selfargs = ' '.join(f.v('self.' + a) for a in SELF)
    return f'let {pat(outs)} := gen{callee.name} {selfargs} {" ".join(args)} in'

def translate_function(f):
    node = f.node
    # early-return style "if N == 1: ...; return X" is supported only as a guarded prefix
    body = list(node.body)
    text = []
    asg_all = f.assigned(body)
    f.self_written = [a for a in SELF if 'self.' + a in asg_all]
    f.mut_params = [p for p in f.params if p in asg_all and f.ty(p) in ('LQ', 'LZ')]
    rets = [n for n in ast.walk(node) if isinstance(n, ast.Return)]
    last = body[-1] if isinstance(body[-1], ast.Return) else None
    # result expression(s)
    def ret_tuple(r):
        vals = []
        if r is not None and r.value is not None:
            for e in (r.value.elts if isinstance(r.value, ast.Tuple) else [r.value]):
                c, t = expr(f, e); vals.append(c)
        vals += [f.v(p) for p in f.mut_params] + [f.v('self.' + a) for a in f.self_written]
        return tup(vals) if vals else 'tt'
    f.nret = 0
    if last is not None and last.value is not None:
        f.nret = len(last.value.elts) if isinstance(last.value, ast.Tuple) else 1
    live = {n.id for n in ast.walk(node) if isinstance(n, ast.Name) and isinstance(n.ctx, ast.Load)}
    # locals needing initialisation (assigned somewhere, not params)
    locs = [n for n in asg_all if not n.startswith('self.') and n not in f.params]
    lines = []
    for n in locs: lines.append(f'  let {n} := {DEFAULT[f.ty(n)]} in')
    def emit(stlist, ind):
        res = []
        seq_ = stmts(f, stlist, live, ind)
        for k, item in enumerate(seq_):
            if isinstance(item, tuple):
                if k != len(seq_) - 1: raise Unsupported('return not last in block')
                res.append('  ' * ind + ret_tuple(item[1])); return res, True
            res.append(item)
        return res, False
    # guarded prefix: `if c: ...; return` at top level
    out_lines = []
    i = 0
    closers = 0
    while i < len(body):
        st = body[i]
        if isinstance(st, ast.If) and any(isinstance(x, ast.Return) for x in st.body) and not st.orelse:
            inner, ended = emit(st.body, 2)
            if not ended: raise Unsupported('guard without return')
            out_lines.append(f'  if {cond(f, st.test)} then\n' + '\n'.join(inner) + '\n  else')
            i += 1; continue
        chunk = []
        while i < len(body) and not (isinstance(body[i], ast.If) and any(isinstance(x, ast.Return) for x in body[i].body) and not body[i].orelse):
            chunk.append(body[i]); i += 1
        inner, ended = emit(chunk, 1)
        out_lines += inner
        if not ended and i >= len(body): out_lines.append('  ' + ret_tuple(None))
    selfparams = ' '.join(f'({f.v("self." + a)} : {COQTY[SELF[a]]})' for a in SELF)
    params = ' '.join(f'({p} : {COQTY[f.ty(p)]})' for p in f.params)
    return f'Definition gen{f.name} {selfparams} {params} :=\n' + '\n'.join(lines + out_lines) + '.\n'

PRELUDE = r'''(* GENERATED by evtr.py from iOpt/evolvent/evolvent.py -- do not edit *)
From Coq Require Import ZArith QArith Qround Qabs List Bool.
Import ListNotations.
Open Scope Q_scope.
Fixpoint upd {A} (l : list A) (i : nat) (a : A) : list A :=
  match l, i with [], _ => [] | _ :: t, O => a :: t | h :: t, S i => h :: upd t i a end.
Definition nthQ (l : list Q) (i : nat) : Q := nth i l 0.
Definition nthZ (l : list Z) (i : nat) : Z := nth i l 0%Z.
Definition Qltb (a b : Q) : bool := negb (Qle_bool b a).
Definition Qmax (a b : Q) := if Qle_bool a b then b else a.
(* python min(a, b) / max(a, b): the first argument is kept unless the second is strictly smaller / larger *)
Definition Qpymin (a b : Q) : Q := if Qltb b a then b else a.
Definition Qpymax (a b : Q) : Q := if Qltb a b then b else a.
(* math.isclose(a, b) with rel_tol = 1e-09, abs_tol = 0.0 *)
Definition isclose (a b : Q) : bool :=
  Qeq_bool a b || Qle_bool (Qabs (a - b)) (Qmax ((1 # 1000000000) * Qabs b) ((1 # 1000000000) * Qabs a)).
'''

def translate(repo):
    FUNCS.clear()
    tree = ast.parse(open(repo + '/iOpt/evolvent/evolvent.py').read())
    cls = next(n for n in tree.body if isinstance(n, ast.ClassDef) and n.name == 'Evolvent')
    order = ['__init__', 'SetBounds', '_Evolvent__CalculateNode', '_Evolvent__CalculateNumbr', '_Evolvent__TransformP2D', '_Evolvent__TransformD2P',
             '_Evolvent__GetYonX', '_Evolvent__GetXonY', 'GetImage', 'GetInverseImage', 'GetPreimages']
    fns = {mangle(n.name): n for n in cls.body if isinstance(n, ast.FunctionDef)}
    extra = set(fns) - set(order)
    if extra: raise Unsupported('unexpected methods: ' + str(extra))
    out = [PRELUDE]
    for name in order:
        f = Fn(fns[name]); FUNCS[name] = f
        out.append(translate_function(f))
    out.append(wrappers())
    return '\n'.join(out)

def wrappers():
    """object-level interface over the generated functions: a record for `self`, constructor and the public queries"""
    fld = {'numberOfFloatVariables': 'eN', 'evolventDensity': 'em', 'nexpExtended': 'enexp', 'lowerBoundOfFloatVariables': 'elo',
           'upperBoundOfFloatVariables': 'ehi', 'yValues': 'ey', 'nexpValue': 'enexpValue'}
    L = ['Record eobj := { ' + '; '.join('%s : %s' % (fld[a], COQTY[SELF[a]]) for a in SELF) + ' }.']
    def fields(o): return ' '.join('(%s %s)' % (fld[a], o) for a in SELF)
    def rebuild(o, written):
        return '{| ' + '; '.join('%s := %s' % (fld[a], ('w_' + a) if a in written else '%s %s' % (fld[a], o)) for a in SELF) + ' |}'
    init = FUNCS['__init__']
    if set(init.self_written) != set(SELF): raise Unsupported('__init__ does not initialise all modelled attributes: ' + str(init.self_written))
    defaults = ' '.join(DEFAULT[SELF[a]] for a in SELF)
    L.append("Definition gen_new (lo hi : list Q) (N m : nat) : eobj :=\n  let %s := gen__init__ %s lo hi N m in %s." %
             (pat(['w_' + a for a in init.self_written]), defaults, rebuild('o', init.self_written).replace(' o', '')))
    def wrap(name, fn, argdecl, args, has_result):
        f = FUNCS[fn]
        outs = (['res'] if has_result else []) + ['w_' + a for a in f.self_written]
        if f.mut_params: raise Unsupported(fn + ' mutates a parameter array: ' + str(f.mut_params))
        body = "let %s := gen%s %s %s in (%s%s)" % (pat(outs) if outs else '_', f.name, fields('o'), args,
                                                    'res, ' if has_result else '', rebuild('o', f.self_written))
        L.append("Definition %s (o : eobj) %s :=\n  %s." % (name, argdecl, body))
    wrap('gen_setbounds', 'SetBounds', '(lo hi : list Q)', 'lo hi', False)
    wrap('gen_image', 'GetImage', '(x : Q)', 'x', True)
    wrap('gen_inverse', 'GetInverseImage', '(y : list Q)', 'y', True)
    wrap('gen_preimages', 'GetPreimages', '(y : list Q)', 'y', True)
    wrap('gen_node', '_Evolvent__CalculateNode', '(iis : Q) (n : nat) (u v : list Z)', 'iis n u v', True) if False else None
    return '\n'.join(L) + '\n'

if __name__ == '__main__':
    try: print(translate(sys.argv[1] if len(sys.argv) > 1 else '/repo'))
    except Unsupported as e:
        print('(* TRANSLATION FAILED: %s *)' % e); sys.exit(2)
