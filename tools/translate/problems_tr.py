"""Symbolic partial evaluation of the benchmark problems' Calculate methods and tables (read as text through `ast`,
never imported) into closed-form real expressions in Coq syntax, one per problem instance.

    instance_expr(repo, family, params) -> (expr over x0..x{n-1}, n, lower, upper, declared_point, declared_value)

Numbers are emitted as the shortest decimal that round-trips the binary64 the source literal denotes (repr(float)),
which for these tables is the literal as written. Fail-closed: any construct outside the small evaluator raises."""
import ast
import math
import os


class Unsupported(Exception):
    pass


_cache = {}


def _parse(path):
    if path not in _cache:
        _cache[path] = ast.parse(open(path).read())
    return _cache[path]


def load_tables(repo, rel):
    """module-level `name = np.array([...], dtype=...)` / scalars of a generation module -> python lists / numbers"""
    key = ('tables', repo, rel)
    if key in _cache:
        return _cache[key]
    tree = _parse(os.path.join(repo, rel))
    out = {}
    for n in tree.body:
        if isinstance(n, ast.Assign) and len(n.targets) == 1 and isinstance(n.targets[0], ast.Name):
            v = n.value
            if isinstance(v, ast.Call) and ast.unparse(v.func) == 'np.array':
                out[n.targets[0].id] = ast.literal_eval(v.args[0])
            elif isinstance(v, ast.Constant):
                out[n.targets[0].id] = v.value
        elif isinstance(n, (ast.Import, ast.ImportFrom)):
            continue
        else:
            raise Unsupported('%s: unexpected module-level statement %s' % (rel, ast.unparse(n)[:40]))
    _cache[key] = out
    return out


class Sym:
    """symbolic real expression: a tree (op, args...) with ops num var pi add sub mul div neg pow sin cos exp sqrt"""
    def __init__(self, t):
        self.t = t

    @property
    def s(self):
        return to_coq(self.t)


def to_coq(t):
    op = t[0]
    if op == 'num':
        return num(t[1])
    if op == 'var':
        return 'x%d' % t[1]
    if op == 'pi':
        return 'PI'
    if op in ('add', 'sub', 'mul', 'div'):
        return '(%s %s %s)' % (to_coq(t[1]), {'add': '+', 'sub': '-', 'mul': '*', 'div': '/'}[op], to_coq(t[2]))
    if op == 'neg':
        return '(- %s)' % to_coq(t[1])
    if op == 'pow':
        return '(%s ^ %d)' % (to_coq(t[1]), t[2])
    return '(%s %s)' % (op, to_coq(t[1]))


def evaluate(t, xs):
    """numeric value of the expression at the point xs (python floats, same operation order as the source)"""
    op = t[0]
    if op == 'num':
        return t[1]
    if op == 'var':
        return xs[t[1]]
    if op == 'pi':
        return math.pi
    if op == 'add':
        return evaluate(t[1], xs) + evaluate(t[2], xs)
    if op == 'sub':
        return evaluate(t[1], xs) - evaluate(t[2], xs)
    if op == 'mul':
        return evaluate(t[1], xs) * evaluate(t[2], xs)
    if op == 'div':
        return evaluate(t[1], xs) / evaluate(t[2], xs)
    if op == 'neg':
        return -evaluate(t[1], xs)
    if op == 'pow':
        return pow(evaluate(t[1], xs), t[2])
    return getattr(math, op)(evaluate(t[1], xs))


def deriv(t, v):
    """symbolic partial derivative with respect to variable v (no simplification beyond dropping zeros)"""
    Z = ('num', 0)
    op = t[0]

    def mul(a, b):
        if a == Z or b == Z:
            return Z
        if a == ('num', 1):
            return b
        if b == ('num', 1):
            return a
        return ('mul', a, b)

    def add(a, b):
        return b if a == Z else (a if b == Z else ('add', a, b))

    def sub(a, b):
        return a if b == Z else (('neg', b) if a == Z else ('sub', a, b))
    if op in ('num', 'pi'):
        return Z
    if op == 'var':
        return ('num', 1) if t[1] == v else Z
    if op == 'add':
        return add(deriv(t[1], v), deriv(t[2], v))
    if op == 'sub':
        return sub(deriv(t[1], v), deriv(t[2], v))
    if op == 'neg':
        d = deriv(t[1], v)
        return Z if d == Z else ('neg', d)
    if op == 'mul':
        return add(mul(deriv(t[1], v), t[2]), mul(t[1], deriv(t[2], v)))
    if op == 'div':
        da, db = deriv(t[1], v), deriv(t[2], v)
        if db == Z:
            return Z if da == Z else ('div', da, t[2])
        return ('div', sub(mul(da, t[2]), mul(t[1], db)), ('mul', t[2], t[2]))
    if op == 'pow':
        d = deriv(t[1], v)
        if d == Z or t[2] == 0:
            return Z
        return mul(mul(('num', t[2]), ('pow', t[1], t[2] - 1) if t[2] > 1 else ('num', 1)), d)
    d = deriv(t[1], v)
    if d == Z:
        return Z
    if op == 'sin':
        return mul(('cos', t[1]), d)
    if op == 'cos':
        return ('neg', mul(('sin', t[1]), d))
    if op == 'exp':
        return mul(('exp', t[1]), d)
    if op == 'sqrt':
        return ('div', d, ('mul', ('num', 2), ('sqrt', t[1])))
    raise Unsupported('derivative of ' + op)


def num(v):
    if isinstance(v, bool):
        raise Unsupported('bool as number')
    if isinstance(v, int):
        return '%d' % v if v >= 0 else '(%d)' % v
    r = repr(float(v))
    if 'e' in r or 'inf' in r or 'nan' in r:
        from fractions import Fraction
        f = Fraction(float(v))
        return '(%d / %d)' % (f.numerator, f.denominator)
    return r if v >= 0 else '(%s)' % r


def tree(v):
    return v.t if isinstance(v, Sym) else ('num', v)


def lift(v):
    return v.s if isinstance(v, Sym) else num(v)


def binop(op, a, b):
    if not isinstance(a, Sym) and not isinstance(b, Sym):
        if isinstance(op, ast.Add): return a + b
        if isinstance(op, ast.Sub): return a - b
        if isinstance(op, ast.Mult): return a * b
        if isinstance(op, ast.Div): return a / b
        raise Unsupported('numeric op')
    name = {ast.Add: 'add', ast.Sub: 'sub', ast.Mult: 'mul', ast.Div: 'div'}.get(type(op))
    if name is None:
        raise Unsupported('operator ' + type(op).__name__)
    return Sym((name, tree(a), tree(b)))


class Evaluator:
    def __init__(self, env, tables):
        self.env = dict(env)          # name -> number | Sym | list
        self.tables = tables          # module alias -> dict
        self.ret = None

    def ev(self, e):
        if isinstance(e, ast.Constant):
            if isinstance(e.value, (int, float)) and not isinstance(e.value, bool):
                return e.value
            raise Unsupported('constant %r' % (e.value,))
        if isinstance(e, ast.Name):
            if e.id in self.env:
                return self.env[e.id]
            raise Unsupported('name ' + e.id)
        if isinstance(e, ast.Attribute):
            s = ast.unparse(e)
            if s == 'math.pi':
                return Sym(('pi',))
            if s in self.env:
                return self.env[s]
            if isinstance(e.value, ast.Name) and e.value.id in self.tables and e.attr in self.tables[e.value.id]:
                return self.tables[e.value.id][e.attr]
            raise Unsupported('attribute ' + s)
        if isinstance(e, ast.Subscript):
            s = ast.unparse(e.value)
            if s == 'point.floatVariables':
                i = self.ev(e.slice)
                if not isinstance(i, int):
                    raise Unsupported('symbolic index')
                return Sym(('var', i))
            base = self.ev(e.value)
            i = self.ev(e.slice)
            if isinstance(base, (list, tuple)) and isinstance(i, int):
                return base[i]
            raise Unsupported('subscript ' + ast.unparse(e))
        if isinstance(e, ast.UnaryOp) and isinstance(e.op, ast.USub):
            v = self.ev(e.operand)
            return Sym(('neg', v.t)) if isinstance(v, Sym) else -v
        if isinstance(e, ast.BinOp):
            return binop(e.op, self.ev(e.left), self.ev(e.right))
        if isinstance(e, ast.Call):
            fn = ast.unparse(e.func)
            args = [self.ev(a) for a in e.args]
            if fn in ('math.sin', 'math.cos', 'math.exp', 'np.sin', 'np.cos', 'math.sqrt', 'np.sqrt'):
                name = fn.split('.')[1]
                if not isinstance(args[0], Sym):
                    return getattr(math, name)(args[0])
                return Sym((name, args[0].t))
            if fn == 'np.double' and len(args) == 1:
                return args[0]
            if fn == 'pow' and len(args) == 2:
                k = args[1]
                if isinstance(k, float) and k == int(k):
                    k = int(k)
                if isinstance(k, int) and 0 <= k <= 8:
                    if not isinstance(args[0], Sym):
                        return args[0] ** k
                    return Sym(('pow', args[0].t, k))
                raise Unsupported('pow exponent %r' % (k,))
            if fn == 'range':
                return range(*args)
            raise Unsupported('call ' + fn)
        raise Unsupported('expression ' + ast.unparse(e)[:60])

    def test(self, e):
        if isinstance(e, ast.Compare) and len(e.ops) == 1:
            s = ' '.join(ast.unparse(e).split())
            if s in self.env:
                return self.env[s]
            a, b = self.ev(e.left), self.ev(e.comparators[0])
            if isinstance(a, Sym) or isinstance(b, Sym):
                raise Unsupported('symbolic condition ' + s)
            return {ast.Eq: a == b, ast.Lt: a < b, ast.Gt: a > b, ast.LtE: a <= b, ast.GtE: a >= b, ast.NotEq: a != b}[type(e.ops[0])]
        raise Unsupported('condition ' + ast.unparse(e))

    def run(self, body):
        for st in body:
            if self.ret is not None:
                return
            if isinstance(st, ast.Expr) and isinstance(st.value, ast.Constant):
                continue
            if isinstance(st, ast.AnnAssign):
                st = ast.Assign(targets=[st.target], value=st.value)
            if isinstance(st, ast.Assign):
                t = st.targets[0]
                v = self.ev(st.value)
                if isinstance(t, ast.Name):
                    self.env[t.id] = v
                elif ast.unparse(t) == 'functionValue.value':
                    self.env['functionValue.value'] = v
                else:
                    raise Unsupported('assignment to ' + ast.unparse(t))
            elif isinstance(st, ast.AugAssign) and isinstance(st.target, ast.Name):
                self.env[st.target.id] = binop(st.op, self.env[st.target.id], self.ev(st.value))
            elif isinstance(st, ast.For):
                it = self.ev(st.iter)
                if not isinstance(it, range):
                    raise Unsupported('for over non-range')
                for i in it:
                    self.env[st.target.id] = i
                    self.run(st.body)
            elif isinstance(st, ast.If):
                self.run(st.body if self.test(st.test) else st.orelse)
            elif isinstance(st, ast.Return):
                if ast.unparse(st.value) != 'functionValue':
                    raise Unsupported('Calculate must return the supplied holder')
                self.ret = self.env.get('functionValue.value')
                if self.ret is None:
                    raise Unsupported('value not stored in the holder')
            else:
                raise Unsupported('statement ' + ast.unparse(st)[:60])


FAMILIES = {
    'Hill': ('iOpt/problems/hill.py', 'Hill', {'hillGen': 'iOpt/problems/Hill/hill_generation.py'}),
    'Shekel': ('iOpt/problems/shekel.py', 'Shekel', {'shekelGen': 'iOpt/problems/Shekel/shekel_generation.py'}),
    'Shekel4': ('iOpt/problems/shekel4.py', 'Shekel4', {'shekelGen': 'iOpt/problems/Shekel4/shekel4_generation.py'}),
    'Rastrigin': ('iOpt/problems/rastrigin.py', 'Rastrigin', {}),
    'XSquared': ('iOpt/problems/xsquared.py', 'XSquared', {}),
    'StronginC3': ('iOpt/problems/stronginC3.py', 'StronginC3', {}),
}


def _class(repo, rel, cname):
    tree = _parse(os.path.join(repo, rel))
    cls = next(n for n in tree.body if isinstance(n, ast.ClassDef) and n.name == cname)
    return cls


def calculate_expr(repo, family, env):
    """closed-form expression of Calculate for the instance described by env (self.fn / self.dimension ...)"""
    rel, cname, mods = FAMILIES[family]
    cls = _class(repo, rel, cname)
    fn = next(n for n in cls.body if isinstance(n, ast.FunctionDef) and n.name == 'Calculate')
    # write-set check (C15): nothing but locals and functionValue.value may be assigned
    for n in ast.walk(fn):
        tg = n.targets if isinstance(n, ast.Assign) else ([n.target] if isinstance(n, (ast.AugAssign, ast.AnnAssign)) else [])
        for t in tg:
            s = ast.unparse(t)
            if not (isinstance(t, ast.Name) or s == 'functionValue.value'):
                raise Unsupported('%s.Calculate writes to %s' % (cname, s))
        if isinstance(n, (ast.Global, ast.Nonlocal)):
            raise Unsupported('global in Calculate')
    tables = {alias: load_tables(repo, path) for alias, path in mods.items()}
    ev = Evaluator(env, tables)
    ev.run(fn.body)
    if ev.ret is None:
        raise Unsupported('no return')
    return tree(ev.ret)


def init_facts(repo, family):
    """dimension / bounds / optimum expressions of __init__ as source text (for the metadata statements)"""
    rel, cname, mods = FAMILIES[family]
    cls = _class(repo, rel, cname)
    init = next(n for n in cls.body if isinstance(n, ast.FunctionDef) and n.name == '__init__')
    facts = {}
    for n in ast.walk(init):
        if isinstance(n, ast.Assign):
            facts.setdefault(ast.unparse(n.targets[0]), []).append(' '.join(ast.unparse(n.value).split()))
        if isinstance(n, ast.AnnAssign) and n.value is not None:
            facts.setdefault(ast.unparse(n.target), []).append(' '.join(ast.unparse(n.value).split()))
        if isinstance(n, ast.Expr) and isinstance(n.value, ast.Call) and isinstance(n.value.func, ast.Attribute) and n.value.func.attr == 'fill':
            facts.setdefault(ast.unparse(n.value.func.value) + '.fill', []).append(ast.unparse(n.value.args[0]))
    return facts


def instance(repo, family, k=None, dim=None):
    """(expr, n, lower, upper, declared point, declared value | None) for one instance, everything read from the source text"""
    rel, cname, mods = FAMILIES[family]
    f = init_facts(repo, family)
    tables = {alias: load_tables(repo, path) for alias, path in mods.items()}
    fixed_dim = f.get('self.dimension', [None])[0]
    n = dim if fixed_dim == 'dimension' else int(fixed_dim)
    env = {'self.fn': k, 'self.dimension': n}
    ev = Evaluator(env, tables)

    def value_of(src):
        v = ev.ev(ast.parse(src, mode='eval').body)
        if isinstance(v, Sym):
            raise Unsupported('symbolic metadata ' + src)
        return float(v)

    def vector(name):
        if name + '.fill' in f:
            if len(f[name + '.fill']) != 1:
                raise Unsupported('several fills of ' + name)
            return [value_of(f[name + '.fill'][0])] * n
        vals = []
        for i in range(n):
            key = '%s[%d]' % (name, i)
            if key not in f or len(f[key]) != 1:
                raise Unsupported('no value for ' + key)
            vals.append(value_of(f[key][0]))
        return vals
    lo, hi, pt = vector('self.lowerBoundOfFloatVariables'), vector('self.upperBoundOfFloatVariables'), vector('pointfv')
    dv = None
    if 'KOfunV[0].value' in f:
        dv = value_of(f['KOfunV[0].value'][0])
    elif f.get('KOfunV[0]', [None])[-1] != 'self.Calculate(KOpoint, KOfunV[0])':
        raise Unsupported('declared optimum value of %s not understood' % family)
    counts = {key: f.get('self.' + key, [None])[0] for key in ('numberOfObjectives', 'numberOfConstraints', 'numberOfFloatVariables')}
    return {'expr': calculate_expr(repo, family, {'self.fn': k, 'self.dimension': n, 'functionValue.type == FunctionType.OBJECTIV': True}),
            'n': n, 'lo': lo, 'hi': hi, 'point': pt, 'value': dv, 'counts': counts}


if __name__ == '__main__':
    import sys
    repo = sys.argv[1] if len(sys.argv) > 1 else '/repo'
    for fam, kw in (('Hill', dict(k=5)), ('Shekel', dict(k=765)), ('Shekel4', dict(k=1)), ('Rastrigin', dict(dim=2)), ('XSquared', dict(dim=3)), ('StronginC3', {})):
        r = instance(repo, fam, **kw)
        print(fam, {q: r[q] for q in r if q != 'expr'}, to_coq(r['expr'])[:200], evaluate(r['expr'], r['point']))
