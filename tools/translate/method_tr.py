"""method.py -> gen/MethodGen.v : the arithmetic and decision expressions of the AGP method as Gallina functions over an
abstract numeric interface (Ops T), one per source function. Fail-closed: any statement/expression outside the table raises.

Each function spec gives
  leaves : source expression (ast.unparse text) -> (Coq parameter name, type)   -- object reads become parameters
  ignore : statements (unparse text prefixes) that are bookkeeping outside the numeric model (prints, the index variable v)
  outs   : source assignment targets that are outputs -> Coq name; the function returns the tuple of outputs
           (initialised from `init` parameters of the same name when the source only sometimes assigns them)
  ret    : 'value' when the python function returns a numeric value (option T: None = raise)
"""
import ast
import os


class Unsupported(Exception):
    pass


T, Zt, Bt = 'T', 'Z', 'bool'

SPECS = {
    'CalculateDelta': dict(
        params=[('lx', T), ('rx', T)], leaves={'lx': ('lx', T), 'rx': ('rx', T)}, outs={}, ret='value', ignore=[],
        pow_root=True),
    'CheckStopCondition': dict(
        params=[('min_delta', T), ('eps', T), ('iterationsCount', Zt), ('itersLimit', Zt)],
        leaves={'self.min_delta': ('min_delta', T), 'self.parameters.eps': ('eps', T), 'self.iterationsCount': ('iterationsCount', Zt),
                'self.parameters.itersLimit': ('itersLimit', Zt)},
        outs={'self.stop': ('stop', Bt)}, ret='outs', ignore=['return self.stop']),
    'CalculateNextPointCoordinate': dict(
        params=[('xl', T), ('xr', T), ('idl', Zt), ('idr', Zt), ('zl', T), ('zr', T), ('M', T), ('r', T)],
        leaves={'left.GetX()': ('xl', T), 'point.GetX()': ('xr', T), 'left.GetIndex()': ('idl', Zt), 'point.GetIndex()': ('idr', Zt),
                'point.GetZ()': ('zr', T), 'left.GetZ()': ('zl', T), 'self.M[v]': ('M', T), 'self.parameters.r': ('r', T)},
        outs={}, ret='value',
        ignore=['left = point.GetLeft()', 'v = idr', 'print('],
        none_guards={'left is None'},
        locals={'xl': T, 'xr': T, 'idl': Zt, 'idr': Zt, 'dif': T, 'dg': T, 'x': T},
        pow_int='self.task.problem.numberOfFloatVariables'),
    'CalculateM': dict(
        params=[('left_none', Bt), ('il', Zt), ('ic', Zt), ('zl', T), ('zc', T), ('delta', T), ('M', T), ('recalc', Bt)],
        leaves={'left_point.GetIndex()': ('il', Zt), 'curr_point.GetIndex()': ('ic', Zt), 'left_point.GetZ()': ('zl', T),
                'curr_point.GetZ()': ('zc', T), 'curr_point.delta': ('delta', T), 'self.M[index]': ('M', T)},
        outs={'self.M[index]': ('M', T), 'self.recalc': ('recalc', Bt)}, ret='outs',
        ignore=['print('], none_guards={'curr_point is None'}, early_none={'left_point is None': 'left_none'},
        locals={'index': Zt, 'm': T}),
    'CalculateGlobalR': dict(
        params=[('left_none', Bt), ('zl', T), ('zr', T), ('r', T), ('deltax', T), ('il', Zt), ('ic', Zt), ('M', T), ('Zs', T)],
        leaves={'left_point.GetZ()': ('zl', T), 'curr_point.GetZ()': ('zr', T), 'self.parameters.r': ('r', T), 'curr_point.delta': ('deltax', T),
                'left_point.GetIndex()': ('il', Zt), 'curr_point.GetIndex()': ('ic', Zt), 'self.M[v]': ('M', T), 'self.Z[v]': ('Zs', T)},
        outs={'curr_point.globalR': ('globalR_out', T)}, ret='outs',
        ignore=['print(', 'v = curr_point.GetIndex()', 'v = left_point.GetIndex()'], none_guards={'curr_point is None'},
        early_none={'left_point is None': 'left_none'},
        locals={'zl': T, 'zr': T, 'r': T, 'deltax': T, 'globalR': T}),
    'UpdateOptimum': dict(
        params=[('best_none', Bt), ('ib', Zt), ('ip', Zt), ('zb', T), ('zp', T), ('recalc', Bt), ('Zs', T)],
        leaves={'self.best.GetIndex()': ('ib', Zt), 'point.GetIndex()': ('ip', Zt), 'point.GetZ()': ('zp', T), 'self.best.GetZ()': ('zb', T),
                'self.best is None': ('best_none', Bt)},
        outs={'self.best': ('replace', Bt), 'self.recalc': ('recalc', Bt), 'self.Z[point.GetIndex()]': ('Zs', T)}, ret='outs',
        ignore=['self.searchData.solution.bestTrials[0] = self.best', 'current = self.searchData.solution.bestTrials[0]',
                'if current is self.best or len(current.functionValues) == 0 or self.best.GetZ() <= current.functionValues[0].value: self.searchData.solution.bestTrials[0] = self.best'],
        marker_outs={'self.best': 'point'}),
}


class Fn:
    def __init__(self, name, node, spec):
        self.name, self.node, self.spec = name, node, spec
        self.locals = dict(spec.get('locals', {}))

    # ---- expressions ----
    def expr(self, e, want=None):
        code, t = self.expr_(e)
        if want and t != want:
            if t == 'lit' and want == T:
                return '(of_Z o (%s)%%Z)' % code, T
            if t == 'lit' and want == Zt:
                return '(%s)%%Z' % code, Zt
            raise Unsupported('%s: type %s where %s wanted in %s' % (self.name, t, want, ast.unparse(e)))
        return code, t

    def leaf(self, e):
        s = ast.unparse(e)
        return self.spec['leaves'].get(s)

    def expr_(self, e):
        lf = self.leaf(e)
        if lf is not None:
            return lf[0], lf[1]
        if isinstance(e, ast.Constant):
            if isinstance(e.value, bool):
                return ('true' if e.value else 'false'), Bt
            if isinstance(e.value, int):
                return str(e.value), 'lit'
            if isinstance(e.value, float):
                if e.value == 0.5:
                    return '(half o)', T
                if e.value == int(e.value):
                    return '(of_Z o (%d)%%Z)' % int(e.value), T
                raise Unsupported('float constant %r' % e.value)
            raise Unsupported('constant ' + repr(e.value))
        if isinstance(e, ast.Name):
            if e.id in self.locals:
                return e.id, self.locals[e.id]
            raise Unsupported('%s: unknown name %s' % (self.name, e.id))
        if isinstance(e, ast.UnaryOp) and isinstance(e.op, ast.USub):
            s = ast.unparse(e.operand)
            if s == 'np.inf':
                return '(ninf o)', T
            c, t = self.expr_(e.operand)
            if t == 'lit':
                return str(-int(c)), 'lit'
            if t == T:
                return '(sub o (of_Z o 0%%Z) %s)' % c, T
            raise Unsupported('unary minus on ' + t)
        if isinstance(e, ast.Attribute) and ast.unparse(e) == 'np.inf':
            return '(pinf o)', T
        if isinstance(e, ast.BinOp):
            a, ta = self.expr_(e.left)
            b, tb = self.expr_(e.right)
            if ta == 'lit' and tb == 'lit':
                raise Unsupported('literal arithmetic')
            t = T if T in (ta, tb) else Zt
            if ta == 'lit':
                a = self.expr(e.left, t)[0]
            if tb == 'lit':
                b = self.expr(e.right, t)[0]
            if (ta not in ('lit', t)) or (tb not in ('lit', t)):
                raise Unsupported('mixed arithmetic %s %s in %s' % (ta, tb, ast.unparse(e)))
            ops = {T: {ast.Add: 'add o', ast.Sub: 'sub o', ast.Mult: 'mul o', ast.Div: 'div o'},
                   Zt: {ast.Add: 'Z.add', ast.Sub: 'Z.sub', ast.Mult: 'Z.mul'}}[t]
            if type(e.op) not in ops:
                raise Unsupported('operator ' + type(e.op).__name__)
            return '(%s %s %s)' % (ops[type(e.op)], a, b), t
        if isinstance(e, ast.Call):
            fn = ast.unparse(e.func)
            if fn == 'abs' and len(e.args) == 1:
                return '(absv o %s)' % self.expr(e.args[0], T)[0], T
            if fn == 'min' and len(e.args) == 2:
                a, b = self.expr(e.args[0], T)[0], self.expr(e.args[1], T)[0]
                return '(pymin o %s %s)' % (a, b), T
            if fn == 'pow' and len(e.args) == 2:
                base = self.expr(e.args[0], T)[0]
                ex = ast.unparse(e.args[1])
                if self.spec.get('pow_root') and ex == '1.0 / dimension':
                    return '(hroot o %s)' % base, T
                if self.spec.get('pow_int') == ex:
                    return '(hpow o %s)' % base, T
                raise Unsupported('pow with exponent ' + ex)
            raise Unsupported('call ' + fn)
        raise Unsupported('expression ' + ast.unparse(e))

    def cond(self, e):
        lf = self.leaf(e)
        if lf is not None and lf[1] == Bt:
            return lf[0]
        if isinstance(e, ast.BoolOp):
            op = ' && ' if isinstance(e.op, ast.And) else ' || '
            return '(' + op.join(self.cond(v) for v in e.values) + ')'
        if isinstance(e, ast.UnaryOp) and isinstance(e.op, ast.Not):
            return '(negb %s)' % self.cond(e.operand)
        if isinstance(e, ast.Compare) and len(e.ops) == 1:
            a, ta = self.expr_(e.left)
            b, tb = self.expr_(e.comparators[0])
            t = T if T in (ta, tb) else Zt
            a = self.expr(e.left, t)[0]
            b = self.expr(e.comparators[0], t)[0]
            tab = {T: {ast.Lt: 'ltb o {a} {b}', ast.Gt: 'ltb o {b} {a}', ast.LtE: 'leb o {a} {b}', ast.GtE: 'leb o {b} {a}'},
                   Zt: {ast.Lt: 'Z.ltb {a} {b}', ast.Gt: 'Z.ltb {b} {a}', ast.LtE: 'Z.leb {a} {b}', ast.GtE: 'Z.leb {b} {a}', ast.Eq: 'Z.eqb {a} {b}'}}[t]
            if type(e.ops[0]) not in tab:
                raise Unsupported('comparison %s on %s' % (type(e.ops[0]).__name__, t))
            return '(' + tab[type(e.ops[0])].format(a=a, b=b) + ')'
        raise Unsupported('condition ' + ast.unparse(e))

    # ---- statements: returns Gallina term for the block, given the continuation term `k` (a string) ----
    def block(self, stmts, k):
        if not stmts:
            return k
        st, rest = stmts[0], stmts[1:]
        src = ' '.join(ast.unparse(st).split())
        if isinstance(st, ast.Expr) and isinstance(st.value, ast.Constant):
            return self.block(rest, k)
        if any(src.startswith(p) for p in self.spec.get('ignore', [])):
            return self.block(rest, k)
        if isinstance(st, ast.AnnAssign):
            st = ast.Assign(targets=[st.target], value=st.value)
        if isinstance(st, ast.Assign):
            if len(st.targets) != 1:
                raise Unsupported('multi-target assignment')
            tgt = ast.unparse(st.targets[0])
            if tgt in self.spec['outs']:
                name, ty = self.spec['outs'][tgt]
                if tgt in self.spec.get('marker_outs', {}):
                    if ast.unparse(st.value) != self.spec['marker_outs'][tgt]:
                        raise Unsupported('%s assigned from %s' % (tgt, ast.unparse(st.value)))
                    val = 'true'
                elif ty == Bt:
                    val = self.cond(st.value) if not isinstance(st.value, ast.Constant) else ('true' if st.value.value else 'false')
                else:
                    val = self.expr(st.value, ty)[0]
                return 'let %s := %s in\n%s' % (name, val, self.block(rest, k))
            if isinstance(st.targets[0], ast.Name):
                n = st.targets[0].id
                if n not in self.locals:
                    raise Unsupported('%s: untyped local %s' % (self.name, n))
                ty = self.locals[n]
                lf = self.leaf(st.value)
                val = self.expr(st.value, ty)[0]
                return 'let %s := %s in\n%s' % (n, val, self.block(rest, k))
            raise Unsupported('assignment to ' + tgt)
        if isinstance(st, ast.AugAssign) and isinstance(st.target, ast.Name):
            bo = ast.BinOp(left=st.target, op=st.op, right=st.value)
            n = st.target.id
            return 'let %s := %s in\n%s' % (n, self.expr(bo, self.locals[n])[0], self.block(rest, k))
        if isinstance(st, ast.If):
            test = ' '.join(ast.unparse(st.test).split())
            if test in self.spec.get('none_guards', ()):   # defensive `x is None: raise` - the model never passes None there
                if not any(isinstance(x, ast.Raise) for x in st.body):
                    raise Unsupported('None-guard without raise')
                return self.block(rest, k)
            if test in self.spec.get('early_none', {}):
                flag = self.spec['early_none'][test]
                body_k = self.block([s for s in st.body if not isinstance(s, ast.Return)], k)
                if not isinstance(st.body[-1], ast.Return):
                    raise Unsupported('early-none branch must return')
                return '(if %s then\n%s\nelse\n%s)' % (flag, body_k, self.block(rest, k))
            c = self.cond(st.test)
            # variables assigned in the branches flow through the continuation (duplicated)
            thn = self.block(st.body + rest, k)
            els = self.block(st.orelse + rest, k)
            return '(if %s then\n%s\nelse\n%s)' % (c, thn, els)
        if isinstance(st, ast.Raise):
            if self.spec['ret'] != 'value':
                raise Unsupported('raise in a function without optional result')
            return 'None'
        if isinstance(st, ast.Return):
            if self.spec['ret'] == 'value':
                return 'Some %s' % self.expr(st.value, T)[0]
            return k
        raise Unsupported('%s: statement %s' % (self.name, src))

    def translate(self):
        spec = self.spec
        params = ' '.join('(%s : %s)' % (n, t) for n, t in spec['params'])
        if spec['ret'] == 'value':
            body = self.block(list(self.node.body), 'None')
            rty = 'option T'
        else:
            outs = [v[0] for v in spec['outs'].values()]
            k = outs[0] if len(outs) == 1 else '(' + ', '.join(outs) + ')'
            # outputs that the source assigns only on some paths start from the input of the same name / false
            pre = ''
            for name, ty in spec['outs'].values():
                if name not in [p for p, _ in spec['params']]:
                    pre += 'let %s := %s in\n' % (name, 'false' if ty == Bt else '(ninf o)')
            body = pre + self.block(list(self.node.body), k)
            rty = None
        return 'Definition gen_%s {T : Type} (o : Ops T) %s%s :=\n%s.\n' % (self.name, params, (' : ' + rty) if rty else '', body)


PRELUDE = '''(* GENERATED by tools/translate/method_tr.py from iOpt/method/method.py - do not edit *)
From Coq Require Import ZArith Bool.
From IOptV Require Import AGP.Ops.
'''


def translate(repo):
    tree = ast.parse(open(os.path.join(repo, 'iOpt/method/method.py')).read())
    cls = next(n for n in tree.body if isinstance(n, ast.ClassDef) and n.name == 'Method')
    fns = {n.name: n for n in cls.body if isinstance(n, ast.FunctionDef)}
    out = [PRELUDE]
    for name, spec in SPECS.items():
        if name not in fns:
            raise Unsupported('Method.%s not found' % name)
        out.append(Fn(name, fns[name], spec).translate())
    # the min_delta update of CalculateIterationPoint
    cip = fns['CalculateIterationPoint']
    upd = [s for s in cip.body if isinstance(s, ast.Assign) and ast.unparse(s.targets[0]) == 'self.min_delta']
    if len(upd) != 1:
        raise Unsupported('expected exactly one min_delta update in CalculateIterationPoint')
    f = Fn('min_delta_update', cip, dict(leaves={'old.delta': ('old_delta', T), 'self.min_delta': ('min_delta', T)}, params=[], outs={}, ret='outs'))
    out.append('Definition gen_min_delta_update {T : Type} (o : Ops T) (old_delta min_delta : T) : T :=\n  %s.\n' % f.expr(upd[0].value, T)[0])
    # initial values set by __init__
    init = fns['__init__']
    facts = {}
    for s in init.body:
        if isinstance(s, (ast.Assign, ast.AnnAssign)):
            t = ast.unparse(s.targets[0] if isinstance(s, ast.Assign) else s.target)
            facts[t] = ' '.join(ast.unparse(s.value).split())
    need = {'self.stop': 'False', 'self.recalc': 'True', 'self.iterationsCount': '0', 'self.best': 'None',
            'self.M': '[1.0 for _ in range(task.problem.numberOfObjectives + task.problem.numberOfConstraints)]',
            'self.Z': '[np.inf for _ in range(task.problem.numberOfObjectives + task.problem.numberOfConstraints)]',
            'self.searchData.solution.solutionAccuracy': 'np.inf'}
    for k, v in need.items():
        if facts.get(k) != v:
            raise Unsupported('Method.__init__: %s = %r (model assumes %r)' % (k, facts.get(k), v))
    out.append('Definition gen_init_ok : bool := true.  (* Method.__init__ sets stop=False recalc=True iterationsCount=0 best=None M=1.0 Z=inf min_delta=inf *)\n')
    return '\n'.join(out)


if __name__ == '__main__':
    import sys
    print(translate(sys.argv[1] if len(sys.argv) > 1 else '/repo'))
